import sys, re, numpy as np
sys.path.insert(0, '/verif/harness')
import fsic, fsic.fortran as FT, fortran_ctypes as fc
import tempfile, atexit, shutil
_so = tempfile.mkdtemp(prefix='fsic_fix_demo_')
atexit.register(shutil.rmtree, _so, True)
cache = fc.Cache(_so)
def mk(script):
    syms = fsic.parse_model(script)
    Py = fsic.build_model(syms)
    txt = FT.build_fortran_definition(syms)
    class F(FT.FortranEngine, Py):
        ENGINE = cache.engine(txt)
    return Py, F, txt
def run(cls, f, **data):
    m = cls(range(6))
    for k, v in data.items(): m[k] = v
    try: r = ('ret', f(m))
    except Exception as e: r = ('raise', type(e).__name__)
    return r, ''.join(m.status), list(m.iterations), [round(float(x), 6) for x in m.Y]
Py, F, _ = mk('Y = {a} * Y[-1] + X[1]')
tests = {
 'infeasible lag solve_t(0)': lambda m: m.solve_t(0),
 'infeasible lead solve_t(-1)': lambda m: m.solve_t(-1),
 'infeasible + offset solve_t(0, offset=2)': lambda m: m.solve_t(0, offset=2),
 'solve(start=0) errors=skip': lambda m: m.solve(start=0, errors='skip'),
 'solve(end=5) errors=ignore': lambda m: m.solve(end=5, errors='ignore'),
 'max_iter=0 solve_t(2) failures=ignore': lambda m: m.solve_t(2, max_iter=0, failures='ignore'),
 'max_iter=0 solve_t(2) failures=raise': lambda m: m.solve_t(2, max_iter=0),
 'max_iter=0 solve() failures=ignore': lambda m: m.solve(max_iter=0, failures='ignore'),
 'max_iter=-1,min_iter=-2 solve_t(2)': lambda m: m.solve_t(2, max_iter=-1, min_iter=-2, failures='ignore'),
 'normal solve()': lambda m: m.solve(),
}
ok = True
for name, f in tests.items():
    a = run(Py, f, Y=1.0, X=1.0, a=0.5); b = run(F, f, Y=1.0, X=1.0, a=0.5)
    same = a == b; ok &= same
    print('%-45s %s' % (name, 'SAME' if same else 'DIFFERENT'), a if same else (a, b))
for k in (20, 21, 22, 26, 30, 40):
    script = 'Y = ' + 'abs(' * k + 'X' + ')' * k
    try:
        Py, F, txt = mk(script); r = 'compiles'
        a = run(Py, lambda m: m.solve(), Y=1.0, X=-2.0); b = run(F, lambda m: m.solve(), Y=1.0, X=-2.0); r += ' same=%s' % (a == b); ok &= a == b
    except fc.CompileError as e:
        r = 'COMPILE ERROR ' + str(re.findall(r'Error: (.*)', str(e))[:1]); ok = False
    blk = re.search(r'\n  ! -{60,}\n(.*?)\n  ! -{60,}\n', FT.build_fortran_definition(fsic.parse_model(script)), re.S).group(1)
    print('abs x%d:' % k, r, '| longest line', max(len(l) for l in blk.split('\n')[1:]))
for script in ('Y = ' + '(' * 160 + 'X' + ')' * 160, 'Y = X + ' + ' + '.join('Z[-1] * {a}' for _ in range(40))):
    try: mk(script); print('long:', 'compiles')
    except fc.CompileError as e: print('long: COMPILE ERROR', re.findall(r'Error: (.*)', str(e))[:1]); ok = False
print('PROPERTY HOLDS' if ok else 'PROPERTY VIOLATED')
