#!/bin/bash
# runtests.sh <repo-dir>: run the pinned suite in <repo-dir> and compare with /root/.vp/BASELINE.json stable_pass.
# Prints "SUITE-OK" iff every baseline-passing test still passes.
R="${1:-/repo}"
T=$(mktemp -d)
cd "$R" || exit 2
PYTHONPATH="$R" timeout 900 /venv/bin/python -m pytest -ra -q -p no:cacheprovider --timeout=900 --continue-on-collection-errors --junitxml=$T/junit.xml >$T/pytest.out 2>&1
/venv/bin/python - "$T/junit.xml" <<'PY'
import json, sys, xml.etree.ElementTree as ET
b = json.load(open('/root/.vp/BASELINE.json'))
t = ET.parse(sys.argv[1]).getroot()
ok = set()
for tc in t.iter('testcase'):
    name = tc.get('classname') + '::' + tc.get('name')
    if not any(c.tag in ('failure', 'error', 'skipped') for c in tc):
        ok.add(name)
miss = [x for x in b['stable_pass'] if x not in ok]
print('passed', len(ok), '| required tests now failing:', len(miss), miss[:10], '|', 'SUITE-OK' if not miss else 'SUITE-BROKEN')
PY
tail -1 $T/pytest.out
rm -rf "$T"
