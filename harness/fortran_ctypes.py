"""gfortran + ctypes stand-in for the f2py extension module that `fsic.fortran.FortranEngine` expects as `ENGINE`.

f2py and Meson are absent from this image, so the generated Fortran (`fsic.fortran.build_fortran_definition`) is compiled
with `gfortran -shared -fPIC` and its three external subroutines `evaluate_`, `solve_t_`, `solve_` are called through
ctypes (every argument by reference, arrays in Fortran order).  `Engine` presents the Python-level call signatures f2py
derives from the `intent(in)` / `intent(out)` declarations of the template:

    evaluate(initial_values, t)                                   -> (solved_values, error_code)
    solve_t(initial_values, t, min_iter, max_iter, tol, offset,
            convergence_variables, error_control)                 -> (solved_values, converged, iteration, error_code)
    solve(initial_values, indexes, min_iter, max_iter, tol, offset,
          convergence_variables, failure_control, error_control)  -> (solved_values, convergence_results, iterations,
                                                                      solution_error_codes)

Arguments are passed VERBATIM: no index is shifted or repaired here (finding #27 — zero-based convergence-variable numbers —
lived in the wrapper and was repaired there by fix a13bd1e; reverting that fix must show up through this adapter unchanged).

Determinism of an out-of-bounds read: the template reads `solved_values(convergence_variables, index)`; with a zero-based
number (the pre-a13bd1e wrapper) row 0 of column 1 lies one element BEFORE the output buffer.  f2py would leave there
whatever the allocator left; here the output buffer is carved out of a larger block whose neighbouring cells hold `GUARD`
(= +0.0), so such a run is reproducible and the Coq model (`FSem.fread`: flat column-major addressing) mirrors it.

Compile artefacts live in a cache directory owned by the caller (see `Cache`), keyed by the hash of the program text.
"""
import ctypes
import fcntl
import hashlib
import os
import re
import shutil
import subprocess
import tempfile

import numpy as np

GUARD = 0.0
# f2py's Meson backend builds with an optimised buildtype; no -ffast-math, no -march.  -ffp-contract=off: a*b+c stays two roundings also
# where the baseline ISA has a fused multiply-add (aarch64, ppc64; no effect on x86-64), as in the Python engine
FFLAGS = ['-O2', '-ffp-contract=off', '-shared', '-fPIC']
_c_int_p = ctypes.POINTER(ctypes.c_int)
_c_double_p = ctypes.POINTER(ctypes.c_double)


class CompileError(Exception):
    """gfortran rejected the generated program (message = compiler output)."""


class ToolError(RuntimeError):
    """The tool chain failed for a reason that says nothing about the program: gfortran killed by a signal / out of memory / no space
    left / timed out, or the shared object cannot be loaded (directory mounted noexec).  NOT a CompileError: callers let it
    propagate so that the run ends as a harness error instead of a verdict about fsic.  Never cached."""


_INFRA = re.compile(r'Killed|out of memory|Cannot allocate memory|virtual memory exhausted|No space left|Disk quota|'
                    r'internal compiler error|Input/output error|Read-only file system|Permission denied|Segmentation fault|'
                    r'Too many open files|Cannot open|cannot open|Can\'t open|can\'t open', re.I)


def _diagnosed(returncode, output):
    """A non-zero gfortran exit is a verdict on the source only if the compiler itself says so: exit by return (not by signal), an
    `Error:` diagnostic with a source location, and no sign of resource trouble in its output."""
    return returncode > 0 and re.search(r'^\S*model\.f95:\d+[:.]\d+', output, re.M) is not None and 'Error' in output \
        and _INFRA.search(output) is None


class Cache:
    """Directory of compiled shared objects keyed by program text; `compile()` is safe across processes."""

    def __init__(self, path):
        self.path = path
        self._loaded = {}

    def compile(self, text, timeout=45):
        """-> path of the .so for `text` (compiling it once); raises CompileError with the compiler's output."""
        os.makedirs(self.path, exist_ok=True)
        key = hashlib.sha256((' '.join(FFLAGS) + '\0' + text).encode()).hexdigest()[:24]
        so = os.path.join(self.path, key + '.so')
        err = os.path.join(self.path, key + '.err')
        if os.path.exists(so):
            return so
        if os.path.exists(err):
            raise CompileError(open(err).read())
        with open(os.path.join(self.path, key + '.lock'), 'w') as lk:
            fcntl.flock(lk, fcntl.LOCK_EX)
            if os.path.exists(so):
                return so
            if os.path.exists(err):
                raise CompileError(open(err).read())
            work = tempfile.mkdtemp(prefix='build_', dir=self.path)     # .mod files of the three modules land here
            try:
                src = os.path.join(work, 'model.f95')
                with open(src, 'w') as f:
                    f.write(text)
                try:
                    p = subprocess.run(['gfortran'] + FFLAGS + ['-J', work, src, '-o', os.path.join(work, 'model.so')],
                                       capture_output=True, text=True, timeout=timeout, cwd=work)
                except subprocess.TimeoutExpired:
                    raise ToolError('gfortran did not finish within %d s (machine overloaded?)' % timeout)
                except OSError as e:
                    raise ToolError('gfortran could not be run: %s' % e)
                out_ = (p.stderr or '') + (p.stdout or '')
                if p.returncode != 0 and not _diagnosed(p.returncode, out_):
                    raise ToolError('gfortran failed without diagnosing the source (exit status %d): %s' % (p.returncode, out_[-600:]))
                if p.returncode == 0 and not os.path.exists(os.path.join(work, 'model.so')):
                    raise ToolError('gfortran exited 0 without writing the shared object: %s' % out_[-600:])
                if p.returncode != 0:
                    with open(err + '.tmp', 'w') as f:
                        f.write((p.stderr or p.stdout)[-4000:])
                    os.replace(err + '.tmp', err)
                    raise CompileError(open(err).read())
                os.replace(os.path.join(work, 'model.so'), so)
            finally:
                shutil.rmtree(work, ignore_errors=True)
        return so

    def engine(self, text):
        so = self.compile(text)
        if so not in self._loaded:
            self._loaded[so] = Engine(so)
        return self._loaded[so]

    def remove(self):
        shutil.rmtree(self.path, ignore_errors=True)


def _int(x):
    x = int(x)
    if not -2 ** 31 <= x < 2 ** 31:        # f2py refuses what does not fit a C int; ctypes would wrap silently
        raise OverflowError('Python int too large to convert to C int')
    return ctypes.byref(ctypes.c_int(x))


class Engine:
    """The object to assign to `FortranEngine.ENGINE`."""

    def __init__(self, so_path):
        try:
            self._lib = ctypes.CDLL(so_path)
        except OSError as e:
            raise ToolError('cannot load the compiled module %s: %s (is %s mounted noexec? set VERIF_SO_DIR to a directory on a '
                            'file system that allows execution)' % (so_path, e, os.path.dirname(so_path)))
        for name in ('evaluate_', 'solve_t_', 'solve_'):
            getattr(self._lib, name).restype = None

    # -- helpers ------------------------------------------------------------------------------------------------
    @staticmethod
    def _in_matrix(a):
        a = np.asfortranarray(np.array(a, dtype=np.float64))       # f2py: intent(in) copy in Fortran order
        if a.ndim != 2:
            raise ValueError('initial_values must be a rank-2 array')
        return a

    @staticmethod
    def _out_matrix(nrows, ncols):
        """Fortran-ordered (nrows, ncols) float64 view with one GUARD cell on either side of its memory."""
        block = np.full(nrows * ncols + 2, GUARD, dtype=np.float64)
        view = block[1:-1].reshape((nrows, ncols), order='F')
        return block, view

    @staticmethod
    def _int_vector(xs):
        v = np.array(list(xs), dtype=np.intc)
        if v.ndim != 1:
            raise ValueError('expected a rank-1 integer sequence')
        return np.ascontiguousarray(v)

    @staticmethod
    def _ptr(a, typ):
        if a.size == 0:                       # zero-sized arrays: any valid address will do, nothing is dereferenced
            a = np.zeros(1, dtype=a.dtype)
        return a.ctypes.data_as(typ), a

    # -- the three routines -------------------------------------------------------------------------------------
    def evaluate(self, initial_values, t):
        iv = self._in_matrix(initial_values)
        nrows, ncols = iv.shape
        block, out = self._out_matrix(nrows, ncols)
        code = ctypes.c_int(-999)
        ivp, _k1 = self._ptr(iv, _c_double_p)
        self._lib.evaluate_(ivp, _int(t), ctypes.cast(ctypes.c_void_p(block.ctypes.data + 8), _c_double_p), ctypes.byref(code),
                            _int(nrows), _int(ncols))
        return out.copy(order='F'), int(code.value)

    def solve_t(self, initial_values, t, min_iter, max_iter, tol, offset, convergence_variables, error_control):
        iv = self._in_matrix(initial_values)
        nrows, ncols = iv.shape
        cv = self._int_vector(convergence_variables)
        block, out = self._out_matrix(nrows, ncols)
        converged, iteration, code = ctypes.c_int(0), ctypes.c_int(-999), ctypes.c_int(-999)
        ivp, _k1 = self._ptr(iv, _c_double_p)
        cvp, _k2 = self._ptr(cv, _c_int_p)
        self._lib.solve_t_(ivp, _int(t), _int(min_iter), _int(max_iter), ctypes.byref(ctypes.c_double(float(tol))), _int(offset),
                           cvp, _int(error_control),
                           ctypes.cast(ctypes.c_void_p(block.ctypes.data + 8), _c_double_p),
                           ctypes.byref(converged), ctypes.byref(iteration), ctypes.byref(code),
                           _int(nrows), _int(ncols), _int(cv.size))
        return out.copy(order='F'), int(converged.value != 0), int(iteration.value), int(code.value)

    def solve(self, initial_values, indexes, min_iter, max_iter, tol, offset, convergence_variables, failure_control, error_control):
        iv = self._in_matrix(initial_values)
        nrows, ncols = iv.shape
        ix = self._int_vector(indexes)
        cv = self._int_vector(convergence_variables)
        block, out = self._out_matrix(nrows, ncols)
        n = ix.size
        conv = np.zeros(max(n, 1), dtype=np.intc)
        its = np.full(max(n, 1), -999, dtype=np.intc)
        codes = np.full(max(n, 1), -999, dtype=np.intc)
        ivp, _k1 = self._ptr(iv, _c_double_p)
        ixp, _k2 = self._ptr(ix, _c_int_p)
        cvp, _k3 = self._ptr(cv, _c_int_p)
        self._lib.solve_(ivp, ixp, _int(min_iter), _int(max_iter), ctypes.byref(ctypes.c_double(float(tol))), _int(offset),
                         cvp, _int(failure_control), _int(error_control),
                         ctypes.cast(ctypes.c_void_p(block.ctypes.data + 8), _c_double_p),
                         conv.ctypes.data_as(_c_int_p), its.ctypes.data_as(_c_int_p), codes.ctypes.data_as(_c_int_p),
                         _int(nrows), _int(ncols), _int(cv.size), _int(n))
        return out.copy(order='F'), (conv[:n] != 0).astype(np.intc), its[:n].copy(), codes[:n].copy()
