"""Scripted models: a BaseModel subclass whose _evaluate / hooks replay a per-position action script.
The same script is the `ev/before/after` oracle of the Coq model (Solver/SolverF.v)."""
import warnings

import numpy as np

CAUSES = {1: RuntimeWarning, 2: IndexError, 10: ZeroDivisionError, 11: KeyError, 12: RuntimeError, 13: ValueError, 14: FloatingPointError}
CAUSE_TAG = {v.__name__: k for k, v in CAUSES.items()}
CAUSE_TAG['UserWarning'] = 1          # the model has one tag for 'the warning raised by the filter', whatever its category
# fsic's OWN exception classes (and a subclass of each) raised from inside a hook / _evaluate, e.g. by an inner model solved within the
# equations: they too must surface as a NEW SolutionError chained to them
FSIC_CAUSES = {20: 'SolutionError', 21: 'NonConvergenceError', 22: 'InnerSolutionError', 23: 'InnerNonConvergenceError'}
CAUSE_TAG.update({v: k for k, v in FSIC_CAUSES.items()})
_FSIC_CLASSES = {}


def cause_class(tag):
    if tag in CAUSES:
        return CAUSES[tag]
    if not _FSIC_CLASSES:
        import fsic.exceptions as fe
        _FSIC_CLASSES.update({20: fe.SolutionError, 21: fe.NonConvergenceError,
                              22: type('InnerSolutionError', (fe.SolutionError,), {}),
                              23: type('InnerNonConvergenceError', (fe.NonConvergenceError,), {})})
    return _FSIC_CLASSES[tag]


def unhex(s):
    return float.fromhex(s) if s not in ('nan', 'inf', '-inf') else float(s)


def run_actions(model, t, acts, kw=None):
    for a in acts:
        k = a[0]
        if k == 'setkw':
            # the value depends on an extra keyword argument handed down by solve_t / solve / solve_period (**kwargs forwarding)
            model.__dict__['_V%d' % a[1]][t] = np.float64(unhex(a[2])) + np.float64((kw or {}).get(a[3], 0.0))
        elif k == 'setlistkeep':
            # model.V_i = list(model.V_i): a whole-series list assignment of the values the variable already has (e.g. a pre-hook that
            # loads stored starting guesses): no value changes, but the backing array is rebound
            setattr(model, 'V%d' % a[1], [float(x) for x in model.__dict__['_V%d' % a[1]]])
        elif k == 'setlist':
            # same effect as 'set', but written as a WHOLE-SERIES assignment of a plain list (model.V_i = [...]): VectorContainer.__setattr__
            # then REBINDS the variable's backing array instead of writing into it
            series = [float(x) for x in model.__dict__['_V%d' % a[1]]]
            series[t] = unhex(a[2])
            setattr(model, 'V%d' % a[1], series)
        elif k == 'set':
            model.__dict__['_V%d' % a[1]][t] = unhex(a[2])
        elif k == 'warnset':
            before = float(model.__dict__['_V%d' % a[1]][t])
            # optional 4th field 'user': the warning is a UserWarning (e.g. issued by a user-supplied helper), not NumPy's RuntimeWarning
            category = UserWarning if len(a) > 3 and a[3] == 'user' else RuntimeWarning
            try:
                warnings.warn('scripted numerical warning', category)
            except Warning:
                # the filter turned the warning into an exception: remember what the cell held (oracle: it must stay)
                model.__dict__['_blocked'].append([a[1], int(t), before.hex() if before == before and abs(before) != float('inf') else repr(before)])
                raise
            # the filter let the warning pass (recorded and dropped): the statement stores
            model.__dict__.setdefault('_warn_stored', []).append([a[1], int(t), category.__name__])
            model.__dict__['_V%d' % a[1]][t] = unhex(a[2])
        elif k == 'raise':
            raise cause_class(a[1])('scripted')
        elif k == 'setat':
            model.__dict__['_V%d' % a[1]][a[2]] = unhex(a[3])
        elif k == 'affine':
            arr = model.__dict__['_V%d' % a[1]]
            arr[t] = np.float64(unhex(a[2])) * model.__dict__['_V%d' % a[3]][t] + np.float64(unhex(a[4]))
        else:
            raise AssertionError('unknown action %r' % (a,))


def make_class(base, nvars, check, endo, extra=()):
    names = ['V%d' % i for i in range(nvars)]

    class Scripted(*extra, base):
        NAMES = list(names)
        ENDOGENOUS = ['V%d' % i for i in endo]
        CHECK = ['V%d' % i for i in check]
        LAGS = 0
        LEADS = 0

        def _pos(self, t):
            return t if t >= 0 else t + len(self.span)

        def iter_periods(self, **kwargs):
            # which extra keyword arguments solve() hands on to iter_periods()
            self.__dict__.setdefault('_ipkw', []).append(sorted(k for k in kwargs if k not in ('start', 'end')))
            return super().iter_periods(**kwargs)

        def solve_t_before(self, t, *, errors='raise', catch_first_error=True, iteration=None, **kwargs):
            self.__dict__['_evlog'].append(['before', int(t), int(iteration)])
            self.__dict__.setdefault('_evpos', []).append(['before', int(self._pos(t)), int(iteration)])
            sc = self.__dict__['_scripts'].get(str(self._pos(t)))
            try:
                if sc:
                    run_actions(self, t, sc.get('before', []), kwargs)
            except Exception as e:
                self.__dict__['_raised'].append(['before', int(t), 0, type(e).__name__])
                self.__dict__['_last_exc'] = e
                raise

        def _evaluate(self, t, *, errors='raise', catch_first_error=True, iteration=None, **kwargs):
            self.__dict__['_evlog'].append(['pass', int(t), int(iteration)])
            self.__dict__.setdefault('_evpos', []).append(['pass', int(self._pos(t)), int(iteration)])
            sc = self.__dict__['_scripts'].get(str(self._pos(t)))
            try:
                if sc:
                    passes = sc.get('passes', [])
                    if 1 <= iteration <= len(passes):
                        run_actions(self, t, passes[iteration - 1], kwargs)
            except Exception as e:
                self.__dict__['_raised'].append(['pass', int(t), int(iteration), type(e).__name__])
                self.__dict__['_last_exc'] = e
                raise
            finally:
                self.__dict__['_passvecs'].append([float(self.__dict__['_' + n][t]) for n in self.check])

        def solve_t_after(self, t, *, errors='raise', catch_first_error=True, iteration=None, **kwargs):
            self.__dict__['_evlog'].append(['after', int(t), int(iteration)])
            self.__dict__.setdefault('_evpos', []).append(['after', int(self._pos(t)), int(iteration)])
            sc = self.__dict__['_scripts'].get(str(self._pos(t)))
            try:
                if sc:
                    run_actions(self, t, sc.get('after', []), kwargs)
            except Exception as e:
                self.__dict__['_raised'].append(['after', int(t), int(iteration), type(e).__name__])
                self.__dict__['_last_exc'] = e
                raise

    return Scripted


def instantiate(cls, span, vals, status, iters, scripts, lags=0, leads=0):
    m = cls(span)
    # instance-level lags / leads, as SolverMixin.__init__ exposes them (copied from LAGS / LEADS; BaseModel.solve_t reads these)
    m.lags = int(lags)
    m.leads = int(leads)
    for i, row in enumerate(vals):
        m.__dict__['_V%d' % i][:] = [unhex(x) for x in row]
    m.__dict__['_status'][:] = status
    m.__dict__['_iterations'][:] = iters
    m.__dict__['_scripts'] = scripts
    m.__dict__['_evlog'] = []          # (kind, t as the hook received it, iteration)
    m.__dict__['_evpos'] = []          # (kind, POSITION of the period, iteration): independent of how t is spelled to the hooks
    m.__dict__['_passvecs'] = []
    m.__dict__['_raised'] = []
    m.__dict__['_blocked'] = []
    m.__dict__['_warn_stored'] = []
    return m
