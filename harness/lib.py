"""Shared machinery of the checks: Coq build + audit, implementation worker pool with
watchdog, Coq case runner, evidence / replay / known-finding handling."""
import fcntl
import glob
import hashlib
import json
import math
import os
import queue
import re
import select
import subprocess
import sys
import threading
import time

HERE = os.path.dirname(os.path.abspath(__file__))
ROOT = os.path.dirname(HERE)
REPO = os.environ.get('FSIC_REPO', '/repo')
SHARED_COQ = os.path.join(ROOT, 'coq')
# Runs against a scratch copy of the repository (mutation / seeded-change runs, FSIC_REPO=<copy>) get a PRIVATE copy of
# the Coq development: the regenerated constants of a mutated tree must never land in the shared build directory.
if os.path.realpath(REPO) != os.path.realpath('/repo'):
    COQ = os.path.join('/tmp/verif_coq', hashlib.md5(os.path.realpath(REPO).encode()).hexdigest()[:10], 'coq')
else:
    COQ = SHARED_COQ
PY = '/venv/bin/python'
NPROC = int(os.environ.get('VERIF_JOBS', '16'))

IMPL_ENV = dict(os.environ, VERIF_COQ_DIR=COQ, PYTHONPATH=REPO + os.pathsep + HERE, PYTHONHASHSEED='0', FSIC_VERIF='1',
                OMP_NUM_THREADS='1', OPENBLAS_NUM_THREADS='1', MKL_NUM_THREADS='1', PYTHONWARNINGS='ignore')

FORBIDDEN = re.compile(r'\b(Admitted|admit|Axiom|Axioms|Parameter|Parameters|Conjecture|Conjectures|Unset\s+Guard|bypass_check|Admit\s+Obligations|type-in-type|impredicative-set|Unset\s+Universe\s+Checking|Unset\s+Positivity)\b')
# what Print Assumptions may list: kernel primitives (8.16 prints them under "Axioms:") and stdlib axioms named in DESIGN.md §5
PRIM_OK = re.compile(r'^(sub|mul|ltb|leb|eqb|add|abs|div|opp|sqrt|float|classify|compare|of_uint63|normfr_mantissa|frshiftexp|ldshiftexp|next_up|next_down|int|of_int63|PrimFloat\.\w+|Uint63\.\w+|PrimInt63\.\w+|lsl|lsr|land|lor|lxor|addc|subc|mulc|diveucl|mod|ltb|head0|tail0|asr|mods|divs|lesb|ltsb|compares|addcarryc|subcarryc|diveucl_21|addmuldiv)\s*:')
STDLIB_AXIOMS_OK = ('functional_extensionality_dep', 'proof_irrelevance', 'classic', 'JMeq_eq', 'Eqdep.Eq_rect_eq.eq_rect_eq', 'eq_rect_eq', 'FunctionalExtensionality.functional_extensionality_dep', 'Classical_Prop.classic', 'ProofIrrelevance.proof_irrelevance', 'JMeq.JMeq_eq')


# --------------------------------------------------------------------------- floats / formatting
def fhex(x):
    x = float(x)
    if math.isnan(x):
        return 'nan'
    if math.isinf(x):
        return 'inf' if x > 0 else '-inf'
    return x.hex()


def unhex(s):
    return float.fromhex(s) if s not in ('nan', 'inf', '-inf') else float(s)


def cfloat(h):
    """Coq PrimFloat literal from a hex string as produced by fhex."""
    if h == 'nan':
        return 'nan'
    if h == 'inf':
        return 'infinity'
    if h == '-inf':
        return 'neg_infinity'
    return '(%s)%%float' % h if h.startswith('-') else h + '%float'


def cZ(i):
    i = int(i)
    return '(%d)' % i if i < 0 else str(i)


def cnat(i):
    assert int(i) >= 0
    return '%d%%nat' % int(i)


def clist(xs):
    return '[' + '; '.join(xs) + ']'


def cbool(b):
    return 'true' if b else 'false'


def cstring(s):
    """Coq string literal (Latin-1)."""
    parts, buf = [], []
    for c in s:
        o = ord(c)
        assert o < 256, 'non Latin-1 in model input'
        if 32 <= o < 127 and c != '"':
            buf.append(c)
        elif c == '"':
            buf.append('""')
        else:
            if buf:
                parts.append('"%s"' % ''.join(buf))
                buf = []
            parts.append('(String (ascii_of_nat %d) "")' % o)
    if buf or not parts:
        parts.append('"%s"' % ''.join(buf))
    return ('(' + ' ++ '.join(parts) + ')') if len(parts) > 1 else parts[0]


def run_tag(prefix):
    """Scratch-file prefix for the model side of one run: two runs of the same property (two seeds, quick and thorough) may
    run at the same time in one tree without touching each other's files."""
    return '%s_p%d' % (prefix, os.getpid())


def jhash(x):
    return hashlib.sha256(json.dumps(x, sort_keys=True, default=str).encode()).hexdigest()[:16]


# --------------------------------------------------------------------------- Coq build and audit
class BuildResult:
    def __init__(self):
        self.ok = False
        self.log = ''
        self.failed_files = []
        self.gen_rc = 0
        self.cmd = ''


_prepared = False


def prepare():
    """Runs against a scratch copy of the repository work on a private rsync'ed copy of the Coq development."""
    global _prepared
    if _prepared:
        return
    _prepared = True
    if COQ != SHARED_COQ:
        os.makedirs(COQ, exist_ok=True)
        with open(os.path.join(SHARED_COQ, '.build.lock'), 'a') as lk:     # consistent snapshot of the shared development
            fcntl.flock(lk, fcntl.LOCK_EX)
            subprocess.run(['rsync', '-a', '--delete', '--exclude', 'cases/', SHARED_COQ + '/', COQ + '/'], check=True, timeout=600)
    os.makedirs(os.path.join(COQ, 'cases'), exist_ok=True)


def build_coq(jobs=NPROC, targets=None):
    """Regenerate Gen/Generated.v from /repo and run the .vo build (under a lock): everything (targets=None, what
    MANIFEST.setup_cmd does) or the given .vo targets with all they depend on (what a single property's check needs)."""
    res = BuildResult()
    prepare()
    try:
        g = subprocess.run([PY, os.path.join(HERE, 'gen_constants.py')], env=IMPL_ENV, capture_output=True, text=True, timeout=300)
        res.gen_rc = g.returncode
        res.log += g.stdout + g.stderr
        if g.returncode != 0:
            return res
        res.cmd = 'harness/build.sh  (coq_makefile -f _CoqProject && make -j%d; full .vo build, Coq 8.16.1)' % jobs
        b = subprocess.run([os.path.join(HERE, 'build.sh'), '-k'] + list(targets or []), env=dict(os.environ, BUILD_JOBS=str(jobs), VERIF_COQ_DIR=COQ), capture_output=True, text=True, timeout=3600)
        res.log += b.stdout + b.stderr
        res.ok = b.returncode == 0
        res.failed_files = re.findall(r'^File "\./([^"]+)", line', b.stdout + b.stderr, re.M)
        for m in re.finditer(r'\*\*\* \[[^\]]*: ([\w/]+)\.vo\] Error', b.stdout + b.stderr):
            f = m.group(1) + '.v'
            if f not in res.failed_files:
                res.failed_files.append(f)
        return res
    finally:
        pass


def closure(vfile):
    """Transitive .v dependencies of a file of the development (from `Require` lines)."""
    index = {}
    for f in glob.glob(os.path.join(COQ, '**', '*.v'), recursive=True):
        rel = os.path.relpath(f, COQ)
        if rel.startswith('cases' + os.sep):
            continue
        index[os.path.splitext(os.path.basename(f))[0]] = rel
    seen, todo = [], [vfile]
    while todo:
        f = todo.pop()
        if f in seen:
            continue
        seen.append(f)
        try:
            txt = open(os.path.join(COQ, f)).read()
        except OSError:
            continue
        txt = re.sub(r'\(\*.*?\*\)', ' ', txt, flags=re.S)
        for m in re.finditer(r'(?:\bFrom\s+([\w.]+)\s+)?\bRequire\s+(?:Import\s+|Export\s+)?((?:\w+(?:\.\w+)*\s*)+)\.(?=\s)', txt):
            if m.group(1) and not m.group(1).startswith('Fsic'):
                continue            # From Coq / From stdpp ... : not ours
            for name in m.group(2).split():
                base = name.split('.')[-1]
                if base in index and not name.startswith('Coq.'):
                    todo.append(index[base])
    return sorted(seen)


def audit(props_file):
    """Returns dict(ok, problems, obligations, discharged, assumptions(list of str), files)."""
    files = closure(props_file)
    problems = []
    obligations = discharged = 0
    for f in files:
        path = os.path.join(COQ, f)
        txt = open(path).read()
        code = re.sub(r'\(\*.*?\*\)', ' ', txt, flags=re.S)
        code = re.sub(r'"(?:[^"]|"")*"', '""', code)      # string literals are data, not vernacular
        for m in FORBIDDEN.finditer(code):
            problems.append('%s: forbidden `%s`' % (f, m.group(0)))
        if re.search(r'^\s*(Variable|Variables|Hypothesis|Hypotheses|Context)\b', code, re.M):
            # allowed only inside a Section: every such line must lie between Section/End
            depth = 0
            for line in code.splitlines():
                if re.match(r'\s*Section\s', line):
                    depth += 1
                elif re.match(r'\s*End\s', line) and depth > 0:
                    depth -= 1
                elif re.match(r'\s*(Variable|Variables|Hypothesis|Hypotheses|Context)\b', line) and depth == 0:
                    problems.append('%s: `%s` outside a section' % (f, line.strip()[:60]))
        names = re.findall(r'^\s*(?:Local\s+|Global\s+|#\[[^\]]*\]\s*)?(?:Theorem|Lemma|Corollary|Example|Fact|Proposition|Remark)\s+([\w\x27]+)', code, re.M)
        n = len(names)
        obligations += n
        vo = os.path.splitext(path)[0] + '.vo'
        if os.path.exists(vo) and os.path.getmtime(vo) >= os.path.getmtime(path):
            # a statement counts as discharged when this run's compiler recorded it in the .glob of a compiled file
            gl = os.path.splitext(path)[0] + '.glob'
            recorded = set(re.findall(r'^(?:prf|def|thm) \d+:\d+ \S+ (\S+)', open(gl).read(), re.M)) if os.path.exists(gl) else set()
            got = sum(1 for x in names if x in recorded)
            discharged += got
            if got < n:
                problems.append('%s: %d statements but %d recorded in .glob (%s)' % (f, n, got, [x for x in names if x not in recorded][:3]))
        else:
            problems.append('%s: not compiled' % f)
    # Print Assumptions of the property theorems: recompile the Props file alone and read its output
    assumptions = []
    os.makedirs(os.path.join(COQ, 'cases', 'audit'), exist_ok=True)
    audit_dir = os.path.join('cases', 'audit', 'p%d' % os.getpid())      # coqc -o: same base name, another directory
    os.makedirs(os.path.join(COQ, audit_dir), exist_ok=True)
    audit_vo = os.path.join(audit_dir, os.path.basename(props_file)[:-2] + '.vo')
    p = subprocess.run(['coqc', '-R', '.', 'Fsic', '-w', '-notation-overridden,-inexact-float', '-o', audit_vo, props_file], cwd=COQ, capture_output=True, text=True, timeout=900)
    import shutil
    shutil.rmtree(os.path.join(COQ, audit_dir), ignore_errors=True)
    out = p.stdout
    if p.returncode != 0:
        problems.append('%s does not compile: %s' % (props_file, (p.stderr or p.stdout)[-400:]))
    n_print = len(re.findall(r'^\s*Print Assumptions', open(os.path.join(COQ, props_file)).read(), re.M))
    blocks = re.split(r'(?=^Closed under the global context|^Axioms:)', out, flags=re.M)
    blocks = [b for b in blocks if b.startswith('Closed') or b.startswith('Axioms:')]
    if p.returncode == 0 and len(blocks) != n_print:
        problems.append('%s: %d Print Assumptions commands but %d answers' % (props_file, n_print, len(blocks)))
    for b in blocks:
        if b.startswith('Closed'):
            assumptions.append('Closed under the global context')
            continue
        names = []
        for line in b.splitlines()[1:]:
            if not line.strip() or line.startswith(' '):
                continue
            nm = line.split(':')[0].strip()
            names.append(nm)
            if not PRIM_OK.match(line) and nm not in STDLIB_AXIOMS_OK:
                problems.append('%s: assumption outside the trusted base: %s' % (props_file, line.strip()[:100]))
        assumptions.append('kernel primitives / stdlib axioms: ' + ', '.join(names))
    n_thm = len(re.findall(r'^\s*Theorem\s', open(os.path.join(COQ, props_file)).read(), re.M))
    return dict(ok=not problems, problems=problems, obligations=obligations, discharged=discharged,
                assumptions=assumptions, files=files, theorems=n_thm)


def coqchk(props_file, timeout=3000):
    """Independent re-check (coqchk -o) of the compiled Props file and everything it depends on.
    -> dict(ok, problems, axioms): every axiom in the context summary must live in the Coq.* standard library (the
    primitive-integer/float operations and their specification axioms, and stdlib axioms named in DESIGN.md section 5)."""
    mod = 'Fsic.' + os.path.splitext(props_file)[0].replace('/', '.')
    try:
        p = subprocess.run(['coqchk', '-silent', '-o', '-R', '.', 'Fsic', mod], cwd=COQ, capture_output=True, text=True, timeout=timeout)
    except subprocess.TimeoutExpired:
        return dict(ok=False, problems=['coqchk timeout'], axioms=[])
    out = p.stdout + p.stderr
    problems = []
    if p.returncode != 0:
        problems.append('coqchk failed: ' + out[-400:])
    m = re.search(r'\* Axioms:(.*?)\n\s*\n\* Constants/Inductives relying on type-in-type:(.*?)\n\s*\n\* Constants/Inductives relying on unsafe \(co\)fixpoints:(.*?)\n\s*\n\* Inductives whose positivity is assumed:(.*?)\n', out + '\n', re.S)
    axioms = []
    if not m:
        problems.append('coqchk: context summary not found')
    else:
        axioms = [a.strip() for a in m.group(1).split() if a.strip() and a.strip() != '<none>']
        for a in axioms:
            if not a.startswith('Coq.'):
                problems.append('coqchk: axiom outside the standard library: ' + a)
        for name, grp in (('type-in-type', 2), ('unsafe fixpoints', 3), ('assumed positivity', 4)):
            if m.group(grp).strip() != '<none>':
                problems.append('coqchk: %s: %s' % (name, m.group(grp).strip()[:200]))
    return dict(ok=not problems, problems=problems, axioms=sorted(axioms))


# --------------------------------------------------------------------------- running Coq on generated cases
def run_coq_cases(tag, preamble, items, expr_of_list, shard=400, timeout=900):
    """items: list of Coq terms (one per case).  Each shard file defines `cs := [items]` and evaluates
    `expr_of_list` (a Coq expression over `cs` yielding `list nat` of failing indices).  Returns
    (bad_global_indices, errors)."""
    d = os.path.join(COQ, 'cases')
    os.makedirs(d, exist_ok=True)
    for f in glob.glob(os.path.join(d, '%s_*' % tag)):
        os.remove(f)
    shards = [items[i:i + shard] for i in range(0, len(items), shard)]
    files = []
    for si, sh in enumerate(shards):
        fn = os.path.join(d, '%s_%d.v' % (tag, si))
        with open(fn, 'w') as f:
            f.write(preamble)
            f.write('\nDefinition cs := [\n' + ';\n'.join(sh) + '\n].\n')
            f.write('Definition answer := %s.\n' % expr_of_list)
            f.write('Eval vm_compute in answer.\n')
        files.append(fn)
    bad, errors = [], []
    lock = threading.Lock()

    def work(si, fn):
        try:
            p = subprocess.run(['coqc', '-R', '..', 'Fsic', '-w', '-notation-overridden,-inexact-float,-deprecated', os.path.basename(fn)], cwd=d, capture_output=True, text=True, timeout=timeout)
        except subprocess.TimeoutExpired:
            with lock:
                errors.append('%s: coqc timeout' % fn)
            return
        if p.returncode != 0:
            with lock:
                errors.append('%s: %s' % (fn, (p.stderr or p.stdout)[-600:]))
            return
        m = re.search(r'=\s*\[(.*?)\]\s*:\s*list nat', p.stdout, re.S)
        if not m:
            with lock:
                errors.append('%s: cannot parse output %r' % (fn, p.stdout[-300:]))
            return
        idx = [int(x.replace('%nat', '')) for x in re.findall(r'\d+(?:%nat)?', m.group(1))]
        with lock:
            bad.extend(si * shard + i for i in idx)

    threads = []
    sem = threading.Semaphore(NPROC)

    def guarded(si, fn):
        with sem:
            work(si, fn)
    for si, fn in enumerate(files):
        th = threading.Thread(target=guarded, args=(si, fn))
        th.start()
        threads.append(th)
    for th in threads:
        th.join()
    for f in glob.glob(os.path.join(d, '%s_*' % tag)) + glob.glob(os.path.join(d, '.%s_*' % tag)):
        if not f.endswith('.v') or not errors:
            try:
                os.remove(f)
            except OSError:
                pass
    return sorted(bad), errors


def coq_eval(tag, preamble, expr, timeout=300):
    """Evaluate one expression with vm_compute and return Coq's printed text (for replay files)."""
    d = os.path.join(COQ, 'cases')
    os.makedirs(d, exist_ok=True)
    fn = os.path.join(d, '%s_eval.v' % tag)
    with open(fn, 'w') as f:
        f.write(preamble + '\nEval vm_compute in (%s).\n' % expr)
    try:
        p = subprocess.run(['coqc', '-R', '..', 'Fsic', '-w', '-notation-overridden,-inexact-float,-deprecated', os.path.basename(fn)], cwd=d, capture_output=True, text=True, timeout=timeout)
        return (p.stdout + p.stderr).strip()
    except subprocess.TimeoutExpired:
        return 'coqc timeout'
    finally:
        for f in glob.glob(os.path.join(d, '%s_eval*' % tag)) + glob.glob(os.path.join(d, '.%s_eval*' % tag)):
            try:
                os.remove(f)
            except OSError:
                pass


# --------------------------------------------------------------------------- implementation worker pool
def run_impl(prop, cases, per_case_timeout=20, workers=NPROC):
    """Run props/<prop>.impl(case) for every case in worker subprocesses (PYTHONPATH=/repo).  A case that
    exceeds the deadline gets {'timeout': True} and its worker is killed and replaced."""
    results = [None] * len(cases)
    q = queue.Queue()
    for i in range(len(cases)):
        q.put(i)
    workers = max(1, min(workers, len(cases)))

    def spawn():
        return subprocess.Popen([PY, os.path.join(HERE, 'worker.py'), prop], env=IMPL_ENV, stdin=subprocess.PIPE,
                                stdout=subprocess.PIPE, stderr=subprocess.DEVNULL, text=True, bufsize=1)

    def loop():
        proc = spawn()
        try:
            while True:
                try:
                    i = q.get_nowait()
                except queue.Empty:
                    break
                try:
                    proc.stdin.write(json.dumps(cases[i]) + '\n')
                    proc.stdin.flush()
                    r, _, _ = select.select([proc.stdout], [], [], per_case_timeout)
                    line = proc.stdout.readline() if r else ''
                except (BrokenPipeError, OSError):
                    line = ''
                    r = True
                if not r:
                    results[i] = {'timeout': True}
                    proc.kill()
                    proc.wait()
                    proc = spawn()
                elif not line:
                    results[i] = {'crash': True}
                    proc.kill()
                    proc.wait()
                    proc = spawn()
                else:
                    try:
                        results[i] = json.loads(line)
                    except ValueError:
                        results[i] = {'crash': True, 'raw': line[:200]}
        finally:
            try:
                proc.stdin.close()
            except OSError:
                pass
            try:
                proc.wait(timeout=5)
            except subprocess.TimeoutExpired:
                proc.kill()

    ths = [threading.Thread(target=loop) for _ in range(workers)]
    for th in ths:
        th.start()
    for th in ths:
        th.join()
    return results


def changed_sources(sources=None):
    """Source files / functions of fsic whose text differs from the fingerprints recorded when the models were last validated
    (harness/fingerprints.json).  `sources`: fsic-relative file names a property depends on (None = every file)."""
    try:
        cur = json.load(open(os.path.join(COQ, 'Gen', 'fingerprints.current.json')))
        ref = json.load(open(os.path.join(HERE, 'fingerprints.json')))
    except (OSError, ValueError):
        return []
    keys = [k for k in cur if k.startswith('file:')]
    if sources is not None:
        keys = [k for k in keys if any(k == 'file:fsic/' + s or k == 'file:' + s for s in sources)]
    return sorted(k for k in keys if ref.get(k) != cur[k])


# --------------------------------------------------------------------------- known findings, evidence, replay
def load_known():
    p = os.path.join(ROOT, 'known_findings.json')
    k = json.load(open(p)) if os.path.exists(p) else {'findings': [], 'fixed': []}
    # staging area used while a property's check is being developed (merged into the main file when integrated)
    for f in sorted(glob.glob(os.path.join(ROOT, 'known_findings.d', '*.json'))):
        extra = json.load(open(f))
        k['findings'] += extra.get('findings', [])
        k['fixed'] += extra.get('fixed', [])
    return k


def out_root():
    """Where evidence / replays go: /verif for runs against /repo, a scratch dir for runs against a copy."""
    return ROOT if COQ == SHARED_COQ else os.path.dirname(COQ)


def write_replay(prop, payload):
    d = os.path.join(out_root(), 'replays', prop)
    os.makedirs(d, exist_ok=True)
    path = os.path.join(d, '%s.json' % jhash(payload))
    with open(path, 'w') as f:
        json.dump(payload, f, indent=1, sort_keys=True, default=str)
    return path


def write_evidence(prop, ev):
    d = os.path.join(out_root(), 'evidence')
    os.makedirs(d, exist_ok=True)
    with open(os.path.join(d, '%s.json' % prop), 'w') as f:
        json.dump(ev, f, indent=1, sort_keys=True, default=str)
