#!/venv/bin/python
"""Single entry point of every check:  check.py <Cnn> [--tier quick|thorough] [--replay file]

exit 0  the property held on everything explored (KNOWN-FINDING lines possible)
exit 1  + line `VIOLATION property=<id> replay=<path>[ no-failing-input-found]`
exit 2  the check itself is broken (harness error) — never used to signal a property verdict
"""
import argparse
import importlib
import json
import os
import random
import sys
import time

sys.path.insert(0, os.path.dirname(os.path.abspath(__file__)))
import lib  # noqa: E402


def classify(prop, mod, cases, obs, known_sigs):
    """-> (violations [(i, failure)], known_hits {sig: (i, failure)})"""
    viol, hits = [], {}
    for i, (c, o) in enumerate(zip(cases, obs)):
        if o is None:
            continue
        if o.get('timeout') and not getattr(mod, 'HANDLES_TIMEOUT', False):
            fails = [{'sig': '%s|timeout' % prop, 'what': 'implementation did not return within the watchdog limit'}]
        else:
            fails = mod.oracle(c, o) or []
        for f in fails:
            if f['sig'] in known_sigs:
                hits.setdefault(f['sig'], (i, f))
            else:
                viol.append((i, f))
    return viol, hits


def shrink(prop, mod, case, failure, known_sigs, budget=60):
    """Greedy delta-debugging with the module's candidate generator; keeps the same failure signature."""
    gen = getattr(mod, 'shrink_candidates', None)
    if gen is None:
        return case
    cur = case
    t0 = time.time()
    progress = True
    while progress and time.time() - t0 < budget:
        progress = False
        cands = list(gen(cur))[:64]
        if not cands:
            break
        obs = lib.run_impl(prop, cands, per_case_timeout=getattr(mod, 'CASE_TIMEOUT', 20))
        for c, o in zip(cands, obs):
            if o is None or o.get('harness_error') or o.get('crash'):
                continue
            fs = mod.oracle(c, o) or []
            if any(f['sig'] == failure['sig'] for f in fs):
                cur = c
                progress = True
                break
    return cur


def main():
    ap = argparse.ArgumentParser()
    ap.add_argument('prop')
    ap.add_argument('--tier', default=os.environ.get('VERIF_TIER', 'quick'), choices=['quick', 'thorough'])
    ap.add_argument('--replay')
    ap.add_argument('--no-build', action='store_true')
    a = ap.parse_args()
    prop = a.prop
    seed = int(os.environ.get('VERIF_SEED', '0') or 0)
    t0 = time.time()
    mod = importlib.import_module('props.' + prop)
    known = lib.load_known()
    known_sigs = {f['signature']: f for f in known.get('findings', []) if f['property'] == prop}

    # ---------------- 1. build + audit (proof obligations against the regenerated constants)
    lib.prepare()
    closure_files = lib.closure(mod.PROPS_FILE)
    broken = []          # names of theorems / files / correspondences that no longer check
    # only what this property needs is (re)built here: its Props file, its model files and everything they Require
    need = set(closure_files)
    for f in getattr(mod, 'MODEL_FILES', []):
        need.update(lib.closure(f))
    targets = sorted(os.path.splitext(f)[0] + '.vo' for f in need if os.path.exists(os.path.join(lib.COQ, f)))
    build = lib.build_coq(targets=targets) if not a.no_build else None
    if build is not None:
        if build.gen_rc != 0:
            broken.append('gen_constants (translator of constants): ' + build.log.strip()[-300:])
        bad_files = [f for f in build.failed_files if f in closure_files]
        for f in bad_files:
            broken.append('proof obligation in %s no longer compiles' % f)
    aud = lib.audit(mod.PROPS_FILE)
    if not aud['ok'] and not broken:
        for p in aud['problems']:
            broken.append('audit: ' + p)
    chk = None
    if a.tier == 'thorough' and not a.replay and not broken and not os.environ.get('VERIF_NO_COQCHK'):
        chk = lib.coqchk(mod.PROPS_FILE)
        for pr in chk['problems']:
            broken.append(pr)
    model_ok = all(os.path.exists(os.path.join(lib.COQ, os.path.splitext(f)[0] + '.vo')) for f in getattr(mod, 'MODEL_FILES', []))

    # ---------------- replay mode
    if a.replay:
        rp = json.load(open(a.replay))
        case = rp['case']
        o = lib.run_impl(prop, [case], per_case_timeout=getattr(mod, 'CASE_TIMEOUT', 20))[0]
        fails = mod.oracle(case, o) or []
        kbad = mod.correspond([case], [o], lib.run_tag('replay_' + prop), a.tier) if model_ok else ([], [])
        print(json.dumps({'impl_observation': o, 'oracle_failures': fails, 'correspondence_mismatch': kbad[0], 'coq_errors': kbad[1]}, indent=1, default=str))
        bad = [f for f in fails if f['sig'] not in known_sigs]
        if bad or kbad[0]:
            print('VIOLATION property=%s replay=%s' % (prop, a.replay))
            return 1
        return 0

    # ---------------- 2. cases, implementation, correspondence K, oracle O
    rng = random.Random(seed)
    cases = mod.gen(rng, a.tier)
    # Fingerprint escalation (DESIGN.md 1.2): a changed source text is NOT a verdict, it only makes the quick tier explore
    # more (three further generator seeds), so that edited code always meets a deeper search.
    escalated = lib.changed_sources(getattr(mod, 'SOURCES', None))
    if escalated and a.tier == 'quick' and not os.environ.get('VERIF_NO_ESCALATE'):
        seen = {lib.jhash(c) for c in cases}
        for extra in (1, 2, 3):
            for c in mod.gen(random.Random(seed * 7919 + extra), a.tier):
                h = lib.jhash(c)
                if h not in seen:
                    seen.add(h)
                    cases.append(c)
    obs = lib.run_impl(prop, cases, per_case_timeout=getattr(mod, 'CASE_TIMEOUT', 20))
    # A case that hit the wall-clock watchdog is re-run on its own with a much longer limit before anything is concluded
    # from it: on a loaded machine (or for the first case of a worker, which pays for the imports) the limit can be exceeded
    # by code that does return.  Only a timeout that persists is an observation.
    slow = [i for i, o in enumerate(obs) if o is not None and o.get('timeout')]
    if slow:
        again = lib.run_impl(prop, [cases[i] for i in slow], per_case_timeout=10 * getattr(mod, 'CASE_TIMEOUT', 20), workers=min(4, lib.NPROC))
        for i, o in zip(slow, again):
            obs[i] = o
    herr = [(i, o) for i, o in enumerate(obs) if o is None or o.get('harness_error') or o.get('crash')]
    if herr and not lib.changed_sources(None):
        print('HARNESS-ERROR %s: %d cases, first: case=%s obs=%s' % (prop, len(herr), json.dumps(cases[herr[0][0]])[:300], herr[0][1]))
        return 2
    if herr:
        # The source text differs from the validated one and the observation code met behaviour it has no words for
        # (an exception escaping where the unchanged tree raises none, a crash of the interpreter): the tie between model
        # and code is broken on these cases.  They are reported as a broken correspondence (with the first such case as the
        # replay) unless the oracle finds a failing input among the remaining cases; they are left out of K and O below.
        broken.append('observation of the implementation failed on %d generated cases (first: %s)' % (len(herr), str(herr[0][1])[:300]))
        herr_case = cases[herr[0][0]]
        keep = [i for i in range(len(cases)) if i not in {j for j, _ in herr}]
        cases = [cases[i] for i in keep]
        obs = [obs[i] for i in keep]
    k_bad, k_err = ([], [])
    if model_ok:
        k_bad, k_err = mod.correspond(cases, obs, lib.run_tag(prop), a.tier)
        if k_err:
            print('HARNESS-ERROR %s: model run failed: %s' % (prop, k_err[0][:800]))
            return 2
    else:
        broken.append('model files do not compile: correspondence not run')
    # inside the guard class of a kept finding the model mirrors a defect: K is silent there
    k_bad = [i for i in k_bad if not mod.guard(cases[i], obs[i])]
    viol, hits = classify(prop, mod, cases, obs, known_sigs)

    # ---------------- 3. verdict
    lines = []
    rc = 0
    for sig, (i, f) in sorted(hits.items()):
        lines.append('KNOWN-FINDING: property=%s %s [%s]' % (prop, known_sigs[sig].get('what', f['what']), sig))
    replay_paths = []
    if viol:
        # one replay per distinct signature, smallest case first, shrunk
        by_sig = {}
        for i, f in viol:
            if f['sig'] not in by_sig or len(json.dumps(cases[i])) < len(json.dumps(cases[by_sig[f['sig']][0]])):
                by_sig[f['sig']] = (i, f)
        for sig, (i, f) in sorted(by_sig.items()):
            small = shrink(prop, mod, cases[i], f, known_sigs)
            o2 = lib.run_impl(prop, [small], per_case_timeout=getattr(mod, 'CASE_TIMEOUT', 20))[0]
            path = lib.write_replay(prop, {'property': prop, 'kind': 'counterexample', 'seed': seed, 'signature': sig, 'what': f['what'],
                                           'case': small, 'impl_observation': o2, 'oracle_verdict': mod.oracle(small, o2),
                                           'correspondence_disagrees': i in k_bad, 'broken': broken})
            replay_paths.append(path)
            lines.append('VIOLATION property=%s replay=%s' % (prop, path))
        rc = 1
    elif k_bad or broken:
        i = k_bad[0] if k_bad else None
        payload = {'property': prop, 'kind': 'broken-correspondence' if (k_bad or herr) else 'broken-proof', 'seed': seed,
                   'unobservable_case': herr_case if herr else None,
                   'correspondence': getattr(mod, 'K_NAME', 'K_' + prop), 'broken': broken,
                   'n_disagreements': len(k_bad),
                   'case': cases[i] if i is not None else None, 'impl_observation': obs[i] if i is not None else None,
                   'model_prediction': mod.explain(cases[i], obs[i]) if (i is not None and hasattr(mod, 'explain')) else None,
                   'oracle_verdict': 'the direct oracle found no failing input among %d cases' % len(cases)}
        path = lib.write_replay(prop, payload)
        replay_paths.append(path)
        lines.append('VIOLATION property=%s replay=%s no-failing-input-found' % (prop, path))
        rc = 1

    # ---------------- 4. evidence
    nontriv = set()
    buckets = {}
    for c, o in zip(cases, obs):
        b = mod.bucket(c, o)
        buckets[b] = buckets.get(b, 0) + 1
        if mod.nontrivial(c, o):
            nontriv.add(lib.jhash(c))
    samples = [{'case': cases[i], 'impl_observation': obs[i]} for i in sorted(rng.sample(range(len(cases)), min(3, len(cases))))]
    ev = {
        'property_id': prop, 'tier': a.tier, 'seed': seed, 'level': 'proof',
        'wall_s': round(time.time() - t0, 2), 'violations': len(replay_paths),
        'coverage': {
            'obligations': aud['obligations'], 'discharged': aud['discharged'] if not broken else max(0, aud['discharged'] - len(broken)),
            'property_theorems': aud['theorems'],
            'checker_cmd': (build.cmd if build else 'harness/build.sh') + ' ; coqc Props/%s.v (Print Assumptions)' % prop,
            'trusted_base': ['Coq 8.16.1 kernel + vm_compute (no native_compute)',
                             'Print Assumptions per property theorem, in file order: ' + ' | '.join(aud['assumptions']),
                             ('coqchk -o re-checked the compiled closure in this run; axioms in its context summary (all in the Coq.* standard library): ' + ', '.join(chk['axioms'])) if chk else 'coqchk -o is run by the thorough tier',
                             'harness/gen_constants.py (constants translator)', 'correspondence harness harness/props/%s.py + harness/lib.py' % prop]
                            + list(getattr(mod, 'TRUSTED', [])),
            'closure_files': aud['files'],
            'evaluations': len(cases), 'distinct_nontrivial': len(nontriv),
            'rule': mod.RULE, 'samples': samples, 'input_distribution': buckets,
            'traces_validated_against_impl': len(cases) if model_ok else 0,
            'correspondence_disagreements': len(k_bad),
            'known_findings_hit': sorted(hits), 'broken': broken, 'escalated_for_changed_sources': escalated,
            'exhaustive': bool(getattr(mod, 'EXHAUSTIVE', {}).get(a.tier, False)),
        },
        'assumptions': list(getattr(mod, 'ASSUMPTIONS', [])),
    }
    lib.write_evidence(prop, ev)
    for ln in lines:
        print(ln)
    print('%s %s: %d cases, %d nontrivial, K disagreements=%d, known=%d, violations=%d, obligations=%d/%d, %.1fs'
          % (prop, a.tier, len(cases), len(nontriv), len(k_bad), len(hits), len(replay_paths), ev['coverage']['discharged'], aud['obligations'], time.time() - t0))
    return rc


if __name__ == '__main__':
    sys.exit(main())
