(* driver for the extracted heap model (property C11): one case per input line, written in the Coq term syntax that
   harness/props/C11.py emits (constructor applications, [a; b] lists, (a, b) tuples, integers, n%nat, true/false/None/Some);
   the line is read into a generic tree and converted to the extracted types; answer per line: 1 / 0 = Heap.check_kcase,
   under either memo policy of copy(), or (argument "dump") a JSON object with the model's final root views and sharing *)
open Model

let rec z_of_pos n = if n = 1 then XH else if n land 1 = 0 then XO (z_of_pos (n lsr 1)) else XI (z_of_pos (n lsr 1))
let z_of_int n = if n = 0 then Z0 else if n > 0 then Zpos (z_of_pos n) else Zneg (z_of_pos (- n))
let rec int_of_pos = function XH -> 1 | XO p -> 2 * int_of_pos p | XI p -> 2 * int_of_pos p + 1
let int_of_z = function Z0 -> 0 | Zpos p -> int_of_pos p | Zneg p -> - (int_of_pos p)
let rec nat_of_int n = if n <= 0 then O else S (nat_of_int (n - 1))
let rec int_of_nat = function O -> 0 | S n -> 1 + int_of_nat n

(* ---- generic terms ---- *)
type t = Num of int | Id of string | App of t list | Tup of t list | Lst of t list

exception Bad of string

let tokenize (s : string) : string array =
  let toks = ref [] in
  let n = String.length s in
  let i = ref 0 in
  let is_id c = (c >= 'a' && c <= 'z') || (c >= 'A' && c <= 'Z') || (c >= '0' && c <= '9') || c = '_' in
  while !i < n do
    let c = s.[!i] in
    if c = ' ' || c = '\n' || c = '\t' || c = '\r' then incr i
    else if c = '(' || c = ')' || c = '[' || c = ']' || c = ';' || c = ',' then (toks := String.make 1 c :: !toks; incr i)
    else if c = '%' then begin (* scope suffix: skip *)
      incr i; while !i < n && is_id s.[!i] do incr i done end
    else if c = '-' || is_id c then begin
      let j = ref (!i + 1) in
      while !j < n && is_id s.[!j] do incr j done;
      toks := String.sub s !i (!j - !i) :: !toks; i := !j end
    else raise (Bad (Printf.sprintf "character %c" c))
  done;
  Array.of_list (List.rev !toks)

let parse (s : string) : t =
  let tk = tokenize s in
  let pos = ref 0 in
  let peek () = if !pos < Array.length tk then tk.(!pos) else "" in
  let eat x = if peek () = x then incr pos else raise (Bad ("expected " ^ x ^ " got " ^ peek ())) in
  let is_num w = w <> "" && (let c = w.[0] in (c >= '0' && c <= '9') || (c = '-' && String.length w > 1)) in
  let rec term () =
    let rec atoms acc =
      let w = peek () in
      if w = "" || w = ")" || w = "]" || w = ";" || w = "," then List.rev acc else atoms (atom () :: acc) in
    match atoms [] with
    | [x] -> x
    | [] -> raise (Bad "empty term")
    | l -> App l
  and atom () =
    let w = peek () in
    if w = "(" then begin
      eat "(";
      let first = term () in
      if peek () = "," then begin
        let items = ref [first] in
        while peek () = "," do eat ","; items := term () :: !items done;
        eat ")"; Tup (List.rev !items) end
      else (eat ")"; first) end
    else if w = "[" then begin
      eat "[";
      let items = ref [] in
      while peek () <> "]" do
        items := term () :: !items;
        if peek () = ";" then eat ";"
      done;
      eat "]"; Lst (List.rev !items) end
    else if is_num w then (incr pos; Num (int_of_string w))
    else (incr pos; Id w) in
  let r = term () in
  if !pos <> Array.length tk then raise (Bad "trailing tokens");
  r

(* ---- typed readers ---- *)
let bad what (_ : t) = raise (Bad ("cannot read " ^ what))
let rz = function Num n -> z_of_int n | x -> bad "Z" x
let rnat = function Num n -> nat_of_int n | x -> bad "nat" x
let rlist f = function Lst l -> List.map f l | x -> bad "list" x
let rpair f g = function Tup [a; b] -> (f a, g b) | x -> bad "pair" x
let rbool = function Id "true" -> true | Id "false" -> false | x -> bad "bool" x
let rzl = rlist rz

let rkind = function
  | App [Id "KArr"; d] -> KArr (rz d) | Id "KList" -> KList | Id "KDict" -> KDict
  | App [Id "KObj"; d] -> KObj (rz d) | App [Id "KCont"; c] -> KCont (rnat c) | Id "KClass" -> KClass
  | x -> bad "kind" x
let rval = function App [Id "VS"; z] -> VS (rz z) | App [Id "VR"; l] -> VR (rnat l) | x -> bad "val" x
let robj = function App [Id "mkObj"; k; cs] -> { okind = rkind k; ocells = rlist (rpair rz rval) cs } | x -> bad "obj" x
let rsrc = function
  | App [Id "SScalar"; z] -> SScalar (rz z)
  | App [Id "SFresh"; k; cs] -> SFresh (rkind k, rlist (rpair rz rz) cs)
  | App [Id "SDeep"; p] -> SDeep (rzl p)
  | App [Id "SDeepClass"; z] -> SDeepClass (rz z)
  | App [Id "SClassScalar"; z] -> SClassScalar (rz z)
  | App [Id "SAlias"; p] -> SAlias (rzl p)
  | App [Id "SClassRef"; z] -> SClassRef (rz z)
  | App [Id "SArg"; l] -> SArg (rnat l)
  | App [Id "new_list"; zs] -> new_list (rzl zs)
  | App [Id "new_arr"; d; zs] -> new_arr (rz d) (rzl zs)
  | x -> bad "src" x
let ropt f = function Id "None" -> None | App [Id "Some"; x] -> Some (f x) | x -> bad "option" x
let riargs = function
  | App [Id "mkIargs"; sp; n; st; dt; adt; df; en; ini; lk] ->
    { ia_span = rsrc sp; ia_n = rnat n; ia_strict = rz st; ia_dtype = rz dt; ia_adt = rz adt; ia_default = rz df;
      ia_engine = rz en; ia_initial = rlist (rpair rz rzl) ini;
      ia_linker = ropt (function Tup [s; a; b; c] -> (((rsrc s, rz a), rz b), rz c) | x -> bad "linker args" x) lk }
  | x -> bad "iargs" x
let rtmode = function Id "TMNames" -> TMNames | Id "TMClass" -> TMClass | App [Id "TMUser"; zs] -> TMUser (rzl zs) | x -> bad "tmode" x
let rop = function
  | App [Id "OSetItem"; a; b; c] -> OSetItem (rz a, rz b, rz c)
  | App [Id "OSetAttrSeq"; a; l] -> OSetAttrSeq (rz a, rzl l)
  | App [Id "OSetAttrScalar"; a; b] -> OSetAttrScalar (rz a, rz b)
  | App [Id "OAddVariable"; a; b; l] -> OAddVariable (rz a, rz b, rzl l)
  | App [Id "OSetAttr"; a; b] -> OSetAttr (rz a, rz b)
  | App [Id "OSetAttrList"; a; l] -> OSetAttrList (rz a, rzl l)
  | App [Id "OSetStrict"; a] -> OSetStrict (rz a)
  | App [Id "OListAppend"; a; b] -> OListAppend (rz a, rz b)
  | App [Id "OListReplace"; a; l] -> OListReplace (rz a, rzl l)
  | App [Id "OListSetItem"; a; b; c] -> OListSetItem (rz a, rz b, rz c)
  | App [Id "ODictSet"; a; b; c] -> ODictSet (rz a, rz b, rz c)
  | App [Id "OSolveWrites"; a; l] -> OSolveWrites (rz a, rlist (rpair rz rz) l)
  | App [Id "OSolveStatus"; a; b; c] -> OSolveStatus (rz a, rz b, rz c)
  | App [Id "OTraceT"; a; b; m; r] -> OTraceT (rz a, rz b, rtmode m, rbool r)
  | App [Id "OSubSetItem"; a; b; c; d] -> OSubSetItem (rz a, rz b, rz c, rz d)
  | App [Id "OSubListAppend"; a; b; c] -> OSubListAppend (rz a, rz b, rz c)
  | App [Id "OSubStatus"; a; b; c; d] -> OSubStatus (rz a, rz b, rz c, rz d)
  | App [Id "OPathAppend"; p; v] -> OPathAppend (rzl p, rz v)
  | App [Id "OAliasAttr"; a; p] -> OAliasAttr (rz a, rzl p)
  | App [Id "OReplaceSeries"; a; l] -> OReplaceSeries (rz a, rzl l)
  | App [Id "OSetAttrNested"; a; l] -> OSetAttrNested (rz a, rlist rzl l)
  | App [Id "OSetAttrSet"; a; l] -> OSetAttrSet (rz a, rzl l)
  | App [Id "OSetAttrDict"; a; l] -> OSetAttrDict (rz a, rlist (rpair rz rz) l)
  | App [Id "OSetAttrDictOfLists"; a; l] -> OSetAttrDictOfLists (rz a, rlist (rpair rz rzl) l)
  | x -> bad "op" x
let rops = function
  | Lst l -> List.map rop l
  | App [Id "solve_ops"; t; w; p; st; it; tr] ->
    solve_ops (rz t) (rlist (rpair rz rz) w) (rnat p) (rz st) (rz it)
      (ropt (function Tup [m; a; b; c] -> (((rtmode m, rz a), rz b), rz c) | x -> bad "trace args" x) tr)
  | App [Id "linker_solve_ops"; t; subs; p; st; it] ->
    linker_solve_ops (rz t) (rlist (rpair rz (rlist (rpair rz rz))) subs) (rnat p) (rz st) (rz it)
  | x -> bad "ops" x
let revent = function
  | App [Id "ECopy"; i] -> ECopy (rnat i)
  | App [Id "ELinkerCopy"; i] -> ELinkerCopy (rnat i)
  | App [Id "EInit"; c; a] -> EInit (rnat c, riargs a)
  | App [Id "ELinkerInit"; c; subs; nme] -> ELinkerInit (rnat c, rlist (rpair rz rnat) subs, rz nme)
  | App [Id "EReindex"; i; sp; n; ps; fs] -> EReindex (rnat i, rsrc sp, rnat n, rlist (rpair rz rz) ps, rlist (rpair rz rz) fs)
  | x -> bad "event" x
let rroute = function Id "RCopy" -> RCopy | Id "RCopyCopy" -> RCopyCopy | Id "RDeepCopy" -> RDeepCopy | x -> bad "route" x
let rhevent = function
  | App [Id "HCopyRoute"; rt; i] -> HCopyRoute (rroute rt, rnat i)
  | App [Id "HOps"; i; os] -> HOps (rnat i, rops os)
  | App [Id "HEv"; e] -> HEv (revent e)
  | App [Id "HCopySeries"; i; j; a; b] -> HCopySeries (rnat i, rnat j, rz a, rz b)
  | App [Id "HAddVarFrom"; i; j; a; b] -> HAddVarFrom (rnat i, rnat j, rz a, rz b)
  | App [Id "HInitFrom"; c; ia; j; a; b] -> HInitFrom (rnat c, riargs ia, rnat j, rz a, rz b)
  | x -> bad "hevent" x
let rec rctree = function
  | Id "CCut" -> CCut
  | App [Id "CS"; z] -> CS (rz z)
  | App [Id "CO"; kd; cells] -> CO (rpair rz rz kd, rlist (rpair rz rctree) cells)
  | x -> bad "ctree" x
let rconsts = function
  | App [Id "mkConsts"; a; b; c; d; e; f; g; h; i; j; k; l; sm] ->
    { k_status0 = rz a; k_iter0 = rz b; k_dt_status = rz c; k_dt_iter = rz d; k_dt_obj = rz e; k_dt_float = rz f; k_false = rz g;
      k_engine = rz h; k_default = rz i; k_linker_name = rz j; k_dt_trace_values = rz k; k_pyfloat = rz l; k_single_memo = rbool sm }
  | x -> bad "consts" x
let rshare = function
  | Tup [i; j; l] -> ((rnat i, rnat j), rlist (rpair rzl rzl) l)
  | x -> bad "sharing entry" x
let rkcase = function
  | App [Id "mkKCase"; k; h; r; es; d; vs; sh] ->
    { kc_consts = rconsts k; kc_heap = rlist robj h; kc_roots = rlist rnat r; kc_events = rlist rhevent es; kc_depth = rnat d;
      kc_views = rlist rctree vs; kc_sharing = rlist rshare sh }
  | x -> bad "kcase" x

(* ---- JSON dump of the model's answer ---- *)
let rec jtree b = function
  | CCut -> Buffer.add_string b "\"cut\""
  | CS z -> Buffer.add_string b (string_of_int (int_of_z z))
  | CO ((k1, k2), cells) ->
    Buffer.add_string b (Printf.sprintf "[[%d,%d],[" (int_of_z k1) (int_of_z k2));
    List.iteri (fun i (k, t) -> if i > 0 then Buffer.add_char b ','; Buffer.add_string b (Printf.sprintf "[%d," (int_of_z k)); jtree b t; Buffer.add_char b ']') cells;
    Buffer.add_string b "]]"
let jzl b l = Buffer.add_char b '['; List.iteri (fun i z -> if i > 0 then Buffer.add_char b ','; Buffer.add_string b (string_of_int (int_of_z z))) l; Buffer.add_char b ']'
(* the property allows copy() to use a fresh deepcopy memo per __dict__ entry (the code as it is) or one memo for all entries: the
   model is parameterised by that policy (consts field k_single_memo) and a case agrees when it agrees under one of the two *)
let with_policy (c : kcase) (b : bool) : kcase = { c with kc_consts = { c.kc_consts with k_single_memo = b } }
let agrees (c : kcase) : bool = check_kcase (with_policy c false) || check_kcase (with_policy c true)

let dump (c : kcase) : string =
  let c = if check_kcase (with_policy c false) then with_policy c false
          else if check_kcase (with_policy c true) then with_policy c true else with_policy c false in
  let s = kcase_final c in
  let b = Buffer.create 4096 in
  Buffer.add_string b (Printf.sprintf "{\"ok\":%b,\"views\":[" (check_kcase c));
  List.iteri (fun i t -> if i > 0 then Buffer.add_char b ','; jtree b t) (root_views s c.kc_depth);
  Buffer.add_string b "],\"sharing\":[";
  List.iteri (fun i ((a, bb), l) ->
      if i > 0 then Buffer.add_char b ',';
      Buffer.add_string b (Printf.sprintf "[%d,%d,[" (int_of_nat a) (int_of_nat bb));
      List.iteri (fun j (p, q) -> if j > 0 then Buffer.add_char b ','; Buffer.add_char b '['; jzl b p; Buffer.add_char b ','; jzl b q; Buffer.add_char b ']') l;
      Buffer.add_string b "]]") (sharing s);
  Buffer.add_string b "]}";
  Buffer.contents b

let () =
  let dumping = Array.length Sys.argv > 1 && Sys.argv.(1) = "dump" in
  try
    while true do
      let line = input_line stdin in
      (try
         let c = rkcase (parse line) in
         print_endline (if dumping then dump c else if agrees c then "1" else "0")
       with
       | Bad m -> print_endline ("E " ^ m)
       | Stack_overflow -> print_endline "E stack overflow"
       | Not_found -> print_endline "E Not_found"
       | Failure m -> print_endline ("E " ^ m));
      flush stdout
    done
  with End_of_file -> ()
