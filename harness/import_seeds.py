#!/venv/bin/python
"""Re-verify seeded changes delivered by the independent seeding agents under /tmp/seed/out/<ID>_<x>/ and keep the good ones
as /verif/seeded/<ID>_<x>/ (patch.diff, demo.py, meta.json + verification record).

A change is kept only when, in a fresh clone of /repo: demo.py exits 0 on the clean tree; patch.diff applies; it touches only
files under fsic/; demo.py exits non-zero with the patch; the pinned test-suite still passes (all baseline tests).
"""
import json
import os
import shutil
import subprocess
import sys

SRC = "/tmp/seed/out"
DST = '/verif/seeded'
PY = '/venv/bin/python'


def sh(cmd, cwd=None, env=None, timeout=1200):
    try:
        p = subprocess.run(cmd, cwd=cwd, env=env, capture_output=True, text=True, timeout=timeout)
        return p.returncode, p.stdout + p.stderr
    except subprocess.TimeoutExpired:
        return 124, 'timeout'


def main():
    ids = sys.argv[1:] or sorted(os.listdir(SRC))
    for sid in ids:
        s = os.path.join(SRC, sid)
        d = os.path.join(DST, sid)
        if not all(os.path.isfile(os.path.join(s, f)) for f in ('patch.diff', 'demo.py', 'meta.json')):
            print('%-8s incomplete' % sid)
            continue
        if os.path.isfile(os.path.join(d, 'meta.json')):
            print('%-8s already kept' % sid)
            continue
        scratch = '/tmp/seedimport/%s' % sid
        shutil.rmtree(scratch, ignore_errors=True)
        os.makedirs(scratch)
        repo = os.path.join(scratch, 'repo')
        sh(['git', 'clone', '-q', '/repo', repo])
        env = dict(os.environ, PYTHONPATH=repo, PYTHONHASHSEED='0')
        clean_rc, _ = sh(['timeout', '600', PY, os.path.join(s, 'demo.py')], cwd=repo, env=env)
        ap_rc, ap_out = sh(['git', 'apply', os.path.join(s, 'patch.diff')], cwd=repo)
        _, files = sh(['git', 'diff', '--name-only'], cwd=repo)
        touched = [f for f in files.split() if f]
        only_fsic = bool(touched) and all(f.startswith('fsic/') for f in touched)
        pat_rc, pat_out = sh(['timeout', '600', PY, os.path.join(s, 'demo.py')], cwd=repo, env=env)
        _, suite = sh([os.path.join(os.path.dirname(os.path.abspath(__file__)), 'seedtools', 'runtests.sh'), repo])
        suite_ok = 'SUITE-OK' in suite
        ok = clean_rc == 0 and ap_rc == 0 and only_fsic and pat_rc not in (0, 124) and suite_ok
        print('%-8s clean=%s apply=%s files=%s patched=%s suite=%s -> %s' % (sid, clean_rc, ap_rc, touched, pat_rc, 'OK' if suite_ok else 'BROKEN', 'KEEP' if ok else 'DROP'))
        if ok:
            os.makedirs(d, exist_ok=True)
            for f in ('patch.diff', 'demo.py'):
                shutil.copy(os.path.join(s, f), os.path.join(d, f))
            meta = json.load(open(os.path.join(s, 'meta.json')))
            meta['origin'] = 'independent seeding agent (saw only the property text and a scratch worktree of /repo)'
            meta['verified_by_coordinator'] = {
                'fresh_clone_of': subprocess.run(['git', '-C', '/repo', 'rev-parse', '--short', 'HEAD'], capture_output=True, text=True).stdout.strip(),
                'demo_rc_clean': clean_rc, 'demo_rc_patched': pat_rc, 'files_touched': touched, 'suite': 'all baseline tests pass with the patch',
                'demo_output_patched_tail': pat_out[-300:]}
            json.dump(meta, open(os.path.join(d, 'meta.json'), 'w'), indent=1)
        shutil.rmtree(scratch, ignore_errors=True)
    return 0


if __name__ == '__main__':
    sys.exit(main())
