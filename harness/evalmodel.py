"""evalmodel.py — the tie between the REAL code that fsic generates for a parser-built model and the Coq
evaluation model coq/Eval/Eval.v (shared by C04, later C01 / C20).

* translate_code(Model.CODE, names): the body of the generated `_evaluate` is parsed with Python's `ast` module and
  translated, fail-closed, into the Coq AST (JSON form here, `c_prog` renders it as a Coq term).  Anything outside
  the fragment the model covers raises Unsupported (the case is then skipped and counted, never guessed).
* Rec / install_recorders: a recording numpy.ndarray subclass put into model.__dict__['_X'] — every index that the
  real code reads or writes is logged in order.
* make_probe(Model): subclass that snapshots the value matrix around every real `_evaluate` call and logs hook calls.
* mirror_table: a small reference evaluation of ONE pass that only serves to collect (function, arguments, result)
  triples for np.exp / np.log / ** — the oracle table of coq/Eval/EvalF.v (these have no kernel primitive).
"""
import ast
import math

import lib

MAXINT = 2 ** 53
FUN1 = {'exp': 0, 'log': 1}
POW_ID = 100
BINOPS = {ast.Add: 'add', ast.Sub: 'sub', ast.Mult: 'mul', ast.Div: 'div', ast.Pow: 'pow'}
CMPOPS = {ast.Lt: 'lt', ast.LtE: 'le', ast.Eq: 'eq', ast.NotEq: 'ne', ast.Gt: 'gt', ast.GtE: 'ge'}
C_BIN = {'add': 'OAdd', 'sub': 'OSub', 'mul': 'OMul', 'div': 'ODiv', 'pow': 'OPow'}
C_CMP = {'lt': 'CLt', 'le': 'CLe', 'eq': 'CEq', 'ne': 'CNe', 'gt': 'CGt', 'ge': 'CGe'}
CAUSE_TAG = {'RuntimeWarning': 1, 'IndexError': 2}


class Unsupported(Exception):
    pass


# --------------------------------------------------------------------------- generated code -> AST (JSON)
class _Tr:
    """Static kinds: 'np' = certainly a numpy float64 scalar, 'py' = certainly a Python int/float built from
    literals, 'mix' = either (max/min/conditional of both).  `bound` = magnitude bound of the Python-number
    alternatives (None for 'np'): integers up to 2**53 convert to float64 exactly, so float arithmetic on them is
    the integer arithmetic Python performs, and Python-float arithmetic on them cannot overflow.  Operations whose
    CPython semantics differ from NumPy's (ZeroDivisionError / OverflowError / complex results instead of a warning)
    are accepted only when NumPy performs them, i.e. when one operand is certainly 'np'."""

    def __init__(self, names):
        self.idx = {n: i for i, n in enumerate(names)}
        # ids of JSON nodes whose Python value may be a Python INT (integer literals and max / min / abs / conditionals /
        # + - over them).  CPython integers have no negative zero: `-0`, `0 * -3` are 0, whereas the float model would
        # produce -0.0.  Pure integer-literal subtrees are folded exactly beforehand (fold_ints); what remains —
        # negation / product of a NON-constant maybe-int (e.g. `-max(0, X)`) — is refused (fail-closed).
        self.mi = set()

    def _mi(self, j):
        return id(j) in self.mi

    def _mark(self, j, flag):
        if flag:
            self.mi.add(id(j))
        return j

    def index(self, node):
        if isinstance(node, ast.Name) and node.id == 't':
            return 0
        if (isinstance(node, ast.BinOp) and isinstance(node.op, (ast.Add, ast.Sub)) and isinstance(node.left, ast.Name)
                and node.left.id == 't' and isinstance(node.right, ast.Constant) and type(node.right.value) is int):
            return node.right.value if isinstance(node.op, ast.Add) else -node.right.value
        raise Unsupported('index ' + ast.dump(node))

    def ref(self, node):
        """self._NAME[t+k] -> (row, k)"""
        if not (isinstance(node, ast.Subscript) and isinstance(node.value, ast.Attribute) and isinstance(node.value.value, ast.Name)
                and node.value.value.id == 'self' and node.value.attr.startswith('_')):
            raise Unsupported('reference ' + ast.dump(node)[:80])
        name = node.value.attr[1:]
        if name not in self.idx:
            raise Unsupported('unknown variable ' + name)
        return self.idx[name], self.index(node.slice)

    def join(self, ks):
        ks = set(ks)
        return ks.pop() if len(ks) == 1 else 'mix'

    def expr(self, node):
        """-> (json, kind, bound)"""
        if isinstance(node, ast.Constant):
            v = node.value
            if type(v) is int:
                if abs(v) > MAXINT:
                    raise Unsupported('integer literal beyond 2**53')
                return self._mark(['num', lib.fhex(float(v))], True), 'py', abs(v)
            if type(v) is float and math.isfinite(v):
                return ['num', lib.fhex(v)], 'py', abs(v)
            raise Unsupported('literal %r' % (v,))
        if isinstance(node, ast.Subscript):
            x, k = self.ref(node)
            return ['read', x, k], 'np', None
        if isinstance(node, ast.UnaryOp) and isinstance(node.op, ast.USub):
            j, kd, b = self.expr(node.operand)
            if self._mi(j):
                raise Unsupported('negation of a non-constant Python int (no negative zero among ints)')
            return ['neg', j], kd, b
        if isinstance(node, ast.UnaryOp) and isinstance(node.op, ast.UAdd):
            raise Unsupported('unary plus')
        if isinstance(node, ast.BinOp) and type(node.op) in BINOPS:
            op = BINOPS[type(node.op)]
            ja, ka, ba = self.expr(node.left)
            jb, kb, bb = self.expr(node.right)
            for kd, b in ((ka, ba), (kb, bb)):
                if kd != 'np' and (b is None or b > MAXINT):
                    raise Unsupported('unbounded Python number')
            if ka == 'np' or kb == 'np':
                return ['bin', op, ja, jb], 'np', None
            # no operand is certainly a NumPy scalar: CPython may perform the operation itself
            if op in ('add', 'sub'):
                b = ba + bb
            elif op == 'mul':
                if self._mi(ja) and self._mi(jb):
                    raise Unsupported('product of non-constant Python ints (no negative zero among ints)')
                b = ba * bb
            elif op == 'div' and jb[0] == 'num' and lib.unhex(jb[1]) != 0 or (op == 'div' and jb[0] == 'neg' and jb[1][0] == 'num' and lib.unhex(jb[1][1]) != 0):
                d = abs(lib.unhex(jb[1] if jb[0] == 'num' else jb[1][1]))
                b = ba / d
            else:
                raise Unsupported('%s between Python numbers' % op)
            if b > MAXINT:
                raise Unsupported('Python-number arithmetic beyond 2**53')
            return self._mark(['bin', op, ja, jb], op in ('add', 'sub', 'mul') and self._mi(ja) and self._mi(jb)), self.join([ka, kb]), b
        if isinstance(node, ast.Call) and not node.keywords:
            f = node.func
            if isinstance(f, ast.Name) and f.id in ('max', 'min') and len(node.args) >= 2:
                parts = [self.expr(a) for a in node.args]
                j = parts[0][0]
                anyint = any(self._mi(p[0]) for p in parts)
                for p in parts[1:]:
                    j = self._mark([f.id, j, p[0]], anyint)
                bs = [p[2] for p in parts if p[1] != 'np']
                if any(b is None for b in bs):
                    raise Unsupported('unbounded Python number in max/min')
                kd = self.join([p[1] for p in parts])
                return j, kd, (max(bs) if bs else None)
            if isinstance(f, ast.Name) and f.id == 'abs' and len(node.args) == 1:
                j, kd, b = self.expr(node.args[0])
                return self._mark(['abs', j], self._mi(j)), kd, b
            if (isinstance(f, ast.Attribute) and isinstance(f.value, ast.Name) and f.value.id == 'np' and f.attr in FUN1
                    and len(node.args) == 1):
                j, kd, b = self.expr(node.args[0])
                if kd != 'np' and (b is None or b > MAXINT):
                    raise Unsupported('unbounded Python number')
                return ['call1', FUN1[f.attr], j], 'np', None
            raise Unsupported('call ' + ast.dump(f)[:60])
        if isinstance(node, ast.IfExp):
            ja, ka, ba = self.expr(node.body)
            jb, kb, bb = self.expr(node.orelse)
            bs = [b for kd, b in ((ka, ba), (kb, bb)) if kd != 'np']
            if any(b is None for b in bs):
                raise Unsupported('unbounded Python number in conditional')
            return self._mark(self.cond(node.test, ja, jb), self._mi(ja) or self._mi(jb)), self.join([ka, kb]), (max(bs) if bs else None)
        raise Unsupported('expression ' + type(node).__name__)

    def cond(self, test, ja, jb):
        """JSON of `ja if test else jb`; and / or / not become nested conditionals (same evaluation order and
        short-circuiting, same selected branch)."""
        if isinstance(test, ast.Compare) and len(test.ops) == 1 and type(test.ops[0]) in CMPOPS:
            jl, kl, bl = self.expr(test.left)
            jr, kr, br = self.expr(test.comparators[0])
            for kd, b in ((kl, bl), (kr, br)):
                if kd != 'np' and (b is None or b > MAXINT):
                    raise Unsupported('unbounded Python number in comparison')
            return ['if', CMPOPS[type(test.ops[0])], jl, jr, ja, jb]
        if isinstance(test, ast.BoolOp) and isinstance(test.op, ast.And):
            j = jb
            acc = ja
            for c in reversed(test.values):
                acc = self.cond(c, acc, jb)
            return acc
        if isinstance(test, ast.BoolOp) and isinstance(test.op, ast.Or):
            acc = jb
            for c in reversed(test.values):
                acc = self.cond(c, ja, acc)
            return acc
        if isinstance(test, ast.UnaryOp) and isinstance(test.op, ast.Not):
            return self.cond(test.operand, jb, ja)
        raise Unsupported('condition ' + type(test).__name__)

    def stmt(self, node):
        if isinstance(node, ast.Assign) and len(node.targets) == 1:
            y, k = self.ref(node.targets[0])
            j, kd, b = self.expr(node.value)
            if kd != 'np' and (b is None or b > MAXINT):
                raise Unsupported('unbounded Python number stored')
            return ['assign', y, k, j]
        raise Unsupported('statement ' + type(node).__name__)


class _FoldInts(ast.NodeTransformer):
    """exact constant folding of subtrees made of integer literals only (unary minus, + - *, abs, max, min): CPython
    computes them on ints (`-0` is 0, `0 * -3` is 0), so they are replaced by the int they denote before translation"""

    @staticmethod
    def _int(n):
        return isinstance(n, ast.Constant) and type(n.value) is int

    def visit_UnaryOp(self, node):
        self.generic_visit(node)
        if isinstance(node.op, ast.USub) and self._int(node.operand):
            return ast.copy_location(ast.Constant(-node.operand.value), node)
        return node

    def visit_BinOp(self, node):
        self.generic_visit(node)
        if self._int(node.left) and self._int(node.right) and isinstance(node.op, (ast.Add, ast.Sub, ast.Mult)):
            a, b = node.left.value, node.right.value
            v = a + b if isinstance(node.op, ast.Add) else (a - b if isinstance(node.op, ast.Sub) else a * b)
            if abs(v) <= MAXINT:
                return ast.copy_location(ast.Constant(v), node)
        return node

    def visit_Call(self, node):
        self.generic_visit(node)
        if isinstance(node.func, ast.Name) and not node.keywords and node.args and all(self._int(a) for a in node.args):
            vals = [a.value for a in node.args]
            if node.func.id == 'abs' and len(vals) == 1:
                return ast.copy_location(ast.Constant(abs(vals[0])), node)
            if node.func.id in ('max', 'min') and len(vals) >= 2:
                return ast.copy_location(ast.Constant(max(vals) if node.func.id == 'max' else min(vals)), node)
        return node


def evaluate_body(code):
    """the statements of `_evaluate` in the class text produced by build_model_definition"""
    tree = ast.parse(code)
    cls = [n for n in tree.body if isinstance(n, ast.ClassDef)]
    if len(cls) != 1:
        raise Unsupported('class definition not found')
    fns = [n for n in cls[0].body if isinstance(n, ast.FunctionDef) and n.name == '_evaluate']
    if len(fns) != 1:
        raise Unsupported('_evaluate not found')
    body = []
    for s in fns[0].body:
        if isinstance(s, ast.Expr) and isinstance(s.value, ast.Constant) and isinstance(s.value.value, str):
            continue
        if isinstance(s, ast.Pass):
            continue
        body.append(s)
    return body


def translate_code(code, names):
    tr = _Tr(names)
    return [tr.stmt(_FoldInts().visit(s)) for s in evaluate_body(code)]


def prog_terms(prog):
    """(lhs terms, read terms) of a translated program, syntactically"""
    lhs, reads = [], []

    def walk(j):
        if j[0] == 'read':
            reads.append((j[1], j[2]))
        elif j[0] == 'num':
            return
        else:
            for x in j[1:]:
                if isinstance(x, list):
                    walk(x)
    for s in prog:
        lhs.append((s[1], s[2]))
        walk(s[3])
    return lhs, reads


# --------------------------------------------------------------------------- Coq rendering
def c_expr(j):
    k = j[0]
    if k == 'num':
        return '(ENum %s)' % lib.cfloat(j[1])
    if k == 'read':
        return '(ERead %d%%nat %s)' % (j[1], lib.cZ(j[2]))
    if k == 'neg':
        return '(ENeg %s)' % c_expr(j[1])
    if k == 'abs':
        return '(EAbs %s)' % c_expr(j[1])
    if k == 'bin':
        return '(EBin %s %s %s)' % (C_BIN[j[1]], c_expr(j[2]), c_expr(j[3]))
    if k == 'max':
        return '(EMax %s %s)' % (c_expr(j[1]), c_expr(j[2]))
    if k == 'min':
        return '(EMin %s %s)' % (c_expr(j[1]), c_expr(j[2]))
    if k == 'if':
        return '(EIf %s %s %s %s %s)' % (C_CMP[j[1]], c_expr(j[2]), c_expr(j[3]), c_expr(j[4]), c_expr(j[5]))
    if k == 'call1':
        return '(ECall1 %d%%nat %s)' % (j[1], c_expr(j[2]))
    raise AssertionError(j)


def c_prog(prog):
    return lib.clist('(SAssign %d%%nat %s %s)' % (s[1], lib.cZ(s[2]), c_expr(s[3])) for s in prog)


def c_vals(vals):
    return lib.clist(lib.clist(lib.cfloat(x) for x in row) for row in vals)


def c_table(tab):
    return lib.clist('(%d%%nat, %s, %s, %s)' % (f, lib.cfloat(a), lib.cfloat(b), lib.cfloat(r)) for f, a, b, r in tab)


def c_access(a, nrows_len):
    """a = [kind, row, requested index]; the position served is what NumPy's index normalisation yields"""
    kind, x, i = a
    n = nrows_len
    srv = i if 0 <= i < n else (i + n if -n <= i < 0 else None)
    return '(Acc %s %d%%nat %s %s)' % (lib.cbool(kind == 'W'), x, lib.cZ(i), 'None' if srv is None else '(Some %d%%nat)' % srv)


PREAMBLE = '''From Coq Require Import PrimFloat ZArith List Bool.
Import ListNotations.
Require Import Fsic.Base.PyBase Fsic.Solver.Solver Fsic.Solver.SolverF Fsic.Eval.Eval Fsic.Eval.EvalF.
Open Scope float_scope. Open Scope Z_scope.
'''


# --------------------------------------------------------------------------- recording arrays
def make_rec():
    import numpy as np

    class Rec(np.ndarray):
        """ndarray that logs the index of every item read / written through it"""

        def __getitem__(self, idx):
            self._c04_log.append(['R', self._c04_name, int(idx) if isinstance(idx, (int, np.integer)) else repr(idx)])
            return np.asarray(self).__getitem__(idx)

        def __setitem__(self, idx, v):
            self._c04_log.append(['W', self._c04_name, int(idx) if isinstance(idx, (int, np.integer)) else repr(idx)])
            np.asarray(self).__setitem__(idx, v)
    return Rec


def install_recorders(model, names, log):
    Rec = make_rec()
    for nm in names:
        a = model.__dict__['_' + nm]
        r = a.view(Rec)
        r._c04_log = log
        r._c04_name = nm
        model.__dict__['_' + nm] = r


def snapshot(model, names):
    import numpy as np
    return [[lib.fhex(x) for x in np.asarray(model.__dict__['_' + n]).tolist()] for n in names]


def make_probe(Model, names):
    """Subclass of the real generated class: the real `_evaluate` / hooks run unchanged, bracketed by snapshots."""

    class Probe(Model):
        def solve_t_before(self, t, *a, **kw):
            self.__dict__['_c04']['events'].append(['before', int(t)])
            return super().solve_t_before(t, *a, **kw)

        def solve_t_after(self, t, *a, iteration=None, **kw):
            self.__dict__['_c04']['events'].append(['after', int(t), int(iteration)])
            return super().solve_t_after(t, *a, iteration=iteration, **kw)

        def _evaluate(self, t, *a, errors='raise', catch_first_error=True, iteration=None, **kw):
            st = self.__dict__['_c04']
            st['events'].append(['pass', int(t), int(iteration) if iteration is not None else 0])
            rec = {'t': int(t), 'k': int(iteration) if iteration is not None else 0,
                   'catch': bool(errors == 'raise' and catch_first_error),
                   'before': snapshot(self, names), 'exc': None}
            i0 = len(st['log'])
            try:
                return super()._evaluate(t, *a, errors=errors, catch_first_error=catch_first_error, iteration=iteration, **kw)
            except Exception as e:
                rec['exc'] = type(e).__name__
                raise
            finally:
                rec['log'] = st['log'][i0:]
                rec['after'] = snapshot(self, names)
                st['passes'].append(rec)
    return Probe


# --------------------------------------------------------------------------- oracle table for exp / log / **
def mirror_table(prog, t, before):
    """Evaluate one pass of the translated program on the snapshot `before` with NumPy scalars, only to collect the
    (function id, argument, argument, result) triples of np.exp / np.log / ** that the Coq side looks up."""
    import warnings
    import numpy as np
    vals = [[np.float64(lib.unhex(x)) for x in row] for row in before]
    tab = []
    seen = set()

    def note(f, a, b, r):
        key = (f, lib.fhex(a), lib.fhex(b))
        if key not in seen:
            seen.add(key)
            tab.append([f, key[1], key[2], lib.fhex(r)])

    class Stop(Exception):
        pass

    def ev(j):
        k = j[0]
        if k == 'num':
            return np.float64(lib.unhex(j[1]))
        if k == 'read':
            row = vals[j[1]]
            i = t + j[2]
            if not -len(row) <= i < len(row):
                raise Stop()
            return row[i]
        if k == 'neg':
            return -ev(j[1])
        if k == 'abs':
            return abs(ev(j[1]))
        if k == 'bin':
            a, b = ev(j[2]), ev(j[3])
            if j[1] == 'add':
                return a + b
            if j[1] == 'sub':
                return a - b
            if j[1] == 'mul':
                return a * b
            if j[1] == 'div':
                return a / b
            r = a ** b
            note(POW_ID, a, b, r)
            return r
        if k == 'max':
            a, b = ev(j[1]), ev(j[2])
            return b if b > a else a
        if k == 'min':
            a, b = ev(j[1]), ev(j[2])
            return b if b < a else a
        if k == 'if':
            a, b = ev(j[2]), ev(j[3])
            c = {'lt': a < b, 'le': a <= b, 'eq': a == b, 'ne': a != b, 'gt': a > b, 'ge': a >= b}[j[1]]
            return ev(j[4]) if c else ev(j[5])
        if k == 'call1':
            a = ev(j[2])
            r = np.exp(a) if j[1] == 0 else np.log(a)
            note(j[1], a, np.float64(0.0), r)
            return r
        raise AssertionError(j)
    with warnings.catch_warnings():
        warnings.simplefilter('ignore')
        try:
            for s in prog:
                x = ev(s[3])
                row = vals[s[1]]
                i = t + s[2]
                if not -len(row) <= i < len(row):
                    break
                row[i] = np.float64(x)
        except Stop:
            pass
    return tab


def uses_table(prog):
    def walk(j):
        if j[0] == 'call1' or (j[0] == 'bin' and j[1] == 'pow'):
            return True
        return any(isinstance(x, list) and walk(x) for x in j[1:])
    return any(walk(s[3]) for s in prog)
