"""Worker process: runs props/<prop>.impl(case) on the real fsic (PYTHONPATH=/repo), one JSON case per line."""
import importlib
import json
import os
import sys
import warnings

sys.path.insert(0, os.path.dirname(os.path.abspath(__file__)))


def main():
    prop = sys.argv[1]
    mod = importlib.import_module('props.' + prop)
    out = sys.stdout
    sys.stdout = open(os.devnull, 'w')        # nothing the implementation prints may corrupt the protocol
    for line in sys.stdin:
        case = json.loads(line)
        try:
            with warnings.catch_warnings():
                warnings.simplefilter('ignore')
                obs = mod.impl(case)
        except BaseException as e:               # harness failure, not an implementation observation
            obs = {'harness_error': '%s: %s' % (type(e).__name__, e)}
        out.write(json.dumps(obs) + '\n')
        out.flush()


if __name__ == '__main__':
    main()
