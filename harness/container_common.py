"""Shared machinery of C09 (containers) and C18 (aliases): case encoding, the driver of the REAL fsic objects,
the OCaml extraction of the Coq models (coq/Container/Container.v, Alias.v) and its runner.

Everything path-like is built from lib.COQ / lib.ROOT / lib.REPO."""
import difflib
import hashlib
import json
import os
import subprocess

import lib

# --------------------------------------------------------------------------- extraction + OCaml driver
EXTRACT_V = r'''
Require Import PyBase Container Alias.
Require Import ExtrOcamlBasic ExtrOcamlString.
Extraction Language OCaml.
Extraction "%(out)s" np_step np_init_model init_vc values_shape size_of nbytes_own
  alias_construct alias_step export alias_init_model alias_getitem alias_getattr_var read alias_read reg_names reindex_with np_fill resolve export_with string_of_Z.
'''

DRIVER_ML = r'''
(* driver for the extracted container / alias models: one case per input line, one JSON line per case *)
open Model

let rec z_of_pos n = if n = 1 then XH else if n land 1 = 0 then XO (z_of_pos (n lsr 1)) else XI (z_of_pos (n lsr 1))
let z_of_int n = if n = 0 then Z0 else if n > 0 then Zpos (z_of_pos n) else Zneg (z_of_pos (- n))
let rec int_of_pos = function XH -> 1 | XO p -> 2 * int_of_pos p | XI p -> 2 * int_of_pos p + 1
let int_of_z = function Z0 -> 0 | Zpos p -> int_of_pos p | Zneg p -> - (int_of_pos p)
let rec nat_of_int n = if n <= 0 then O else S (nat_of_int (n - 1))
let rec int_of_nat = function O -> 0 | S n -> 1 + int_of_nat n
let cl_of_string s = List.init (String.length s) (String.get s)
let string_of_cl l = String.init (List.length l) (List.nth l)
let zstr z = string_of_cl (string_of_Z z)     (* decimal text of an (unbounded) Z, by the model's own printer *)

(* ---- s-expressions ---- *)
type sx = A of string | L of sx list
let tokenize s =
  let toks = ref [] and buf = Buffer.create 16 in
  let flush () = if Buffer.length buf > 0 then (toks := Buffer.contents buf :: !toks; Buffer.clear buf) in
  String.iter (fun c -> match c with
    | '(' | ')' -> flush (); toks := String.make 1 c :: !toks
    | ' ' | '\t' | '\n' | '\r' -> flush ()
    | c -> Buffer.add_char buf c) s;
  flush (); List.rev !toks
let parse toks =
  let rec one = function
    | "(" :: r -> let (l, r') = many r in (L l, r')
    | ")" :: _ -> failwith "unexpected )"
    | a :: r -> (A a, r)
    | [] -> failwith "eof"
  and many = function
    | ")" :: r -> ([], r)
    | [] -> failwith "eof in list"
    | ts -> let (x, r) = one ts in let (xs, r') = many r in (x :: xs, r')
  in fst (one toks)

let unhex h =
  let n = String.length h / 2 in
  String.init n (fun i -> Char.chr (int_of_string ("0x" ^ String.sub h (2 * i) 2)))
let name_of = function A "-" -> [] | A h -> cl_of_string (unhex (String.sub h 1 (String.length h - 1))) | _ -> failwith "name"
(* names are written as  x<hex>  ;  "-" alone = absent *)
let atom = function A a -> a | _ -> failwith "atom"
let int_of_sx x = int_of_string (atom x)
let z_of_sx x = z_of_int (int_of_sx x)
let optz = function A "-" -> None | x -> Some (z_of_sx x)
let list_of = function L l -> l | _ -> failwith "list"

let pyval_of = function
  | L [A "i"; z] -> PInt (z_of_sx z)
  | L [A "f"; z] -> PFlt (FHalf (z_of_sx z))
  | A "nan" -> PFlt FNaN | A "pinf" -> PFlt FPInf | A "ninf" -> PFlt FNInf
  | L [A "b"; b] -> PBool (int_of_sx b <> 0)
  | L [A "s"; h] -> PStr (name_of h)
  | A "none" -> PNone
  | _ -> failwith "pyval"
let dtype_of = function
  | A "F" -> DFloat | A "I" -> DInt | A "B" -> DBool | A "O" -> DObj
  | L [A "U"; k] -> DStr (nat_of_int (int_of_sx k))
  | _ -> failwith "dtype"
let dreq_of = function
  | A "f" -> Some RFloat | A "i" -> Some RInt | A "b" -> Some RBool | A "s" -> Some RStr | A "-" -> None
  | A "sub" | A "sub2" -> Some RSub
  | _ -> failwith "dreq"
let rec operand_of = function
  | L [A "S"; v] -> OScalar (pyval_of v)
  | L (A "L" :: items) -> OSeq (KList, List.map operand_of items)
  | L (A "T" :: items) -> OSeq (KTuple, List.map operand_of items)
  | L [A "R"; a; b; c] -> ORange (z_of_sx a, z_of_sx b, z_of_sx c)
  | L [A "A"; sh; dt; cells] ->
      OArr (List.map (fun x -> nat_of_int (int_of_sx x)) (list_of sh), dtype_of dt, List.map pyval_of (list_of cells))
  | _ -> failwith "operand"
let key_of = function
  | L [A "n"; nm] -> KName (name_of nm)
  | L [A "l"; nm; z] -> KLabel (name_of nm, z_of_sx z)
  | L [A "sl"; nm; a; b; st] -> KSlice (name_of nm, optz a, optz b, optz st)
  | A "t3" -> KTuple3
  | A "ko" -> KOther
  | _ -> failwith "key"
let hint_of = function A "-" -> None | x -> Some (name_of x)
let op_of = function
  | L [A "addvar"; nm; v; d] -> AddVariable (name_of nm, operand_of v, dreq_of d)
  | L [A "setattr"; nm; v; h] -> SetAttr (name_of nm, operand_of v, hint_of h)
  | L [A "setitem"; k; v] -> SetItem (key_of k, operand_of v)
  | L [A "replace"; kvs] -> ReplaceValues (List.map (function L [nm; v] -> (name_of nm, operand_of v) | _ -> failwith "kv") (list_of kvs))
  | L [A "addattr"; nm; v] -> AddAttribute (name_of nm, operand_of v)
  | L [A "query"; A "completions"] -> Query QCompletions
  | L [A "query"; A "dir"] -> Query QDir
  | L [A "query"; A "nbytes"] -> Query QNbytes
  | L [A "query"; L [A "contains"; nm]] -> Query (QContains (name_of nm))
  | _ -> failwith "op"

(* ---- JSON output ---- *)
let jstr s =
  let b = Buffer.create 16 in
  Buffer.add_char b '"';
  String.iter (fun c -> match c with
    | '"' -> Buffer.add_string b "\\\"" | '\\' -> Buffer.add_string b "\\\\"
    | c when Char.code c < 32 || Char.code c > 126 -> Buffer.add_string b (Printf.sprintf "\\u%04x" (Char.code c))
    | c -> Buffer.add_char b c) s;
  Buffer.add_char b '"'; Buffer.contents b
let jlist f l = "[" ^ String.concat "," (List.map f l) ^ "]"
let jname cl = jstr (string_of_cl cl)
let exn_name = function
  | ValueError -> "ValueError" | IndexError -> "IndexError" | KeyError -> "KeyError" | AttributeError -> "AttributeError"
  | TypeError -> "TypeError" | SolutionError _ -> "SolutionError" | NonConvergenceError -> "NonConvergenceError"
  | ParserError -> "ParserError" | SymbolError -> "SymbolError" | IndentationError -> "IndentationError"
  | DimensionError -> "DimensionError" | DuplicateNameError -> "DuplicateNameError" | InitialisationError -> "InitialisationError"
  | NotImplementedError -> "NotImplementedError" | UnboundLocalError -> "UnboundLocalError" | FortranEngineError -> "FortranEngineError"
  | OverflowError -> "OverflowError" | OtherError -> "OtherError(unmodelled)"
let jcell = function
  | PInt z -> "[\"i\"," ^ zstr z ^ "]"
  | PFlt (FHalf z) -> "[\"f\"," ^ zstr z ^ "]"
  | PFlt FNaN -> "[\"nan\"]" | PFlt FPInf -> "[\"pinf\"]" | PFlt FNInf -> "[\"ninf\"]"
  | PBool b -> if b then "[\"b\",1]" else "[\"b\",0]"
  | PStr s -> "[\"s\"," ^ jname s ^ "]"
  | PNone -> "[\"none\"]"
let jdtype = function
  | DFloat -> "\"F\"" | DInt -> "\"I\"" | DBool -> "\"B\"" | DObj -> "\"O\""
  | DStr k -> "[\"U\"," ^ string_of_int (int_of_nat k) ^ "]"
let jnat n = string_of_int (int_of_nat n)
let rec assoc_cl k = function [] -> None | (k', v) :: r -> if k = k' then Some v else assoc_cl k r
let jstate s =
  let vars = List.map (fun nm -> match assoc_cl nm s.vars with
      | Some v -> "[" ^ jname nm ^ "," ^ jdtype v.vdtype ^ "," ^ jlist jnat v.vshape ^ "," ^ jlist jcell v.vdata ^ "]"
      | None -> "[" ^ jname nm ^ ",null,null,null]") s.index in
  let vs = match values_shape s with Ret sh -> jlist jnat sh | Raise e -> jstr (exn_name e) in
  "{\"span\":" ^ jlist zstr s.span ^ ",\"index\":" ^ jlist jname s.index ^ ",\"vars\":[" ^ String.concat "," vars ^ "],\"values\":" ^ vs
  ^ ",\"size\":" ^ jnat (size_of s) ^ ",\"nbytes\":" ^ jnat (nbytes_own s)
  ^ ",\"strict\":" ^ (if s.strict then "true" else "false")
  ^ ",\"reg\":" ^ jlist jname (reg_names s.registry)
  ^ ",\"adict\":" ^ jlist jstr (List.sort compare (List.map (fun (k, _) -> string_of_cl k) s.adict))
  ^ ",\"names\":" ^ jlist jname s.names ^ "}"
let jout = function Ret _ -> "\"ok\"" | Raise e -> jstr (exn_name e)

let jqval = function
  | Ret (VNames l) -> "{\"names\":" ^ jlist jname l ^ "}"
  | Ret (VBool b) -> "{\"bool\":" ^ (if b then "true" else "false") ^ "}"
  | Ret (VNat n) -> "{\"nat\":" ^ jnat n ^ "}"
  | Raise e -> jstr (exn_name e)
(* (noop): something is done to ANOTHER object (a copy / reindexed copy of this one), or this object is replaced by its copy, or an
   attribute is read: for the model nothing happens to the state *)
let op_of_opt = function L [A "noop"] -> None | x -> Some (op_of x)
let run_ops stepf readf s0 ops =
  let rec go s = function
    | [] -> []
    | None :: r -> ("{\"out\":\"ok\",\"st\":" ^ jstate s ^ "}") :: go s r
    | Some o :: r ->
        let (s', out) = stepf o s in
        let ret = match o with Query q -> ",\"ret\":" ^ jqval (snd (readf q s)) | _ -> "" in
        ("{\"out\":" ^ jout out ^ ret ^ ",\"st\":" ^ jstate s' ^ "}") :: go s' r
  in go s0 ops

let aliases_of sx = List.map (function L [k; v] -> (name_of k, name_of v) | _ -> failwith "alias") (list_of sx)
let names_of sx = List.map name_of (list_of sx)
let ivs_of sx = List.map (function L [nm; v] -> (name_of nm, operand_of v) | _ -> failwith "iv") (list_of sx)
let kind_of k extra = match k with "model" -> CModel | "linker" -> CLinker (nat_of_int extra) | _ -> failwith "kind"

(* final reindex onto another span: the model's reindex_with on the final state *)
let final_state stepf s0 opl = List.fold_left (fun s o -> match o with None -> s | Some o -> fst (stepf o s)) s0 opl
let jreindex rn rx sfin =
  match rx with
  | A "-" -> ""
  | rx -> (match reindex_with rn (np_fill sfin.kind) (List.map z_of_sx (list_of rx)) sfin with
           | Ret s' -> ",\"reindex\":" ^ jstate s'
           | Raise e -> ",\"reindex\":" ^ jstr (exn_name e))
let handle line =
  match parse (tokenize line) with
  | L [A "vc"; sp; st; ops; rx] ->
      let s0 = init_vc (List.map z_of_sx (list_of sp)) (int_of_sx st <> 0) in
      let opl = List.map op_of_opt (list_of ops) in
      "{\"init\":\"ok\",\"st0\":" ^ jstate s0 ^ ",\"steps\":[" ^ String.concat "," (run_ops np_step read s0 opl) ^ "]"
      ^ jreindex (fun x -> x) rx (final_state np_step s0 opl) ^ "}"
  | L [A (("model" | "linker") as k); extra; sp; st; d; dflt; nms; ivs; ops; rx] ->
      let dr = match dreq_of d with Some x -> x | None -> failwith "dreq" in
      let (s0, out) = np_init_model (kind_of k (int_of_sx extra)) (List.map z_of_sx (list_of sp)) (int_of_sx st <> 0) dr
          (operand_of dflt) (names_of nms) (ivs_of ivs) in
      (match out with
       | Raise _ -> "{\"init\":" ^ jout out ^ ",\"steps\":[]}"
       | Ret _ ->
           let opl = List.map op_of_opt (list_of ops) in
           "{\"init\":\"ok\",\"st0\":" ^ jstate s0 ^ ",\"steps\":[" ^ String.concat "," (run_ops np_step read s0 opl) ^ "]"
           ^ jreindex (fun x -> x) rx (final_state np_step s0 opl) ^ "}")
  | L [A "alias"; A k; extra; al; pref; sp; st; d; dflt; nms; ivs; ops; reads; rx; L [A "fl"; f1; f2; f3]; ca] ->
      (* AliasMixin over a model / linker: constructor, ops through aliases, renamed export *)
      let dr = match dreq_of d with Some x -> x | None -> failwith "dreq" in
      (match alias_construct (aliases_of al) (names_of pref) with
       | Raise e -> "{\"init\":" ^ jstr (exn_name e) ^ ",\"steps\":[]}"
       | Ret am ->
           let (s0, out) = alias_init_model (names_of ca) am (kind_of k (int_of_sx extra)) (List.map z_of_sx (list_of sp)) (int_of_sx st <> 0) dr
               (operand_of dflt) (names_of nms) (ivs_of ivs) in
           let amj = "\"aliases\":" ^ jlist (fun (a, b) -> "[" ^ jname a ^ "," ^ jname b ^ "]") am.amap in
           (match out with
            | Raise _ -> "{\"init\":" ^ jout out ^ "," ^ amj ^ ",\"steps\":[]}"
            | Ret _ ->
                let opl = List.map op_of_opt (list_of ops) in
                let steps = run_ops (alias_step am) (alias_read am) s0 opl in
                let sfin = List.fold_left (fun s o -> match o with None -> s | Some o -> fst (alias_step am o s)) s0 opl in
                let ren = match export_with am (int_of_sx f1 <> 0) (int_of_sx f2 <> 0) (int_of_sx f3 <> 0) sfin with
                  | Ret l -> jlist (fun (t, src) -> "[" ^ jname t ^ "," ^ jname src ^ "]") l | Raise e -> jstr (exn_name e) in
                let jres = function Ret cells -> "{\"ok\":" ^ jlist jcell cells ^ "}" | Raise e -> jstr (exn_name e) in
                let rds = List.map (function
                    | L [A "g"; key] -> jres (alias_getitem am (key_of key) sfin)
                    | L [A "a"; nm] -> jres (alias_getattr_var am (name_of nm) sfin)
                    | _ -> failwith "read") (list_of reads) in
                "{\"init\":\"ok\"," ^ amj ^ ",\"st0\":" ^ jstate s0 ^ ",\"steps\":[" ^ String.concat "," steps ^ "],\"export\":" ^ ren
                ^ ",\"reads\":[" ^ String.concat "," rds ^ "]" ^ jreindex (resolve am) rx sfin ^ "}"))
  | _ -> failwith "case"

let () =
  try
    while true do
      let line = input_line stdin in
      (try print_endline (handle line) with Failure m -> print_endline ("{\"driver_error\":" ^ jstr m ^ "}")
                                         | Not_found -> print_endline "{\"driver_error\":\"Not_found\"}");
      flush stdout
    done
  with End_of_file -> ()
'''


def _ext_dir():
    return os.path.join(lib.COQ, 'Extract', 'Container')


def build_driver():
    """(Re)build the extracted model + driver under lib.COQ/Extract/Container/ when missing or stale.
    Returns (path of the executable, error text or None)."""
    d = _ext_dir()
    os.makedirs(d, exist_ok=True)
    exe = os.path.join(d, 'driver')
    vos = [os.path.join(lib.COQ, 'Container', 'Container.vo'), os.path.join(lib.COQ, 'Container', 'Alias.vo')]
    for v in vos:
        if not os.path.exists(v):
            return exe, 'model file %s is not compiled' % v
    stamp = hashlib.sha256((DRIVER_ML + EXTRACT_V).encode()).hexdigest()
    for v in vos:
        stamp += ':%s' % hashlib.sha256(open(v, 'rb').read()).hexdigest()
    stamp_file = os.path.join(d, 'stamp')
    if os.path.exists(exe) and os.path.exists(stamp_file) and open(stamp_file).read() == stamp:
        return exe, None
    import fcntl
    with open(os.path.join(d, '.lock'), 'w') as lk:
        fcntl.flock(lk, fcntl.LOCK_EX)
        if os.path.exists(exe) and os.path.exists(stamp_file) and open(stamp_file).read() == stamp:
            return exe, None
        cases = os.path.join(lib.COQ, 'cases')
        os.makedirs(cases, exist_ok=True)
        vfile = os.path.join(cases, 'extract_container_%d.v' % os.getpid())
        with open(vfile, 'w') as f:
            f.write(EXTRACT_V % {'out': os.path.join(d, 'model.ml')})
        try:
            p = subprocess.run(['coqc', '-R', '..', 'Fsic', '-w', '-notation-overridden,-extraction', os.path.basename(vfile)],
                               cwd=cases, capture_output=True, text=True, timeout=600)
        finally:
            for ext in ('.v', '.vo', '.glob', '.vok', '.vos'):
                try:
                    os.remove(vfile[:-2] + ext)
                except OSError:
                    pass
            try:
                os.remove(os.path.join(cases, '.' + os.path.basename(vfile)[:-2] + '.aux'))
            except OSError:
                pass
        if p.returncode != 0:
            return exe, 'extraction failed: ' + (p.stderr or p.stdout)[-1500:]
        with open(os.path.join(d, 'driver.ml'), 'w') as f:
            f.write(DRIVER_ML)
        p = subprocess.run(['ocamlfind', 'ocamlopt', '-O2', '-w', '-a', 'model.mli', 'model.ml', 'driver.ml', '-o', 'driver'],
                           cwd=d, capture_output=True, text=True, timeout=600)
        if p.returncode != 0:
            p = subprocess.run(['ocamlfind', 'ocamlopt', '-w', '-a', 'model.mli', 'model.ml', 'driver.ml', '-o', 'driver'],
                               cwd=d, capture_output=True, text=True, timeout=600)
        if p.returncode != 0:
            return exe, 'ocamlopt failed: ' + (p.stderr or p.stdout)[-1500:]
        with open(stamp_file, 'w') as f:
            f.write(stamp)
    return exe, None


def run_model(lines, timeout=1800):
    """Run the extracted model on encoded cases (one per line) -> (list of parsed JSON results, error or None)."""
    exe, e = build_driver()
    if e:
        return None, e
    nproc = max(1, min(lib.NPROC, (len(lines) + 199) // 200))
    chunks = [lines[i::nproc] for i in range(nproc)]
    procs = [subprocess.Popen([exe], stdin=subprocess.PIPE, stdout=subprocess.PIPE, stderr=subprocess.PIPE, text=True) for _ in chunks]
    import threading
    outs = [None] * nproc

    def work(i):
        try:
            outs[i] = procs[i].communicate('\n'.join(chunks[i]) + '\n', timeout=timeout)
        except subprocess.TimeoutExpired:
            procs[i].kill()
            outs[i] = ('', 'timeout')
    ths = [threading.Thread(target=work, args=(i,)) for i in range(nproc)]
    for t in ths:
        t.start()
    for t in ths:
        t.join()
    res = [None] * len(lines)
    for i in range(nproc):
        out, errtxt = outs[i]
        rows = out.splitlines()
        if len(rows) != len(chunks[i]):
            return None, 'model driver produced %d lines for %d cases: %s' % (len(rows), len(chunks[i]), (errtxt or '')[-500:])
        for j, row in enumerate(rows):
            try:
                res[i + j * nproc] = json.loads(row)
            except ValueError:
                return None, 'unparsable model output: %r' % row[:300]
    return res, None


# --------------------------------------------------------------------------- encoding of cases for the driver
def xname(s):
    return 'x' + s.encode('latin-1').hex()


def enc_pyval(v):
    t = v[0]
    if t in ('i', 'f', 'b'):
        return '(%s %d)' % (t, int(v[1]))
    if t == 's':
        return '(s %s)' % xname(v[1])
    return t           # nan pinf ninf none


def enc_dtype(d):
    return '(U %d)' % d[1] if isinstance(d, list) else d


def enc_operand(o):
    t = o[0]
    if t == 'S':
        return '(S %s)' % enc_pyval(o[1])
    if t in ('L', 'T'):
        return '(%s %s)' % (t, ' '.join(enc_operand(x) for x in o[1]))
    if t == 'R':
        return '(R %d %d %d)' % (o[1], o[2], o[3])
    if t == 'A':
        return '(A (%s) %s (%s))' % (' '.join(str(x) for x in o[1]), enc_dtype(o[2]), ' '.join(enc_pyval(x) for x in o[3]))
    raise ValueError(o)


def enc_optz(z):
    return '-' if z is None else str(int(z))


def enc_key(k):
    t = k[0]
    if t == 'n':
        return '(n %s)' % xname(k[1])
    if t == 'l':
        return '(l %s %d)' % (xname(k[1]), k[2])
    if t == 'sl':
        return '(sl %s %s %s %s)' % (xname(k[1]), enc_optz(k[2]), enc_optz(k[3]), enc_optz(k[4]))
    return t           # t3 / ko


def enc_op(op, hint=None):
    t = op[0]
    if t == 'addvar':
        return '(addvar %s %s %s)' % (xname(op[1]), enc_operand(op[2]), op[3] or '-')
    if t == 'setattr':
        return '(setattr %s %s %s)' % (xname(op[1]), enc_operand(op[2]), '-' if hint is None else xname(hint))
    if t == 'setitem':
        return '(setitem %s %s)' % (enc_key(op[1]), enc_operand(op[2]))
    if t == 'replace':
        return '(replace (%s))' % ' '.join('(%s %s)' % (xname(k), enc_operand(v)) for k, v in op[1])
    if t == 'addattr':
        return '(addattr %s %s)' % (xname(op[1]), enc_operand(op[2]))
    if t == 'query':
        q = op[1]
        return '(query (contains %s))' % xname(q[1]) if isinstance(q, list) else '(query %s)' % q
    if t in CROSS_OPS:
        return '(noop)'
    raise ValueError(op)


def enc_case(case, hints):
    """hints[i] = difflib's recorded answer for op i (None when not asked)."""
    ops = '(%s)' % ' '.join(enc_op(o, hints[i] if i < len(hints) else None) for i, o in enumerate(case['ops']))
    sp = '(%s)' % ' '.join(str(x) for x in case['span'])
    rx = '(%s)' % ' '.join(str(x) for x in case['rx']) if case.get('rx') is not None else '-'
    if case['kind'] == 'vc':
        return '(vc %s %d %s %s)' % (sp, 1 if case['strict'] else 0, ops, rx)
    tail = '%s %d %s %s (%s) (%s) %s' % (sp, 1 if case['strict'] else 0, case['dreq'], enc_operand(case['default']),
                                         ' '.join(xname(x) for x in case['names']),
                                         ' '.join('(%s %s)' % (xname(k), enc_operand(v)) for k, v in case['ivs']), ops)
    if 'aliases' in case:
        reads = ' '.join('(a %s)' % xname(r[1]) if r[0] == 'a' else '(g %s)' % enc_key(r[1]) for r in case.get('reads', []))
        fkw = case.get('fkw') or {}
        fl = '(fl %d %d %d)' % (1 if fkw.get('status', True) else 0, 1 if fkw.get('iterations', True) else 0, 1 if fkw.get('include_internal', False) else 0)
        return '(alias %s %d (%s) (%s) %s (%s) %s %s (%s))' % (
            case['kind'], case.get('extra', 0),
            ' '.join('(%s %s)' % (xname(k), xname(v)) for k, v in case['aliases']),
            ' '.join(xname(x) for x in case['preferred']), tail, reads, rx, fl,
            ' '.join(xname(x) for x in case.get('classattrs', [])))
    return '(%s %d %s %s)' % (case['kind'], case.get('extra', 0), tail, rx)


# --------------------------------------------------------------------------- real side: Python values of operands
def py_of_val(v):
    t = v[0]
    if t == 'i':
        return int(v[1])
    if t == 'f':
        return v[1] / 2.0
    if t == 'nan':
        return float('nan')
    if t == 'pinf':
        return float('inf')
    if t == 'ninf':
        return float('-inf')
    if t == 'b':
        return bool(v[1])
    if t == 's':
        return v[1]
    return None


def np_dtype(d):
    import numpy as np
    if isinstance(d, list):
        return np.dtype('<U%d' % d[1])
    return {'F': np.dtype('float64'), 'I': np.dtype('int64'), 'B': np.dtype('bool'), 'O': np.dtype('object')}[d]


def py_of_operand(o):
    import numpy as np
    t = o[0]
    if t == 'S':
        return py_of_val(o[1])
    if t == 'L':
        return [py_of_operand(x) for x in o[1]]
    if t == 'T':
        return tuple(py_of_operand(x) for x in o[1])
    if t == 'R':
        return range(o[1], o[2], o[3])
    if t == 'A':
        dt = np_dtype(o[2])
        cells = [py_of_val(x) for x in o[3]]
        a = np.empty(len(cells), dtype=dt)
        for i, c in enumerate(cells):
            a[i] = c
        return a.reshape(tuple(o[1]))
    raise ValueError(o)


def py_of_key(k):
    t = k[0]
    if t == 'n':
        return k[1]
    if t == 'l':
        return (k[1], k[2])
    if t == 'sl':
        return (k[1], slice(k[2], k[3], k[4]))
    if t == 't3':
        return ('X', 1, 2)
    return 5


def py_dreq(d):
    # 'sub' / 'sub2': sub-array dtypes (astype() adds a dimension; the model's RSub)
    return {None: None, '-': None, 'f': float, 'i': int, 'b': bool, 's': str, 'sub': '2f8', 'sub2': (float, 2)}[d]


# --------------------------------------------------------------------------- real side: canonical observation
def canon_cell(x):
    import numpy as np
    if x is None:
        return ['none']
    if isinstance(x, (bool, np.bool_)):
        return ['b', 1 if x else 0]
    if isinstance(x, (int, np.integer)):
        return ['i', int(x)]
    if isinstance(x, (float, np.floating)):
        x = float(x)
        if x != x:
            return ['nan']
        if x == float('inf'):
            return ['pinf']
        if x == float('-inf'):
            return ['ninf']
        if (2 * x) == int(2 * x) and abs(x) < 2 ** 52:
            return ['f', int(2 * x)]
        return ['fx', x.hex()]
    if isinstance(x, str):
        return ['s', x]
    return ['other', type(x).__name__]


def canon_dtype(dt):
    import numpy as np
    if dt == np.dtype('float64'):
        return 'F'
    if dt == np.dtype('int64'):
        return 'I'
    if dt == np.dtype('bool'):
        return 'B'
    if dt == np.dtype('object'):
        return 'O'
    if dt.kind == 'U':
        return ['U', dt.itemsize // 4]
    return str(dt)


CORE_DICT = ('span', 'index', '_strict', '_attributes', 'submodels', 'name', '_LAGS', '_LEADS', 'aliases', 'preferred_names')


def observe(obj, declared=None):
    """Canonical observation of a real container / model / linker (same layout as the model driver's jstate).
    `declared` = the variables in declaration order as the HARNESS recorded them (constructor names + accepted add_variable
    calls): `values` is compared row by row against the series of exactly these names."""
    import numpy as np
    d = obj.__dict__
    index = list(d['index']) if 'index' in d else list(obj.index)
    try:
        span = [int(x) if isinstance(x, (int, np.integer)) and not isinstance(x, bool) else repr(x) for x in obj.span]
    except BaseException as e:             # noqa: BLE001
        span = type(e).__name__
    vs = []
    for nm in index:
        a = d.get('_' + nm)
        if a is None and ('_' + nm) not in d:
            try:
                a = obj[nm]                # another private layout: the public item access
            except BaseException:          # noqa: BLE001
                a = None
        if isinstance(a, np.ndarray):
            vs.append([nm, canon_dtype(a.dtype), list(a.shape), [canon_cell(x) for x in a.ravel().tolist()]])
        else:
            vs.append([nm, None, None, None if a is None else ['notarray', type(a).__name__]])
    rows_ok = None
    try:
        val = type(obj).values.fget(obj)
        values = list(np.shape(val))
        rows = list(declared) if declared is not None else (list(d['names']) if 'names' in d else index)
        # independent reading of "values is the variables-by-periods stack in declaration order"
        if len(values) == 2 and values[0] != len(rows):
            rows_ok = False
        if len(values) == 2 and values[0] == len(rows):
            rows_ok = True
            for i, nm in enumerate(rows):
                ser = d.get('_' + nm)
                if not isinstance(ser, np.ndarray) or ser.shape != (values[1],):
                    rows_ok = False
                    break
                for j in range(values[1]):
                    a, b = val[i][j], ser[j]
                    same = (a == b) or (str(a) == str(b)) or (isinstance(b, (float, np.floating)) and b != b and str(a) in ('nan',))
                    try:
                        same = bool(same) or (float(a) == float(b))
                    except (TypeError, ValueError):
                        same = bool(same)
                    if not same:
                        rows_ok = False
    except BaseException as e:             # noqa: BLE001 - the class is the observation
        values = type(e).__name__
    try:
        size = int(type(obj).size.fget(obj))
    except BaseException as e:             # noqa: BLE001
        size = type(e).__name__
    try:
        nbytes = int(sum(d['_' + k].nbytes for k in index if hasattr(d.get('_' + k), 'nbytes')))
    except BaseException as e:             # noqa: BLE001
        nbytes = type(e).__name__
    reg = d.get('_attributes')
    reg = [x if isinstance(x, str) else None for x in reg] if isinstance(reg, list) else ['notalist']
    hidden = set('_' + n for n in index)
    adict = sorted(k for k in d if k not in CORE_DICT and k not in hidden and not (k.startswith('_') and isinstance(d[k], np.ndarray)))
    # `keys`: the raw key set of __dict__ (real side only; the oracle compares it across FAILED operations: nothing may be left behind)
    return {'span': span, 'index': index, 'vars': vs, 'values': values, 'size': size, 'nbytes': nbytes, 'strict': bool(d.get('_strict')),
            'reg': reg, 'adict': adict, 'names': list(d.get('names', [])), 'values_rows_ok': rows_ok, 'keys': sorted(str(k) for k in d)}


def closest_hint(obj, name):
    """What difflib answers inside get_closest_match (the oracle the model takes as an input)."""
    cands = list(obj.__dict__.get('names', obj.__dict__['index'])) if 'names' in obj.__dict__ else list(obj.__dict__['index'])
    lowered = {}
    for x in cands:
        lowered.setdefault(x.lower(), []).append(x)
    m = difflib.get_close_matches(name.lower(), lowered.keys(), n=1, cutoff=0.1)
    return m[0] if m else None


def apply_op(obj, op):
    """Perform one operation on the real object. Returns (outcome, info)."""
    t = op[0]
    info = {}
    try:
        if t == 'addvar':
            info['_operand'] = py_of_operand(op[2])
            obj.add_variable(op[1], info['_operand'], dtype=py_dreq(op[3]))
        elif t == 'setattr':
            info['_operand'] = py_of_operand(op[2])
            setattr(obj, op[1], info['_operand'])
        elif t == 'setitem':
            info['_operand'] = py_of_operand(op[2])
            obj[py_of_key(op[1])] = info['_operand']
        elif t == 'replace':
            kw = {k: py_of_operand(v) for k, v in op[1]}
            info['_operand'] = list(kw.values())
            obj.replace_values(**kw)
        elif t == 'addattr':
            obj.add_attribute(op[1], py_of_operand(op[2]))
        elif t == 'query':
            info['ret'] = run_query(obj, op[1])
        else:
            raise RuntimeError('unknown op %r' % (op,))
        return 'ok', info
    except BaseException as e:             # noqa: BLE001 - the class is the observation
        if isinstance(e, (KeyboardInterrupt, SystemExit, MemoryError)) or str(e).startswith('unknown op'):
            raise
        info['msg'] = str(e)[:200]
        return type(e).__name__, info


def run_query(obj, q):
    """A public read-only hook is called on the real object; canonical form of what it returns (or the class it raises)."""
    try:
        if q == 'completions':
            return {'names': [str(x) for x in obj._ipython_key_completions_()]}
        if q == 'dir':
            cls = set(dir(type(obj)))
            d = obj.__dict__
            cands = list(d.get('index', [])) + [x for x in d.get('_attributes', []) if isinstance(x, str)] + list(d.get('aliases', {}) or {})
            return {'names': sorted(x for x in dir(obj) if x not in cls), 'masked': sorted(set(x for x in cands if x in cls))}
        if q == 'nbytes':
            return {'nat': int(obj.nbytes)}
        if isinstance(q, list) and q[0] == 'contains':
            return {'bool': bool(q[1] in obj)}
        raise RuntimeError('unknown op: query %r' % (q,))
    except BaseException as e:             # noqa: BLE001 - the class is the observation
        if isinstance(e, (KeyboardInterrupt, SystemExit, MemoryError)) or str(e).startswith('unknown op'):
            raise
        return type(e).__name__


def same_query_result(model_ret, real_ret):
    """Model's answer of a hook vs the implementation's (dir(): only the instance-dependent part, as a sorted list)."""
    if isinstance(model_ret, dict) and isinstance(real_ret, dict) and 'names' in model_ret and 'names' in real_ret:
        # WHICH names are listed is what the property speaks about, not their order
        masked = real_ret.get('masked', [])
        return sorted(x for x in model_ret['names'] if x not in masked) == sorted(real_ret['names'])
    return model_ret == real_ret


def scramble(a):
    """Overwrite every cell of the caller's ndarray operand AFTER the operation: a series that merely refers to it would change."""
    import numpy as np
    if not isinstance(a, np.ndarray) or a.size == 0:
        return False
    try:
        if a.dtype.kind in 'iuf':
            a[...] = 77
        elif a.dtype.kind == 'b':
            a[...] = ~a
        elif a.dtype.kind == 'U':
            a[...] = 'q'
        else:
            a[...] = 77
        return True
    except Exception:                  # noqa: BLE001
        return False


def make_class(kind, names, aliases=None, preferred=None, evaluate=None):
    import fsic
    base = {'model': fsic.BaseModel, 'linker': fsic.BaseLinker}[kind]
    ns = {'NAMES': list(names), 'ENDOGENOUS': [], 'EXOGENOUS': list(names), 'CHECK': []}
    if evaluate is not None:
        ns['_evaluate'] = evaluate
    bases = (base,)
    if aliases is not None:
        from fsic.extensions import AliasMixin
        ns['ALIASES'] = dict(aliases)
        ns['PREFERRED_NAMES'] = list(preferred or [])
        bases = (AliasMixin, base)
    return type('M', bases, ns)


def span_object(case):
    """The span as the sequence type the case asks for (list / tuple / range: all looked up with .index)."""
    sp = list(case['span'])
    t = case.get('span_type', 'list')
    if t == 'tuple':
        return tuple(sp)
    if t == 'range' and len(sp) >= 1 and sp == list(range(sp[0], sp[0] + len(sp))):
        return range(sp[0], sp[0] + len(sp))
    return sp


def construct(case, operands=None):
    """Build the real object of a case -> (obj, outcome). `operands` (a list) receives the keyword operands handed to the
    constructor, for the sharing test."""
    import fsic
    from fsic.core.containers import VectorContainer
    kind = case['kind']
    try:
        if kind == 'vc':
            return VectorContainer(span_object(case), strict=case['strict']), 'ok'
        cls = make_class(kind, case['names'], case.get('aliases'), case.get('preferred'))
        kw = {k: py_of_operand(v) for k, v in case['ivs']}
        if operands is not None:
            operands.extend(kw.values())
        if kind == 'model':
            return cls(span_object(case), strict=case['strict'], dtype=py_dreq(case['dreq']),
                       default_value=py_of_operand(case['default']), **kw), 'ok'
        subs = None
        if case.get('extra', 0):
            sub_cls = type('Sub', (fsic.BaseModel,), {'NAMES': ['P', 'Q'], 'ENDOGENOUS': [], 'EXOGENOUS': ['P', 'Q'], 'CHECK': []})
            assert case['extra'] == 2 * len(case['span'])
            subs = {'A': sub_cls(list(case['span']))}
            obj = cls(subs, dtype=py_dreq(case['dreq']), default_value=py_of_operand(case['default']), **kw)
        else:
            obj = cls(None, span=list(case['span']), dtype=py_dreq(case['dreq']), default_value=py_of_operand(case['default']), **kw)
        return obj, 'ok'
    except BaseException as e:             # noqa: BLE001
        if isinstance(e, (KeyboardInterrupt, SystemExit, MemoryError)):
            raise
        return None, type(e).__name__


def _same_cells(a, b):
    """Element-wise equality of two equally shaped arrays, NaN equal to NaN."""
    import numpy as np
    if a.shape != b.shape:
        return False
    for x, y in zip(a.ravel().tolist(), b.ravel().tolist()):
        if x != y and not (isinstance(x, float) and isinstance(y, float) and x != x and y != y):
            return False
    return True


def values_set_readback(obj, declared, operand):
    """After an ACCEPTED `obj.values = operand`: is what was assigned what is now stored?  (NumPy's own astype is the reference
    for the per-row cast; a scalar must fill every series with one and the same cell.)"""
    import warnings
    import numpy as np
    d = obj.__dict__
    with warnings.catch_warnings():
        warnings.simplefilter('ignore')
        try:
            if isinstance(operand, np.ndarray):
                if operand.ndim != 2 or operand.shape[0] != len(declared):
                    return None
                for i, nm in enumerate(declared):
                    ser = d['_' + nm]
                    if not _same_cells(operand[i].astype(ser.dtype), ser):
                        return False
                return True
            if isinstance(operand, (list, tuple, range)):
                return None                 # a sequence is broadcast along the periods: no independent reading here
            for nm in declared:
                ser = d['_' + nm]
                if ser.shape[0] and not _same_cells(ser, np.full(ser.shape, ser[0], dtype=ser.dtype)):
                    return False
            return True
        except Exception:                  # noqa: BLE001 - no verdict
            return None


# history steps that involve a second instance or a read; for the object under test they must be no-ops
#   ['fork', how, op]   sibling = copy of the object (how: copy | deepcopy | reindex onto the same span); `op` is applied to the sibling
#   ['sib', op]         `op` is applied to the current sibling (if there is one)
#   ['become', how]     the object under test is replaced by its copy; the old object becomes the sibling
#   ['getattr', name]   the attribute is read (and the result dropped)
CROSS_OPS = ('fork', 'sib', 'become', 'getattr')


def fork_object(obj, how, span):
    import copy as _copy
    if how == 'copy':
        return obj.copy()
    if how == 'deepcopy':
        return _copy.deepcopy(obj)
    if len(set(span)) != len(span):
        return obj.copy()              # reindex() looks labels up by first occurrence: with a repeated label it is no copy
    return obj.reindex(list(span))


def cross_step(obj, sib, op, span, apply=None):
    """One CROSS_OPS step on the real objects -> (obj, sib, info)."""
    apply = apply or apply_op
    info = {}
    try:
        if op[0] == 'fork':
            sib = fork_object(obj, op[1], span)
            info['inner'] = apply(sib, op[2])[0]
        elif op[0] == 'sib':
            if sib is not None:
                info['inner'] = apply(sib, op[1])[0]
        elif op[0] == 'become':
            new = fork_object(obj, op[1], span)
            sib, obj = obj, new
        else:
            v = getattr(obj, op[1])
            info['read'] = [canon_cell(x) for x in v.ravel().tolist()] if hasattr(v, 'ravel') else type(v).__name__
        info['cross'] = 'ok'
    except BaseException as e:             # noqa: BLE001 - the class is the observation
        if isinstance(e, (KeyboardInterrupt, SystemExit, MemoryError)) or str(e).startswith('unknown op'):
            raise
        info['cross'] = type(e).__name__
    return obj, sib, info


def impl_run(case):
    """Run a whole case on the real fsic: observation after construction and after every op."""
    kwops = []
    obj, out = construct(case, kwops)
    if obj is None:
        return {'init': out, 'steps': []}
    declared = [] if case['kind'] == 'vc' else list(case['names'])
    res = {'init': 'ok', 'st0': observe(obj, declared), 'steps': []}
    if any(scramble(x) for x in kwops):          # constructor keywords: the series must not refer to the caller's arrays
        shared0 = diff_state(res['st0'], observe(obj, declared))
        if shared0:
            res['shared0'] = shared0
            res['st0'] = observe(obj, declared)
    sib = None
    for op in case['ops']:
        if op[0] in CROSS_OPS:
            obj, sib, info = cross_step(obj, sib, op, case['span'])
            res['steps'].append({'out': 'ok', 'st': observe(obj, declared), 'hint': None, 'aux': info})
            continue
        hint = None
        if op[0] == 'setattr':
            hint = closest_hint(obj, obj.__dict__.get('aliases', {}).get(op[1], op[1]))
        o, info = apply_op(obj, op)
        if op[0] == 'addvar' and o == 'ok':
            declared.append(op[1])
        operand = info.pop('_operand', None)
        values_ok = None
        if op[0] == 'setattr' and op[1] == 'values' and o == 'ok':
            values_ok = values_set_readback(obj, declared, py_of_operand(op[2]))
        shared = None
        operands = operand if isinstance(operand, list) and op[0] == 'replace' else [operand]
        if any(hasattr(x, 'dtype') for x in operands):
            before = observe(obj, declared)
            if any([scramble(x) for x in operands if hasattr(x, 'dtype')]):
                shared = diff_state(before, observe(obj, declared))
        step = {'out': o, 'st': observe(obj, declared), 'hint': hint}
        if shared:
            step['shared'] = shared
        if values_ok is not None:
            step['values_set_ok'] = values_ok
        if 'msg' in info:
            step['msg'] = info['msg']
        if 'ret' in info:
            step['ret'] = info['ret']
        res['steps'].append(step)
    if case.get('rx') is not None:
        res['reindex'] = reindex_observation(obj, case['rx'], declared)
    return res


def reindex_observation(obj, rx, declared):
    """obj.reindex(rx) on the real object: the canonical state of the result, or the class it raises."""
    try:
        return observe(obj.reindex(list(rx)), declared)
    except BaseException as e:             # noqa: BLE001
        if isinstance(e, (KeyboardInterrupt, SystemExit, MemoryError)):
            raise
        return type(e).__name__


def diff_state(a, b):
    """First differing field of two canonical states (model vs real) or None."""
    for k in ('span', 'index', 'vars', 'values', 'size', 'nbytes', 'strict', 'reg', 'adict', 'names'):
        if a.get(k) != b.get(k):
            return '%s: model=%s impl=%s' % (k, json.dumps(a.get(k))[:300], json.dumps(b.get(k))[:300])
    return None


def compare(model_res, impl_res):
    """-> None when the model's run equals the implementation's, else a one-line description."""
    if 'driver_error' in model_res:
        return 'driver error: ' + model_res['driver_error']
    if model_res['init'] != impl_res['init']:
        return 'constructor: model=%s impl=%s' % (model_res['init'], impl_res['init'])
    if model_res['init'] != 'ok':
        return None
    d = diff_state(model_res['st0'], impl_res['st0'])
    if d:
        return 'after construction: ' + d
    for i, (m, r) in enumerate(zip(model_res['steps'], impl_res['steps'])):
        if m['out'] != r['out']:
            return 'op %d outcome: model=%s impl=%s' % (i, m['out'], r['out'])
        if ('ret' in m or 'ret' in r) and not same_query_result(m.get('ret'), r.get('ret')):
            return 'op %d returned: model=%s impl=%s' % (i, json.dumps(m.get('ret'))[:200], json.dumps(r.get('ret'))[:200])
        d = diff_state(m['st'], r['st'])
        if d:
            return 'after op %d: %s' % (i, d)
    if len(model_res['steps']) != len(impl_res['steps']):
        return 'different number of steps'
    return compare_reindex(model_res, impl_res)


def compare_reindex(model_res, impl_res):
    m, r = model_res.get('reindex'), impl_res.get('reindex')
    if m is None and r is None:
        return None
    final = impl_res['steps'][-1]['st'] if impl_res.get('steps') else impl_res.get('st0', {})
    if 'copy' in final.get('adict', []):
        return None                   # an ad hoc attribute called `copy` hides the method reindex() relies on: not a reindex of a container
    if isinstance(m, dict) and isinstance(r, dict):
        d = diff_state(m, r)
        return 'reindex(): ' + d if d else None
    return None if m == r else 'reindex(): model=%s impl=%s' % (str(m)[:100], str(r)[:100])
