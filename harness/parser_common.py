"""Shared by the parser-core properties (C13, C01; later C03/C14/C15/C20).

* canonical one-line encodings of parse results (the same format the OCaml driver prints),
* the runner of the extracted OCaml driver (coq/Extract/Parser/: ExtractParser.v -> parser_model.ml, driver.ml),
  built under lib.COQ/Extract/Parser/ when missing or stale,
* the 30-symbol alphabet of DESIGN.md §3 C13 and a small C01-grammar script generator with a mutator,
* a first-order Python reference transcription of the Gallina model (debugging aid only: K always runs the
  extracted Gallina definitions, never this transcription).
"""
import fcntl
import hashlib
import os
import re
import resource
import subprocess
import threading

import lib

EXDIR = os.path.join(lib.COQ, 'Extract', 'Parser')
DRIVER = os.path.join(EXDIR, 'driver')

# letters a Y i f s n (spell if in is as), digit, underscore, blank, newline, operators, brackets, backtick, hash, quotes, a non-ASCII letter
ALPHABET = list('aYifsn1_ \n=+-*/.,()[]{}<>`#\'"\xe9')
assert len(ALPHABET) == 30 and len(set(ALPHABET)) == 30


# --------------------------------------------------------------------------- encodings
def hx(s):
    try:
        return s.encode('latin-1').hex()
    except UnicodeEncodeError:       # outside the model's alphabet: never sent to the driver, only kept in observations
        return s.encode('utf-8', 'surrogatepass').hex()


def unhx(h):
    return bytes.fromhex(h).decode('latin-1')


def enc_opt(s):
    return '-' if s is None else 'h' + hx(s)


def enc_idx(v):
    if v is None:
        return '-'
    if isinstance(v, int):
        return 'i%d' % v
    return 's' + hx(v)


def enc_symbols(symbols):
    return ';'.join('|'.join([enc_opt(s.name), s.type.name, enc_idx(s.lags), enc_idx(s.leads), enc_opt(s.equation), enc_opt(s.code)])
                    for s in symbols)


def dec_line(line):
    """canonical line -> ('ok', [dict]) | ('exc', cls) | ('unmodelled',)"""
    if line == 'U':
        return ('unmodelled',)
    if line.startswith('E:'):
        return ('exc', line[2:])
    out = []
    body = line[2:]
    for sym in (body.split(';') if body else []):
        f = sym.split('|')

        def o(x):
            return None if x == '-' else unhx(x[1:])

        def i(x):
            return None if x == '-' else (int(x[1:]) if x[0] == 'i' else unhx(x[1:]))
        out.append({'name': o(f[0]), 'type': f[1], 'lags': i(f[2]), 'leads': i(f[3]), 'equation': o(f[4]), 'code': o(f[5])})
    return ('ok', out)


def real_line(s, check_syntax=False):
    """fsic.parse_model on s, canonical line (run inside a worker: needs fsic importable)."""
    import fsic
    try:
        return 'O:' + enc_symbols(fsic.parse_model(s, check_syntax=check_syntax))
    except BaseException as e:      # noqa: BLE001 - the class name IS the observation
        return 'E:' + type(e).__name__


def real_equation_line(s):
    import fsic
    try:
        return 'O:' + enc_symbols(fsic.parser.parse_equation(s))
    except BaseException as e:      # noqa: BLE001
        return 'E:' + type(e).__name__


def compile_outcome(code):
    """What parse_model's syntax check observes for one generated statement: ok se ce sw ow ox (+ exception class)."""
    import textwrap
    import warnings
    # 1847a2f / fad09eb: the check compiles the code as build_model embeds it — indented, inside a method body with the
    # parameters of the real `_evaluate`, followed by `pass`
    wrapped = ('def _evaluate(self, t, *, errors=None, catch_first_error=None, iteration=None, **kwargs):\n'
               + textwrap.indent(code, '    ') + '\n    pass')
    with warnings.catch_warnings(record=True) as w:
        warnings.simplefilter('always')
        try:
            compile(wrapped, '<string>', 'exec')
        except SyntaxError:
            return 'se', None
        except (ValueError, RecursionError, MemoryError, OverflowError):
            return 'ce', None              # caught by parse_model since fix 74fa5fb (ChkCaughtExn)
        except BaseException as e:      # noqa: BLE001
            return 'ox', type(e).__name__
        if len(w) == 0:
            return 'ok', None
        if len(w) == 1 and issubclass(w[0].category, SyntaxWarning):
            return 'sw', None
        return 'ow', None


# --------------------------------------------------------------------------- the extracted driver
def _mtime(p):
    try:
        return os.path.getmtime(p)
    except OSError:
        return -1.0


def ensure_driver():
    """(Re)build lib.COQ/Extract/Parser/driver when missing or older than its sources.  Returns an error string or None."""
    ml, mli, drv = (os.path.join(EXDIR, f) for f in ('parser_model.ml', 'parser_model.mli', 'driver.ml'))
    vo = os.path.join(EXDIR, 'ExtractParser.vo')
    vsrc = [os.path.join(lib.COQ, 'Parser', f) for f in ('PyStr.v', 'Lex.v', 'Format.v', 'Symbols.v', 'Split.v', 'Merge.v', 'ParseEq.v', 'ParseModel.v')]
    vsrc += [os.path.join(EXDIR, 'ExtractParser.v'), os.path.join(lib.COQ, 'Gen', 'Generated.v')]
    os.makedirs(EXDIR, exist_ok=True)
    with open(os.path.join(lib.COQ, '.build.lock'), 'a') as lk:
        fcntl.flock(lk, fcntl.LOCK_EX)                     # never overlap with a running make
        try:
            newest_v = max(_mtime(p) for p in vsrc)
            if _mtime(ml) < newest_v or _mtime(mli) < 0:
                # the extraction is normally refreshed by the full build; do it here when that did not happen
                for f in ('PyStr', 'Lex', 'Format', 'Symbols', 'Split', 'Merge', 'ParseEq', 'ParseModel'):
                    if _mtime(os.path.join(lib.COQ, 'Parser', f + '.vo')) < _mtime(os.path.join(lib.COQ, 'Parser', f + '.v')):
                        return 'parser model %s.vo is missing or stale (build failed?)' % f
                p = subprocess.run(['coqc', '-R', '.', 'Fsic', '-w', '-notation-overridden,-extraction', 'Extract/Parser/ExtractParser.v'],
                                   cwd=lib.COQ, capture_output=True, text=True, timeout=600)
                if p.returncode != 0 or _mtime(ml) < 0:
                    return 'extraction failed: ' + (p.stderr or p.stdout)[-500:]
            if _mtime(DRIVER) < max(_mtime(ml), _mtime(mli), _mtime(drv)):
                p = subprocess.run(['ocamlfind', 'ocamlopt', '-O2', '-w', '-a', 'parser_model.mli', 'parser_model.ml', 'driver.ml', '-o', 'driver'],
                                   cwd=EXDIR, capture_output=True, text=True, timeout=600)
                if p.returncode != 0:
                    p = subprocess.run(['ocamlfind', 'ocamlopt', '-w', '-a', 'parser_model.mli', 'parser_model.ml', 'driver.ml', '-o', 'driver'],
                                       cwd=EXDIR, capture_output=True, text=True, timeout=600)
                if p.returncode != 0:
                    return 'ocamlopt failed: ' + (p.stderr or p.stdout)[-500:]
        finally:
            fcntl.flock(lk, fcntl.LOCK_UN)
    return None


def _big_stack():
    try:
        soft, hard = resource.getrlimit(resource.RLIMIT_STACK)
        want = 1 << 30
        resource.setrlimit(resource.RLIMIT_STACK, (want if hard == resource.RLIM_INFINITY or hard >= want else hard, hard))
    except (ValueError, OSError):
        pass


def run_driver(requests, nproc=None, timeout=3000, multi=False):
    """Send request lines to the driver (sharded over processes); returns (answers, errors).
    With multi=False every request yields exactly one answer line.  With multi=True (EV requests) an answer is the
    list of lines up to the terminating '.' line."""
    err = ensure_driver()
    if err:
        return None, [err]
    nproc = nproc or lib.NPROC
    n = len(requests)
    if n == 0:
        return [], []
    nshard = max(1, min(nproc, (n + 7) // 8))
    bounds = [(n * i // nshard, n * (i + 1) // nshard) for i in range(nshard)]
    answers = [None] * n
    errors = []
    lock = threading.Lock()

    def work(a, b):
        try:
            p = subprocess.run([DRIVER], input='\n'.join(requests[a:b]) + '\n', capture_output=True, text=True,
                               timeout=timeout, preexec_fn=_big_stack)
        except subprocess.TimeoutExpired:
            with lock:
                errors.append('driver timeout on shard %d..%d' % (a, b))
            return
        lines = p.stdout.split('\n')
        if lines and lines[-1] == '':
            lines.pop()
        if multi:
            out, cur = [], []
            for ln in lines:
                if ln == '.':
                    out.append(cur)
                    cur = []
                else:
                    cur.append(ln)
            lines = out
        if p.returncode != 0 or len(lines) != b - a:
            with lock:
                errors.append('driver failed on shard %d..%d: rc=%s, %d answers for %d requests, stderr=%s'
                              % (a, b, p.returncode, len(lines), b - a, p.stderr[-300:]))
            return
        answers[a:b] = lines

    ths = [threading.Thread(target=work, args=ab) for ab in bounds]
    for t in ths:
        t.start()
    for t in ths:
        t.join()
    if not errors:
        for i, x in enumerate(answers):
            if x is None or (not multi and (x.startswith('!') or x == '?')):
                errors.append('driver answer %r for request %r' % (x, requests[i][:200]))
                break
    return answers, errors


def model_lines(strings, nproc=None):
    """parse_model_nocheck of the Gallina model for each string -> canonical lines."""
    return run_driver(['P ' + hx(s) for s in strings], nproc)


# --------------------------------------------------------------------------- script generator (C01 grammar) + mutator
NAMES = ['Y', 'X', 'C', 'a', 'b1', 'is_open', 'Pin', 'not_X', 'exp', 'in_', 'f', 'alpha_1', 'W', 'Z', 'n', 's', 'i_f', 'Yd']
FUNCS = ['exp', 'log', 'max', 'min', 'abs', 'np.sqrt', 'f', 'canary_fn']
KWS = ['if', 'else', 'and', 'or', 'not', 'in', 'is', 'None', 'True', 'lambda']
OPS = ['+', '-', '*', '/', '**', '<', '>', '<=', '>=', '==', ',']


def gen_term(rng, depth=0):
    r = rng.random()
    nm = rng.choice(NAMES)
    sp = lambda: rng.choice(['', '', '', ' ', '  ', '\t'])   # noqa: E731
    if r < 0.35:
        t = nm
    elif r < 0.5:
        t = '{' + sp() + nm + sp() + '}'
    elif r < 0.58:
        t = '<' + sp() + nm + sp() + '>'
    elif r < 0.68:
        t = rng.choice(['1', '2', '0.5', '10', '2e5', '1.', '.5'])
    elif r < 0.78 and depth < 3:
        return rng.choice(FUNCS) + rng.choice(['', '', ' ']) + '(' + sp() + gen_expr(rng, depth + 1) + sp() + ')'
    elif r < 0.86 and depth < 3:
        return '(' + sp() + gen_expr(rng, depth + 1) + sp() + ')'
    elif r < 0.9:
        return '`' + rng.choice(['x', 'self.k', 'np.pi', '1+2', 'v(t)']) + '`'
    elif r < 0.93:
        return rng.choice(KWS)
    else:
        t = nm
    if not t[0].isdigit() and t[0] != '.' and rng.random() < 0.45:
        k = rng.choice([-1, -2, 1, 2, 0, -10, 12, 3])
        sign = '+' if (k > 0 and rng.random() < 0.4) else ''
        idx = rng.choice(['%s%d' % (sign, k), ' %s%d ' % (sign, k), "'2000'", '"a"', '`2001`', '%s%d' % (sign, k)])
        t += rng.choice(['', '', '', ' ']) + '[' + idx + ']'
    return t


def gen_expr(rng, depth=0):
    n = rng.choice([1, 1, 2, 2, 3, 4])
    parts = [('-' if rng.random() < 0.1 else '') + gen_term(rng, depth)]
    for _ in range(n - 1):
        parts.append(rng.choice(OPS))
        parts.append(gen_term(rng, depth))
    if depth == 0 and rng.random() < 0.1:
        parts += ['if', gen_term(rng, 1), 'else', gen_term(rng, 1)]
    out = ''
    for p in parts:
        out += rng.choice(['', ' ', ' ', ' ', '  ', ('\n    ' if depth > 0 else ' ')]) + p
    return out.strip(' ') if depth == 0 else out


def gen_statement(rng):
    r = rng.random()
    lhs = rng.choice(NAMES)
    if rng.random() < 0.15:
        lhs += '[' + rng.choice(['0', '1', '-1', ' 1 ']) + ']'
    if r < 0.72:
        st = lhs + rng.choice([' = ', '=', ' =', '= ', '  =  ']) + gen_expr(rng)
    elif r < 0.8:
        st = lhs + ' = (' + gen_expr(rng, 1) + '\n   + ' + gen_expr(rng, 1) + ')'
    elif r < 0.85:
        st = '(' + lhs + ' =\n   ' + gen_expr(rng, 1) + ')'
    elif r < 0.9:
        st = '`' + rng.choice(['x = 1', 'self.k = 2', 'k = canary_fn()', 'y = x + 1']) + '`'
    elif r < 0.95:
        st = '```\n' + rng.choice(['x = 1\ny = 2', 'if self.k:\n    pass', 'z = canary_fn()', '']) + '\n```'
    else:
        st = rng.choice(['# comment', '', '   ', '\t# indented comment'])
    if rng.random() < 0.12:
        st += rng.choice(['  # trailing', '#c', ' #'])
    return st


def gen_script(rng):
    n = rng.choice([1, 1, 2, 2, 3, 4, 5])
    sep = rng.choice(['\n', '\n', '\n', '\n\n', '\r\n', '\n# c\n'])
    return sep.join(gen_statement(rng) for _ in range(n))


TOKEN_RE = re.compile(r'[A-Za-z_][A-Za-z_0-9.]*|\d+|\s+|.', re.S)


def mutate(rng, s):
    toks = TOKEN_RE.findall(s) or ['']
    k = rng.choice([1, 1, 1, 2, 3])
    for _ in range(k):
        r = rng.random()
        i = rng.randrange(len(toks)) if toks else 0
        if r < 0.25 and toks:
            del toks[i]
        elif r < 0.45 and toks:
            toks.insert(i, toks[i])
        elif r < 0.6 and len(toks) > 1:
            j = rng.randrange(len(toks))
            toks[i], toks[j] = toks[j], toks[i]
        elif r < 0.85:
            toks.insert(i, rng.choice(['(', ')', '[', ']', '{', '}', '{', '}', '<', '>', '`', '```', '\n```\n', '=', '#', "'", '"', '\n', ' ',
                                       '{}', '{{', '}}', '{0}', '{:}', '{!r}', '{[0]}', '{.x}', '{:5}', '{:>8}', '{!s}', '{!a}', '{0:4611686018427387904}', '{:99999999999}', '{:.3}', '{0.upper}', '{0[0]}', '{:{}}', ':', '!', ';', '\x00', '\x0c', '\x85', '\xa0', '\xe9', '\\']))
        else:
            toks.insert(i, rng.choice(ALPHABET))
        if not toks:
            toks = ['']
    return ''.join(toks)


# --------------------------------------------------------------------------- reference transcription (debugging aid)
class _PErr(Exception):
    def __init__(self, cls):
        self.cls = cls


class _Unmodelled(Exception):
    pass


def _tables():
    import keyword
    sp = {chr(i) for i in range(256) if re.fullmatch(r'\s', chr(i))}
    wd = {chr(i) for i in range(256) if re.fullmatch(r'\w', chr(i))}
    ps = {chr(i) for i in range(256) if chr(i).strip() == ''}
    return list(keyword.kwlist), sp, wd, ps


_KW, _SP, _WD, _PS = _tables()
_ALPHA = set('_ABCDEFGHIJKLMNOPQRSTUVWXYZabcdefghijklmnopqrstuvwxyz')
_DIG = set('0123456789')
_TYPE_ORDER = ['VARIABLE', 'EXOGENOUS', 'ENDOGENOUS', 'PARAMETER', 'ERROR', 'FUNCTION', 'KEYWORD', 'VERBATIM', 'INVALID']
_REPL = {'exp': 'np.exp', 'log': 'np.log', 'max': 'max', 'min': 'min'}


def _run(s, p, pred):
    while p < len(s) and pred(s[p]):
        p += 1
    return p


def _find_on_line(s, p, ch):
    while p < len(s):
        if s[p] == ch:
            return p
        if s[p] == '\n':
            return None
        p += 1
    return None


def _strip(s, cls):
    a = 0
    while a < len(s) and s[a] in cls:
        a += 1
    b = len(s)
    while b > a and s[b - 1] in cls:
        b -= 1
    return s[a:b]


def _index_group(s, p):
    if p >= len(s) or s[p] != '[':
        return None
    r = s.find(']', p + 1)
    if r < 0:
        return None
    inner = _strip(s[p + 1:r], _SP)
    if '\n' in inner:
        return None
    return (r + 1, inner)


def _match_at(s, p):
    n = len(s)
    c = s[p]
    isidc = lambda ch: ch in _ALPHA or ch in _DIG        # noqa: E731
    if c == '`' and p + 1 < n and s[p + 1] != '\n':
        q = _find_on_line(s, p + 2, '`')
        if q is not None:
            return (q + 1, 'VERBATIM', s[p:q + 1], None)
    for k in _KW:
        if s.startswith(k, p):
            q = _run(s, p + len(k), lambda ch: ch in _SP)
            if q < n and s[q] == '[':
                r = _find_on_line(s, q + 1, ']')
                if r is not None:
                    return (r + 1, 'INVALID', s[p:r + 1], None)
    if p == 0 or s[p - 1] not in _WD:
        for k in _KW:
            if s.startswith(k, p) and (p + len(k) == n or s[p + len(k)] not in _WD):
                return (p + len(k), 'KEYWORD', k, None)
    if c in _ALPHA:
        e = _run(s, p, lambda ch: isidc(ch) or ch == '.')
        q = _run(s, e, lambda ch: ch in _SP)
        if q < n and s[q] == '(':
            return (q, 'FUNCTION', s[p:e], None)
    for op, cl, kind in (('{', '}', 'PARAMETER'), ('<', '>', 'ERROR')):
        if c == op:
            a = _run(s, p + 1, lambda ch: ch in _SP)
            if a < n and s[a] in _ALPHA:
                e = _run(s, a, isidc)
                q = _run(s, e, lambda ch: ch in _SP)
                if q < n and s[q] == cl:
                    ig = _index_group(s, q + 1)
                    return (ig[0], kind, s[a:e], ig[1]) if ig else (q + 1, kind, s[a:e], None)
    if c in _ALPHA:
        e = _run(s, p, isidc)
        ig = _index_group(s, e)
        return (ig[0], 'VARIABLE', s[p:e], ig[1]) if ig else (e, 'VARIABLE', s[p:e], None)
    return None


def ref_scan(s):
    """[(start, end, kind, name, index)] — the model of term_re.finditer"""
    out = []
    p = 0
    while p < len(s):
        m = _match_at(s, p)
        if m is None:
            p += 1
        else:
            out.append((p,) + m)
            p = m[0]
    return out


def ref_stmt_ok(s):
    n = len(s)
    eol = lambda p: p == n or s[p] == '\n'          # noqa: E731
    for p in [0] + [i + 1 for i, c in enumerate(s) if c == '\n']:
        if p >= n:
            continue
        if s.startswith('```', p):
            b = _run(s, p, lambda ch: ch == '`')
            if b < n and s[b] == '\n':
                for e in range(b + 4, n + 1):
                    if eol(e) and s[e - 3:e] == '```':
                        return True
        if s[p] == '(':
            j = s.find('=', p + 1)
            if j >= 0 and any(s[r] == ')' and eol(r + 1) for r in range(j + 1, n)):
                return True
        if s[p] not in _SP:
            i = _run(s, p, lambda ch: ch not in _SP)
            if '=' in s[p + 1:i]:
                return True
            i2 = _run(s, i, lambda ch: ch in _SP)
            if i2 < n and s[i2] == '=':
                return True
    return False


def ref_split_iter(model):
    unmatched = 0
    complete = True
    buf = []
    for raw in model.splitlines():
        h = raw.find('#')
        line = raw if h < 0 else raw[:h].rstrip()
        buf.append(line)
        if line.startswith('```'):
            if len(buf) == 1:
                complete = False
                continue
            complete = True
        for ch in line:
            if ch == '(':
                unmatched += 1
            elif ch == ')':
                unmatched -= 1
            if unmatched < 0:
                raise _PErr('ParserError')
        if unmatched == 0 and complete:
            eq = '\n'.join(buf)
            if eq.strip():
                if not ref_stmt_ok(eq):
                    raise _PErr('IndentationError' if ref_stmt_ok(eq.strip()) else 'ParserError')
                yield eq
            buf = []
    if not complete:
        raise _PErr('ParserError')       # 85765d5: a fence that is never closed
    if unmatched != 0:
        raise _PErr('ParserError')


def ref_py_int(txt):
    t = _strip(txt, _PS)
    if re.fullmatch(r'[+-]?[0-9]+(_[0-9]+)*', t) and sum(ch in _DIG for ch in t) <= 4300:    # sys.get_int_max_str_digits()
        return int(t)
    raise _PErr('ParserError')


def _mk_term(kind, name, idx):
    if kind in ('FUNCTION', 'KEYWORD'):
        return (name, kind, None)
    if idx is None:
        return (name, kind, 0)
    if (idx.startswith("'") and idx.endswith("'")) or (idx.startswith('"') and idx.endswith('"')):
        return (name, kind, idx)
    if idx.startswith('`') and idx.endswith('`'):
        return (name, kind, idx[1:-1])
    return (name, kind, ref_py_int(idx))


def _term_str(t):
    name, kind, idx = t
    if kind in ('FUNCTION', 'KEYWORD', 'VERBATIM'):
        return name
    if isinstance(idx, int):
        return name + ('[t+%d]' % idx if idx > 0 else '[t]' if idx == 0 else '[t%d]' % idx)
    return '%s[%s]' % (name, idx)


def _term_code(t):
    name, kind, idx = t
    code = _term_str(t)
    if kind in ('FUNCTION', 'KEYWORD'):
        return _REPL.get(code, code)
    if kind == 'VERBATIM':
        return code.strip('`')
    if isinstance(idx, str):
        return "self['%s', %s]" % (name, idx)
    return 'self._' + code


def ref_py_format(tpl, args):
    """-> text; raises _PErr('ParserError') on certain failure, _Unmodelled when the model does not decide"""
    out = []
    i = 0
    n = len(tpl)
    k = 0
    num = None
    fail = _PErr('ParserError')

    def first_part(F):
        j = 0
        while j < len(F) and F[j] not in '.[:!':
            j += 1
        return F[:j], F[j:]
    isdig = lambda x: x != '' and all(ch in _DIG for ch in x)     # noqa: E731
    while i < n:
        c = tpl[i]
        if c == '{':
            if i + 1 >= n:
                raise fail
            if tpl[i + 1] == '{':
                out.append('{')
                i += 2
                continue
            if tpl[i + 1] == '}':
                if num == 'm' or k >= len(args):
                    raise fail
                out.append(args[k])
                k += 1
                num = 'a'
                i += 2
                continue
            j = i + 1
            while j < n and tpl[j] not in '{}':
                j += 1
            F = tpl[i + 1:j]
            fp, rest = first_part(F)
            if j >= n:
                raise fail
            if tpl[j] == '{':
                if fp and not isdig(fp):
                    raise fail
                raise _Unmodelled()
            if isdig(F):
                if num == 'a' or int(F) >= len(args):
                    raise fail
                out.append(args[int(F)])
                num = 'm'
            elif fp == '':
                if num == 'm' or k >= len(args):
                    raise fail
                raise _Unmodelled()
            elif isdig(fp):
                if num == 'a' or int(fp) >= len(args):
                    raise fail
                raise _Unmodelled()
            else:
                raise fail
            i = j + 1
            continue
        if c == '}':
            if i + 1 < n and tpl[i + 1] == '}':
                out.append('}')
                i += 2
                continue
            raise fail
        out.append(c)
        i += 1
    return ''.join(out)


def _combine(a, b):
    (n1, t1, lg1, ld1, e1, c1), (n2, t2, lg2, ld2, e2, c2) = a, b
    t = t1
    if t1 != t2:
        ok = ('VARIABLE', 'EXOGENOUS', 'ENDOGENOUS')
        if t1 not in ok or t2 not in ok:
            raise _PErr('SymbolError')
        t = max(t1, t2, key=_TYPE_ORDER.index)

    def res(x, y, f):
        if x is None and y is None:
            return None
        if isinstance(x, int) and isinstance(y, int):
            return f(x, y, 0)
        if isinstance(x, str) and isinstance(y, str):
            return 0
        if isinstance(x, int) and isinstance(y, str):
            return x
        if isinstance(x, str) and isinstance(y, int):
            return y
        raise _PErr('TypeError')

    def rs(o, nw):
        if o is not None and nw is not None:
            if o != nw:
                raise _PErr('ParserError')
            return o
        return nw if o is None else o
    return (n1, t, res(lg1, lg2, min), res(ld1, ld2, max), rs(e1, e2), rs(c1, c2))


def ref_parse_equation(eq):
    if not eq.strip():
        return []
    if len(list(ref_split_iter(eq))) != 1:
        raise _PErr('ParserError')
    if eq.startswith('`') and eq.endswith('`'):
        return [(None, 'VERBATIM', None, None, eq, eq.strip('`\r\n'))]
    if eq.count('{') != eq.count('}'):
        raise _PErr('ParserError')
    j = eq.find('=')
    if j < 0:
        raise _PErr('ValueError')

    def side(txt, newtype):
        ts = [_mk_term(kind, name, idx) for (_, _, kind, name, idx) in ref_scan(txt)]
        return [(n, newtype if k == 'VARIABLE' else k, i) for (n, k, i) in ts]
    lhs = side(eq[:j], 'ENDOGENOUS')
    rhs = side(eq[j + 1:], 'EXOGENOUS')
    if any(k == 'KEYWORD' for _, k, _ in lhs) or any(k == 'INVALID' for _, k, _ in rhs):
        raise _PErr('ParserError')
    if not any(k == 'ENDOGENOUS' for _, k, _ in lhs):
        raise _PErr('ParserError')
    terms = lhs + rhs
    tpl = eq
    for (s0, e0, *_r) in reversed(ref_scan(eq)):
        tpl = tpl[:s0] + '{}' + tpl[e0:]
    tpl = re.sub(r'\s+', ' ', tpl)
    tpl = re.sub(r'\(\s+', '(', tpl)
    tpl = re.sub(r'\s+\)', ')', tpl)
    equation = ref_py_format(tpl, [_term_str(t) for t in terms])
    code = ref_py_format(tpl, [_term_code(t) for t in terms])
    syms = {}
    funcs = {}
    for (name, kind, idx) in terms:
        if kind == 'VERBATIM':
            continue
        sym = (name, kind, idx, idx, None, None)
        if kind == 'FUNCTION':          # b45daa1: combined like every other symbol
            syms[name] = _combine(syms.get(name, sym), sym)
            continue
        if kind == 'ENDOGENOUS':
            sym = (name, kind, idx, idx, equation, code)
        syms[name] = _combine(syms.get(name, sym), sym)
    return list(syms.values())


def ref_line(model):
    """reference transcription of parse_model(check_syntax=False) -> canonical line"""
    try:
        per = [ref_parse_equation(st) for st in ref_split_iter(model)]
        syms = {}
        verb = []
        for s in (x for l in per for x in l):
            if s[0] is None:
                verb.append(s)
            else:
                syms[s[0]] = _combine(syms.get(s[0], s), s)
        out = list(syms.values()) + verb
        return 'O:' + ';'.join('|'.join([enc_opt(n), t, enc_idx(lg), enc_idx(ld), enc_opt(e), enc_opt(c)]) for (n, t, lg, ld, e, c) in out)
    except _PErr as e:
        return 'E:' + e.cls
    except _Unmodelled:
        return 'U'


def md5_lines(lines):
    return hashlib.md5(('\n'.join(lines) + '\n').encode('latin-1') if lines else b'').hexdigest()
