"""Shared by C10 / C12: span specifications, label encoding (JSON <-> Python object <-> Coq term), container
construction on the real fsic, recording of pandas' answers (the oracle the Coq model takes as a Section variable)."""
import lib

# --------------------------------------------------------------------------- labels
# JSON code of a label:  ['i', n]  int      ['b', true]  bool      ['f', x]  float (integral or k + 0.5)
#                        ['s', 'ab'] str    ['p', a, b]  tuple (a, b) of ints      ['none']  None
#                        ['per', 'Q', ordinal]  pandas Period      ['ts', ns]  pandas Timestamp
#                        ['d64', 'ns' | 'D', n]  numpy.datetime64 (element of a datetime64 array span)      ['f', 'nan']  float NaN
FREQ_CODE = {'Y': 1, 'Q': 2, 'M': 3}
EXN = {'ValueError': 'ValueError', 'IndexError': 'IndexError', 'KeyError': 'KeyError', 'AttributeError': 'AttributeError',
       'TypeError': 'TypeError', 'NotImplementedError': 'NotImplementedError', 'DimensionError': 'DimensionError',
       'OverflowError': 'OverflowError'}


def dec_label(j):
    k = j[0]
    if k == 'i':
        return int(j[1])
    if k == 'b':
        return bool(j[1])
    if k == 'f':
        return float(j[1])
    if k == 's':
        return str(j[1])
    if k == 'd64':
        import numpy as np
        return np.datetime64(int(j[2]), j[1])
    if k == 'p':
        return (int(j[1]), int(j[2]))
    if k == 'none':
        return None
    import pandas as pd
    if k == 'per':
        return pd.Period(ordinal=int(j[2]), freq=j[1])
    if k == 'ts':
        return pd.Timestamp(int(j[1]))
    raise AssertionError(j)


def enc_label(x):
    """Python object -> JSON code (inverse of dec_label on the modelled label types)."""
    import numpy as np
    import pandas as pd
    if x is None:
        return ['none']
    if isinstance(x, np.datetime64):
        unit = np.datetime_data(x.dtype)[0]
        return ['d64', unit, int(x.astype('int64'))]
    if isinstance(x, (bool, np.bool_)):
        return ['b', bool(x)]
    if isinstance(x, (int, np.integer)):
        return ['i', int(x)]
    if isinstance(x, (float, np.floating)):
        return ['f', float(x)] if x == x else ['f', 'nan']
    if isinstance(x, str):
        return ['s', str(x)]
    if isinstance(x, tuple) and len(x) == 2:
        return ['p', int(x[0]), int(x[1])]
    if isinstance(x, pd.Period):
        return ['per', x.freqstr[0], int(x.ordinal)]
    if isinstance(x, pd.Timestamp):
        return ['ts', int(x.value)]
    raise AssertionError(repr(x))


def canon(j):
    """Canonical form under Python equality (1 == True == 1.0): the key the direct oracles compare labels with."""
    k = j[0]
    if k in ('i', 'b'):
        return ('n', 2 * int(j[1]))
    if k == 'f':
        return ('nan',) if j[1] == 'nan' or j[1] != j[1] else ('n', int(round(2 * float(j[1]))))
    if k == 'per':
        return ('per', j[1], int(j[2]))
    return tuple(j)


_STRS = {}


def reset_strings():
    _STRS.clear()


def c_str(s):
    """Strings go through a table of constants defined once in the preamble (string literals parse slowly)."""
    if s not in _STRS:
        _STRS[s] = 'str_%d' % len(_STRS)
    return _STRS[s]


def string_table():
    return ''.join('Definition %s : string := %s%%string.\n' % (name, lib.cstring(s)) for s, name in sorted(_STRS.items(), key=lambda kv: int(kv[1][4:])))


def c_label(j):
    k = j[0]
    if k == 'i':
        return '(LInt %s)' % lib.cZ(j[1])
    if k == 'b':
        return '(LInt %d)' % (1 if j[1] else 0)
    if k == 'f':
        t = 2 * float(j[1])
        assert t == int(t), j
        t = int(t)
        return '(LInt %s)' % lib.cZ(t // 2) if t % 2 == 0 else '(LHalf %s)' % lib.cZ((t - 1) // 2)
    if k == 's':
        return '(LStr %s)' % c_str(j[1])
    if k == 'p':
        return '(LPair %s %s)' % (lib.cZ(j[1]), lib.cZ(j[2]))
    if k == 'none':
        return 'LNone'
    if k == 'per':
        return '(LPer %d %s)' % (FREQ_CODE[j[1]], lib.cZ(j[2]))
    if k == 'd64':
        # an element / label of a datetime64 array: [ns] is the class whose object cast is an int (LTs in an SArr); [D] casts to a date
        return '(LTs %s)' % lib.cZ(j[2]) if j[1] == 'ns' else '(LPer 9 %s)' % lib.cZ(j[2])
    if k == 'ts':
        return '(LTs %s)' % lib.cZ(j[1])
    raise AssertionError(j)


def c_olabel(j):
    return 'None' if j is None else '(Some %s)' % c_label(j)


def c_oZ(z):
    return 'None' if z is None else '(Some %s)' % lib.cZ(z)


# --------------------------------------------------------------------------- spans
# {'type': 'range', 'start': a, 'step': s, 'n': n}      {'type': 'list' | 'tuple' | 'nparr' | 'pdindex', 'labels': [codes]}
# {'type': 'period', 'freq': 'Y'|'Q', 'start': ordinal, 'n': n}      {'type': 'datetime', 'freq': 'D'|'MS', 'start': ns, 'n': n}
def build_span(spec):
    t = spec['type']
    if t == 'range':
        return range(spec['start'], spec['start'] + spec['step'] * spec['n'], spec['step'])
    if t == 'list':
        return [dec_label(x) for x in spec['labels']]
    if t == 'tuple':
        return tuple(dec_label(x) for x in spec['labels'])
    import numpy as np
    if t == 'nparr':
        return np.array([dec_label(x) for x in spec['labels']])
    if t == 'nparr_dt64':
        return np.array([spec['start'] + spec['step'] * i for i in range(spec['n'])], dtype='int64').astype('datetime64[%s]' % spec['unit'])
    import pandas as pd
    if t == 'pdindex':
        return pd.Index([dec_label(x) for x in spec['labels']])
    if t == 'period':
        return pd.period_range(start=pd.Period(ordinal=spec['start'], freq=spec['freq']), periods=spec['n'], freq=spec['freq'])
    if t == 'datetime':
        return pd.date_range(start=pd.Timestamp(spec['start']), periods=spec['n'], freq=spec['freq'])
    raise AssertionError(spec)


_LABEL_CACHE = {}


def span_labels(spec):
    """JSON codes of the span's labels, in order (pandas spans: computed with pandas in the calling process)."""
    t = spec['type']
    if t == 'range':
        return [['i', spec['start'] + spec['step'] * i] for i in range(spec['n'])]
    if t in ('list', 'tuple', 'nparr', 'pdindex'):
        return [list(x) for x in spec['labels']]
    if t == 'nparr_dt64':
        return [['d64', spec['unit'], spec['start'] + spec['step'] * i] for i in range(spec['n'])]
    key = lib.jhash(spec)
    if key not in _LABEL_CACHE:
        _LABEL_CACHE[key] = [enc_label(x) for x in build_span(spec)]
    return _LABEL_CACHE[key]


def is_pandas(spec):
    return spec['type'] in ('pdindex', 'period', 'datetime')


def c_span(spec):
    t = spec['type']
    if t == 'range':
        return '(SRange %s %s %d%%nat)' % (lib.cZ(spec['start']), lib.cZ(spec['step']), spec['n'])
    labs = lib.clist(c_label(x) for x in span_labels(spec))
    return '(%s %s)' % ({'list': 'SList', 'tuple': 'SList', 'nparr': 'SArr', 'nparr_dt64': 'SArr'}.get(t, 'SPandas'), labs)


def span_len(spec):
    return spec['n'] if 'n' in spec else len(spec['labels'])


# --------------------------------------------------------------------------- pandas' recorded answers
def record_pandas(span, labels):
    """For a pandas span: what get_loc / __contains__ answer for each label code (the model's oracle)."""
    out = []
    seen = set()
    for j in labels:
        if j is None or repr(j) in seen:
            continue
        seen.add(repr(j))
        x = dec_label(j)
        try:
            r = span.get_loc(x)
            if isinstance(r, slice):
                if r.step is None and r.start is not None and r.stop is not None:
                    ans = ['slice', int(r.start), int(r.stop)]
                else:
                    ans = ['other', repr(r)]
            elif hasattr(r, '__index__'):
                ans = ['pos', int(r), isinstance(r, int)]
            else:
                ans = ['other', type(r).__name__]
        except Exception as e:
            ans = ['raise', type(e).__name__]
        try:
            inn = bool(x in span)
        except Exception as e:
            inn = ['raise', type(e).__name__]
        out.append([j, ans, inn])
    return out


def c_tables(rec):
    """-> (Coq list (label * loc), Coq list (label * bool)); answers the model cannot represent are left out
    (lookups of them then raise KeyError in the model; the caller excludes such cases)."""
    locs, ins = [], []
    for j, ans, inn in rec:
        if ans[0] == 'pos':
            locs.append('(%s, LPos %s %s)' % (c_label(j), lib.cZ(ans[1]), lib.cbool(ans[2])))
        elif ans[0] == 'slice':
            locs.append('(%s, LSlice %s %s)' % (c_label(j), lib.cZ(ans[1]), lib.cZ(ans[2])))
        if isinstance(inn, bool):
            ins.append('(%s, %s)' % (c_label(j), lib.cbool(inn)))
    return lib.clist(locs), lib.clist(ins)


def unrepresentable(rec):
    return any(ans[0] == 'other' or not isinstance(inn, bool) for _, ans, inn in rec)


def c_exn(name):
    return EXN.get(name, 'OtherError')


# --------------------------------------------------------------------------- values
def cval(x):
    """NumPy / Python scalar -> JSON value: ints for integral numbers, lib.fhex strings otherwise, bool / str as they are."""
    import numpy as np
    if isinstance(x, (bool, np.bool_)):
        return bool(x)
    if isinstance(x, (int, np.integer)):
        return int(x)
    if isinstance(x, (float, np.floating)):
        x = float(x)
        return int(x) if x == x and abs(x) < 2 ** 52 and x == int(x) else lib.fhex(x)
    if isinstance(x, str):
        return str(x)
    if x is None:
        return None
    return {'obj': type(x).__name__}


def clist_vals(a):
    return [cval(x) for x in a]
