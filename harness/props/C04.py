"""C04 — solving a period touches only that period; reads never wrap round the span; infeasible periods are
rejected; rejected calls change nothing.

Implementation side: REAL parser-built models (fsic.build_model(fsic.parse_model(script))) with a recording ndarray in
every model.__dict__['_X'], driven through the real _evaluate / solve_t / solve.
Model side: the real generated code is translated (fail-closed, harness/evalmodel.py) into the Coq AST of
coq/Eval/Eval.v; Eval.eval_pass / Eval.solve_seq_M (= Solver.solve_t_M with ev := eval_pass) run inside Coq on PrimFloat
and are compared bit for bit (values, status, iterations, outcome, hook events, per-pass access sequence)."""
import atexit
import copy
import itertools
import math
import os
import shutil
import sys
import tempfile

import lib
import evalmodel as em
from props import solver_common as sc

ID = 'C04'
PROPS_FILE = 'Props/C04.v'
MODEL_FILES = ['Solver/Solver.v', 'Solver/SolverF.v', 'Eval/Eval.v', 'Eval/EvalF.v', 'Fortran/FSolve.v', 'Solver/SolveAll.v',
               'Eval/EvalSolveAll.v', 'Eval/EvalK2.v', 'Linker/Linker.v', 'Eval/EvalLinker.v', 'Eval/EvalK3.v']
PREAMBLE2 = em.PREAMBLE + 'Require Fsic.Fortran.FSolve Fsic.Linker.Linker.\nRequire Import Fsic.Eval.EvalK2 Fsic.Eval.EvalK3.\n'
K_NAME = ('K_access (Eval.eval_pass / Eval.solve_seq_M on PrimFloat vs the real generated _evaluate, solve_t and solve of '
          'parser-built models: values, status, iterations, outcome, hook events, access sequence of every pass; second engine: '
          'Fortran/FSolve.w_solve_t vs the real FortranEngine.solve_t over gfortran-compiled code on every call that ends before '
          'the compiled loop: infeasible period, bad min/max_iter, out-of-span offset, pre-existing non-finite values; linkers: '
          'Linker.linker_solve_t_M with the generated pass of every submodel vs BaseLinker.solve_t; label entry points: '
          'SolveAll.solve_period_M / solve_M with SolveAllSpan.locate_span vs solve_period / solve on list, tuple, range, NumPy-array '
          'and pandas-Index spans.  K is deliberately STRICTER than the oracle: it compares the exact access sequence of every pass, '
          'which of several applicable up-front rejections wins, and the class of the chained exception; a rewrite that preserves the '
          'property but changes one of these surfaces as `no-failing-input-found`, never as an oracle failure)')
RULE = ('C01-grammar scripts (1-3 equations, lags/leads <= 3, parameters, errors, nested + - * / **, unary minus, max/min/abs, '
        'conditional expressions with and/or/not, exp/log, occasionally an indexed left-hand side) x span lengths '
        'LAGS+LEADS+1 .. +4 x (a) _evaluate(t) at every t in both spellings, wrapped ones included, (b) solve_t(t) at every '
        't in both spellings incl. the infeasible ones, with and without offset (in / out of span), min/max_iter guard, '
        'pre-existing NaN/inf, all error modes, (c) solve() for every start/end choice incl. defaults (model side: the entry-point '
        'model SolveAll.solve_M incl. iter_periods), (d) the Fortran engine (gfortran-compiled) for solve_t at every t in both '
        'spellings and solve(): oracle on all, K on the calls that end before the compiled loop. '
        'Label entry points: solve_period(label) at every position and for an unknown label, solve(start=, end=) by labels, on list / '
        'tuple / range / NumPy-array / pandas-Index spans with integer labels (model side: SolveAllSpan.locate_span). Lags / leads up '
        'to 11 / 10. Linkers: BaseLinker.solve_t over two instances of the class at every t in both spellings, every selection of submodels '
        '(oracle: rejections change nothing, frame per submodel, reads in span; K: Linker.linker_solve_t_M with the generated pass). '
        'Pre-solve setup histories through the public API: one variable\'s whole series assigned to another (model.X = model.Y, '
        'model[\'X\'] = model.Y), one external ndarray assigned to two variables, optionally copy() / reindex() afterwards, then the '
        'usual calls (the model sees values only: shared storage shows as a cell no equation assigns). About half of all calls run on objects solved before (status . F E S, iterations >= 0), so a rejected call that touches status / iterations is seen; histories also poison a check cell of a solved period and ask for it again. Histories: 3-6 steps over up to three instances of one class created at different moments — solve_t calls with '
        'independent options (offsets in / just outside the span, both spellings of t), rejected calls, in-place edits of the '
        'instance lists endogenous / check — each call judged and compared on its own, the other instances and the class lists '
        'checked after every step. Syntax variants of the documented grammar: X[+1], X[ -1 ], { a }, < e >, keyword-prefixed names (is_open, Pin, not_X), '
        'comments, multi-line parenthesised statements, np.sqrt (oracle only: outside the translated fragment). model.lags / '
        'model.leads assigned by the user after construction, raised (oracle + K) and lowered (K only: the user redefines the model\'s lags). thorough adds: '
        'exhaustive space of all programs of <= 2 equations with <= 2 right-hand terms over 4 names and offsets -1..1. '
        'Non-trivial = at least one evaluation pass executed on the real model or an up-front rejection observed; distinct '
        'by hash of the whole case.')
TRUSTED = ['harness/evalmodel.py: ast-based translator of the generated _evaluate body into the Coq AST (fail-closed), recording '
           'ndarray subclass, probe subclass of the generated class',
           'NumPy index normalisation (index i < 0 is served at i + len) is how "position served" is derived from the recorded index',
           'oracle table for np.exp / np.log / ** values (no kernel primitive): recorded by a reference evaluation of each pass',
           'harness/fortran_ctypes.py + gfortran stand in for the f2py-built extension module of the Fortran engine (arguments passed as f2py passes them)']
ASSUMPTIONS = ['parser-built model without verbatim code; solve_t_before / solve_t_after are the template\'s `pass`',
               'every variable array has the span\'s length (container invariant, C09)',
               'the instance-level lags / leads are at least the deepest lag / furthest lead of the equations (C03)',
               't lies inside the span (-n <= t < n)',
               't is an int, not a bool (solve_t(True): bool is an int to Python but NumPy reads self._Y[True] as a mask, so every period is assigned and stamped — not a period position, outside the model where t : Z)',
               'a user who assigns model.lags / model.leads BELOW what the equations need has redefined the model\'s lags: outside the premise prog_lags <= lags d of the positive theorems (witness C04_lowered_instance_lags_refuted); such cases are judged by K and the frame clauses only',
               'entry-point theorems (solve / iter_periods, model Solver/SolveAll.v): every label of the span resolves to its own position (locate_ok; true of spans without repeated labels)',
               'Fortran engine (model Fortran/FSolve.v): the lags / leads compiled into the module are the instance-level ones; the values matrix is rectangular with one column per period']
EXHAUSTIVE = {'quick': False, 'thorough': True}
CASE_TIMEOUT = 30
MAX_PASSES_K = 3            # evaluation passes compared one by one (store before / after / exception / access sequence)
MAX_PASSES_TABLE = 60       # passes whose exp / log / ** calls are recorded for the whole-call comparison

# compiled Fortran engines (second engine of the property's quantifier) live in a per-run temporary directory
IN_WORKER = os.path.basename(sys.argv[0] if sys.argv else '') == 'worker.py'
SO_ROOT = os.path.join(tempfile.gettempdir(), 'verif_c04_so')
SO_DIR = os.path.join(SO_ROOT, str(os.getppid() if IN_WORKER else os.getpid()))


def _cleanup():
    if not IN_WORKER:
        shutil.rmtree(SO_DIR, ignore_errors=True)      # only this run's own directory (other pids may live in another namespace)
        try:
            os.rmdir(SO_ROOT)
        except OSError:
            pass


atexit.register(_cleanup)

ENDO = ['Y', 'C', 'I']
EXO = ['X', 'G', 'W', 'is_open', 'Pin', 'not_X']      # incl. keyword-prefixed identifiers
PAR = ['a', 'b']
ERR = ['e']


# =========================================================================== script generator
class Prog:
    """a generated script together with what the generator knows about it (used by the oracle, never by the model)"""

    def __init__(self):
        self.lines = []
        self.eqs = []           # {'lhs': [name, k], 'reads': [[name, k], ...]}


def _term(name, k, kind='v', style=None):
    """style (right-hand sides only): 'plus' writes leads with an explicit sign (X[+1]), 'spaces' puts spaces inside the index
    brackets, the braces and the angle brackets (X[ -1 ], { a }, < e >) — all inside the documented syntax"""
    style = style or ()
    if k == 0:
        idx = ''
    else:
        txt = ('+%d' % k) if (k > 0 and 'plus' in style) else '%d' % k
        idx = '[ %s ]' % txt if 'spaces' in style else '[%s]' % txt
    sp = ' ' if 'spaces' in style else ''
    if kind == 'p':
        return '{%s%s%s}%s' % (sp, name, sp, idx)
    if kind == 'e':
        return '<%s%s%s>%s' % (sp, name, sp, idx)
    return name + idx


def gen_expr(rng, depth, ctx):
    """-> text; appends the (name, k) of every variable-like term to ctx['reads']"""
    L, Ld = ctx['L'], ctx['Ld']
    r = rng.random()
    if depth <= 0 or r < 0.28:
        q = rng.random()
        if q < 0.62:
            name = rng.choice(ctx['vars'])
            k = 0
            u = rng.random()
            if u < 0.45 and L:
                k = -rng.randint(1, L)
            elif u < 0.6 and Ld:
                k = rng.randint(1, Ld)
            ctx['reads'].append([name, k])
            return _term(name, k, 'v', ctx.get('style'))
        if q < 0.74:
            # parameters and errors carry lags / leads too (they count towards LAGS / LEADS like any variable)
            name = rng.choice(PAR)
            u = rng.random()
            k = -rng.randint(1, L) if (L and u < 0.25) else (rng.randint(1, Ld) if (Ld and u < 0.35) else 0)
            ctx['reads'].append([name, k])
            return _term(name, k, 'p', ctx.get('style'))
        if q < 0.8:
            u = rng.random()
            k = -rng.randint(1, L) if (L and u < 0.25) else (rng.randint(1, Ld) if (Ld and u < 0.35) else 0)
            ctx['reads'].append(['e', k])
            return _term('e', k, 'e', ctx.get('style'))
        return rng.choice(['0', '1', '2', '3', '0.5', '1.25', '2.0', '0.1', '10'])
    sub = lambda: gen_expr(rng, depth - 1, ctx)  # noqa: E731
    if r < 0.62:
        return '(%s %s %s)' % (sub(), rng.choice(['+', '+', '-', '-', '*', '*', '/']), sub())
    if r < 0.68:
        return '(-%s)' % sub()
    if r < 0.76:
        f = rng.choice(['max', 'min'])
        return '%s(%s)' % (f, ', '.join(sub() for _ in range(rng.choice([2, 2, 3]))))
    if r < 0.79:
        return 'abs(%s)' % sub()
    if r < 0.81:
        # a namespaced function: outside the translated fragment (K is skipped, the recorded accesses are still judged)
        return 'np.sqrt(abs(%s))' % sub()
    if r < 0.91:
        return '(%s if %s else %s)' % (sub(), gen_cond(rng, depth - 1, ctx), sub())
    if r < 0.96:
        return '%s(%s)' % (rng.choice(['exp', 'log']), sub())
    base = sub()
    if not any(ch in base for ch in 'YCIXGW'):       # a literal base would make CPython, not NumPy, compute the power
        name = rng.choice(ctx['vars'])
        ctx['reads'].append([name, 0])
        base = '(%s + %s)' % (base, name)
    return '(%s ** %s)' % (base, rng.choice(['2', '0.5', '3', '(-1)']))


def gen_cond(rng, depth, ctx):
    r = rng.random()
    if depth > 0 and r < 0.2:
        return '%s %s %s' % (gen_cond(rng, depth - 1, ctx), rng.choice(['and', 'or']), gen_cond(rng, depth - 1, ctx))
    if depth > 0 and r < 0.28:
        return 'not %s' % gen_cond(rng, depth - 1, ctx)
    return '%s %s %s' % (gen_expr(rng, max(depth - 1, 0), ctx), rng.choice(['<', '<=', '>', '>=', '==', '!=']), gen_expr(rng, max(depth - 1, 0), ctx))


def gen_prog(rng):
    p = Prog()
    L = rng.choice([0, 1, 1, 1, 2, 2, 3, 3, 5, 11])          # incl. two-digit lags / leads
    Ld = rng.choice([0, 0, 0, 1, 1, 2, 3, 4, 10])
    neq = rng.choice([1, 2, 2, 3])
    lhs_vars = rng.sample(ENDO, neq)
    nvars = lhs_vars + rng.sample(EXO, rng.randint(1, 3))
    style = rng.choice([(), (), (), ('plus',), ('spaces',), ('plus', 'spaces')])
    for y in lhs_vars:
        ctx = {'L': L, 'Ld': Ld, 'vars': nvars, 'reads': [], 'style': style}
        k = 0
        if rng.random() < 0.1 and (L or Ld):
            k = rng.choice([x for x in range(-L, Ld + 1) if x != 0])
        rhs = gen_expr(rng, rng.choice([1, 2, 2, 3]), ctx)
        if y == lhs_vars[-1] and rng.random() < 0.2:
            # the deepest lag / furthest lead of the whole script sits on a parameter or an error term ONLY
            nm, kind = rng.choice([('a', 'p'), ('b', 'p'), ('e', 'e')])
            kk = -(L + 1) if rng.random() < 0.5 else Ld + 1
            if abs(kk) <= 12:
                ctx['reads'].append([nm, kk])
                rhs = '%s + %s' % (rhs, _term(nm, kk, kind, style))
        u = rng.random()
        if u < 0.12:
            rhs = '(\n    %s\n)  # multi-line statement with a comment' % rhs
        elif u < 0.2:
            rhs = '%s  # trailing comment' % rhs
        p.lines.append('%s = %s' % (_term(y, k), rhs))
        p.eqs.append({'lhs': [y, k], 'reads': ctx['reads']})
    return p


def script_lags_leads(eqs):
    offs = [e['lhs'][1] for e in eqs] + [k for e in eqs for _, k in e['reads']]
    return max([0] + [-k for k in offs]), max([0] + offs)


def all_names(eqs):
    out = []
    for e in eqs:
        for nm in [e['lhs'][0]] + [r[0] for r in e['reads']]:
            if nm not in out:
                out.append(nm)
    return out


NICE = [0.0, 1.0, -1.0, 0.5, 2.0, 0.25, 3.0, -0.75, 1.5, 10.0, 0.1, 7.0, -2.5, 100.0, 1e-3]


def gen_data(rng, names, n, wild):
    data = {}
    for nm in names:
        row = []
        for _ in range(n):
            u = rng.random()
            if wild and u < 0.04:
                row.append(rng.choice([float('nan'), float('inf'), float('-inf')]))
            elif wild and u < 0.08:
                row.append(rng.choice([1e308, -1e308, 1e-308, 5e-324, 1e200]))
            elif u < 0.55:
                row.append(rng.choice(NICE))
            else:
                row.append(rng.uniform(-4, 8))
        data[nm] = [lib.fhex(x) for x in row]
    return data


def base_case(p, n, data, entry, t=0, **opts):
    o = dict(min_iter=0, max_iter=4, tol=lib.fhex(1e-10), offset=0, failures='ignore', errors='raise', catch_first_error=True)
    o.update(opts)
    return {'script': '\n'.join(p.lines), 'eqs': p.eqs, 'n': n, 'data': data, 'entry': entry, 't': t, 'opts': o,
            'start': None, 'end': None, 'status0': ['-'] * n, 'iters0': [-1] * n, 'min_lags': 0, 'min_leads': 0,
            'inst_lags': None, 'inst_leads': None}


def with_setup(rng, c, p, n):
    """a pre-solve setup history: one variable's whole series assigned to another (attribute / key form), or one external
    ndarray assigned to two variables; sometimes the object is then copied or reindexed onto its own span"""
    c = copy.deepcopy(c)
    names = all_names(p.eqs)
    lhs = [e['lhs'][0] for e in p.eqs]
    others = [nm for nm in names if nm not in lhs]
    if not others:
        return None
    y, x = rng.choice(lhs), rng.choice(others)
    u = rng.random()
    if u < 0.3:
        ops = [{'op': rng.choice(['attr', 'key']), 'dst': x, 'src': y}]            # model.YD_e = model.YD
    elif u < 0.55:
        ops = [{'op': rng.choice(['attr', 'key']), 'dst': y, 'src': x}]
    elif u < 0.85:
        vals = [lib.fhex(rng.choice(NICE)) for _ in range(n)]
        dsts = [y, x] if rng.random() < 0.5 else [x, y]
        if len(others) > 1 and rng.random() < 0.3:
            dsts.append(rng.choice([nm for nm in others if nm != x]))
        ops = [{'op': 'ext', 'dsts': dsts, 'vals': vals}]
    else:
        ops = [{'op': 'attr', 'dst': x, 'src': y}, {'op': 'key', 'dst': rng.choice(lhs), 'src': x}]
    v = rng.random()
    if v < 0.15:
        ops.append({'op': 'copy'})
    elif v < 0.3:
        ops.append({'op': 'reindex'})
    c['setup'] = ops
    return c


def with_instance_override(rng, c, L, Ld, n):
    """model.lags / model.leads assigned by the user after construction: RAISED (guard and default range must follow the
    instance attribute) or LOWERED below what the equations need (the user's own redefinition: judged by K only)"""
    c = copy.deepcopy(c)
    u = rng.random()
    if u < 0.6 or (L == 0 and Ld == 0):
        if rng.random() < 0.5:
            c['inst_lags'] = L + 1
        else:
            c['inst_leads'] = Ld + 1
        if (c['inst_lags'] if c['inst_lags'] is not None else L) + (c['inst_leads'] if c['inst_leads'] is not None else Ld) >= n:
            return None          # no solvable period left: iter_periods' own defaults would fall outside the span
    elif L > 0 and (Ld == 0 or rng.random() < 0.5):
        c['inst_lags'] = L - 1
    else:
        c['inst_leads'] = Ld - 1
    return c


def cases_for_program(rng, p, tier, heavy=True):
    cases = []
    L, Ld = script_lags_leads(p.eqs)
    names = all_names(p.eqs)
    lens = [L + Ld + 1 + d for d in range(4)]
    if not heavy:
        lens = [L + Ld + 1, L + Ld + 2] if len(p.eqs) == 1 else [L + Ld + 1 + (len(p.lines[0]) % 2)]
    for n in lens:
        wild = rng.random() < 0.25
        data = gen_data(rng, names, n, wild)
        # (a) _evaluate at every t, both spellings (wrapped reads included: the model must wrap exactly like NumPy)
        for t in range(-n, n):
            if rng.random() < (0.5 if heavy else 0.65):
                continue
            cases.append(base_case(p, n, data, 'evaluate', t, errors=rng.choice(['raise', 'raise', 'ignore']),
                                   catch_first_error=rng.random() < 0.6))
        # (b) solve_t at every t in both spellings
        for t in range(-n, n):
            c = base_case(p, n, data, 'solve_t', t, max_iter=rng.choice([1, 2, 3, 5]), failures=rng.choice(['raise', 'ignore']),
                          errors=rng.choice(['raise', 'raise', 'skip', 'ignore', 'replace']), catch_first_error=rng.random() < 0.6)
            cases.append(c)
            if not heavy:
                continue
            pp = t if t >= 0 else t + n
            u = rng.random()
            if u < 0.35:
                c2 = copy.deepcopy(c)
                c2['opts']['offset'] = rng.choice([-1, 1, -2, 2, -pp, n - 1 - pp, -pp - 1, n - pp, n, -n])
                if rng.random() < 0.4:
                    # pre-existing non-finite value in the period the offset copies from (finding #3 lives here)
                    q = pp + c2['opts']['offset']
                    if 0 <= q < n:
                        c2['data'] = copy.deepcopy(data)
                        c2['data'][p.eqs[0]['lhs'][0]][q] = rng.choice(['nan', 'inf', '-inf'])
                        c2['opts']['errors'] = 'raise'
                cases.append(c2)
            elif u < 0.5:
                c2 = copy.deepcopy(c)
                c2['opts']['min_iter'] = c2['opts']['max_iter'] + rng.choice([1, 2])
                if rng.random() < 0.5:      # rejected for min/max_iter although an (in- or out-of-span) offset is given
                    c2['opts']['offset'] = rng.choice([-1, 1, -1, 1, -pp - 1, n - pp])
                cases.append(c2)
            elif u < 0.65:
                c2 = copy.deepcopy(c)
                c2['data'] = copy.deepcopy(data)
                c2['data'][rng.choice(p.eqs)['lhs'][0]][pp] = rng.choice(['nan', 'inf', '-inf'])
                c2['opts']['errors'] = rng.choice(['raise', 'raise', 'skip', 'ignore'])
                cases.append(c2)
            elif u < 0.72:
                c2 = copy.deepcopy(c)
                c2['min_lags'] = L + rng.choice([0, 1])
                c2['min_leads'] = Ld + rng.choice([0, 1])
                cases.append(c2)
            elif u < 0.78:
                c2 = copy.deepcopy(c)
                c2['status0'] = [rng.choice(['-', '.', 'F', 'E', 'S']) for _ in range(n)]
                c2['iters0'] = [rng.randint(-1, 9) for _ in range(n)]
                cases.append(c2)
            elif u < 0.9:
                c2 = with_instance_override(rng, c, L, Ld, n)
                if c2 is not None:
                    cases.append(c2)
            elif u < 0.97:
                c2 = with_setup(rng, c, p, n)
                if c2 is not None:
                    cases.append(c2)
        # (b') a history: several calls on ONE instance, rejected ones in between (state must not leak between calls)
        if heavy:
            h = base_case(p, n, data, 'history', 0)
            h['steps'] = []
            exo_names = [nm for nm in names if nm not in [e['lhs'][0] for e in p.eqs]]
            lhs_names = [e['lhs'][0] for e in p.eqs]
            multi = rng.random() < 0.6
            for _ in range(rng.choice([3, 4, 5, 6])):
                on = rng.choice(['A', 'A', 'B']) if multi else 'A'
                v = rng.random()
                if multi and v < 0.25:
                    # in-place edit of an instance list: an exogenous name becomes `endogenous` / `check` for THAT instance only
                    lst = rng.choice(['endogenous', 'check'])
                    if rng.random() < 0.7 and exo_names:
                        h['steps'].append({'op': 'edit', 'on': on, 'list': lst, 'action': 'append', 'name': rng.choice(exo_names)})
                    else:
                        h['steps'].append({'op': 'edit', 'on': on, 'list': lst, 'action': 'remove', 'name': rng.choice(lhs_names)})
                    continue
                if multi and v < 0.32:
                    h['steps'].append({'op': 'new', 'on': rng.choice(['B', 'C'])})
                    continue
                t = rng.randrange(-n, n)
                pp = t if t >= 0 else t + n
                so = dict(h['opts'], max_iter=rng.choice([1, 2, 3]), failures='ignore',
                          errors=rng.choice(['raise', 'raise', 'skip', 'ignore', 'replace']), catch_first_error=rng.random() < 0.6)
                u = rng.random()
                if u < 0.35:
                    so['offset'] = rng.choice([-1, 1, -1, 1, -pp - 1, n - pp, -pp, n - 1 - pp])
                elif u < 0.45:
                    so['min_iter'] = so['max_iter'] + 1
                    so['offset'] = rng.choice([0, -1, 1])
                elif u < 0.5:
                    so['failures'] = 'raise'
                h['steps'].append({'op': 'solve_t', 'on': on, 't': t, 'opts': so})
                if rng.random() < 0.3:
                    # ... then a check value of that period turns NaN / inf and the same period is asked for again
                    h['steps'].append({'op': 'poison', 'on': on, 'name': rng.choice(lhs_names), 'pos': pp, 'val': rng.choice(['nan', 'inf', '-inf'])})
                    h['steps'].append({'op': 'solve_t', 'on': on, 't': rng.choice([t, pp, pp - n]), 'opts': dict(so, errors='raise', min_iter=0, offset=0)})
            cases.append(h)
        # (b'') a linker over two instances of the class: BaseLinker.solve_t at every t, both spellings
        if heavy and n in lens[:2]:
            dataB = gen_data(rng, names, n, wild)
            for t in range(-n, n):
                c = base_case(p, n, data, 'linker', t, max_iter=rng.choice([1, 2, 3]), failures=rng.choice(['raise', 'ignore']),
                              errors=rng.choice(['raise', 'skip', 'ignore', 'replace']), catch_first_error=rng.random() < 0.5)
                c['dataB'] = dataB
                c['sel'] = rng.choice([None, None, ['a'], ['b'], ['a', 'b'], ['b', 'a']])
                u = rng.random()
                if u < 0.1:
                    c['opts']['min_iter'] = c['opts']['max_iter'] + 1
                elif u < 0.3:
                    pp = t if t >= 0 else t + n
                    c['opts']['offset'] = rng.choice([-1, 1, -1, 1, -pp - 1, n - pp])       # honoured since fix 6298cba
                cases.append(c)
        # (b''') the LABEL entry points on every supported span type: solve_period(label) at every position and for a label
        # that is not in the span, solve(start=, end=) by labels — list / tuple / range / NumPy array / pandas Index
        if heavy and n == lens[1]:
            for kind in rng.sample(['list', 'tuple', 'range', 'array', 'index'], 2):
                base = rng.choice([0, 1, 1990, -3])
                labels = list(range(base, base + n))
                if kind != 'range' and rng.random() < 0.5:
                    labels = rng.sample(range(base, base + 3 * n), n)      # distinct, unordered
                for i in range(n):
                    c = base_case(p, n, data, 'solve_period', i, max_iter=rng.choice([1, 2, 3]), failures=rng.choice(['raise', 'ignore']),
                                  errors=rng.choice(['raise', 'skip', 'ignore', 'replace']), catch_first_error=rng.random() < 0.6)
                    c['span_kind'], c['labels'], c['label'] = kind, labels, None
                    if rng.random() < 0.25:
                        c['opts']['offset'] = rng.choice([-1, 1, -2, 2, -i, n - 1 - i, -i - 1, n - i])
                    cases.append(c)
                c = base_case(p, n, data, 'solve_period', 0, max_iter=2)
                c['span_kind'], c['labels'], c['label'] = kind, labels, min(labels) - 7
                cases.append(c)
                for a_, b_ in [(None, None)] + [(rng.choice([None] + list(range(n))), rng.choice([None] + list(range(n)))) for _ in range(3)]:
                    c = base_case(p, n, data, 'solve', 0, max_iter=rng.choice([1, 2]), failures='ignore', errors=rng.choice(['raise', 'skip', 'ignore']))
                    c['start'], c['end'], c['span_kind'], c['labels'] = a_, b_, kind, labels
                    cases.append(c)
        # (c) solve() for every start / end choice
        choices = [None] + list(range(n))
        pairs = list(itertools.product(choices, choices))
        if heavy:
            pairs = [(None, None)] + rng.sample(pairs, min(len(pairs), 6 if tier == 'quick' else 16))
        elif not heavy:
            pairs = [(None, None), (0, None), (None, n - 1)]
        for a, b in pairs:
            c = base_case(p, n, data, 'solve', 0, max_iter=rng.choice([1, 2, 4]), failures=rng.choice(['ignore', 'ignore', 'ignore', 'raise']),
                          errors=rng.choice(['raise', 'skip', 'ignore', 'replace']), catch_first_error=rng.random() < 0.5)
            if rng.random() < 0.25:
                c['opts']['min_iter'] = rng.randint(1, c['opts']['max_iter'])
            c['start'], c['end'] = a, b
            if heavy and rng.random() < 0.15:
                c['opts']['offset'] = rng.choice([-1, 1, -2, 2, -n, n - 1])
            if heavy and rng.random() < 0.05:
                c['opts']['min_iter'] = c['opts']['max_iter'] + 1
            if heavy and rng.random() < 0.12:
                c = with_instance_override(rng, c, L, Ld, n) or c
            elif heavy and rng.random() < 0.12:
                c = with_setup(rng, c, p, n) or c
            cases.append(c)
        # (d) the Fortran engine (frame / rejection / feasibility clauses; conditionals are not Fortran)
        if heavy and n in (lens[0], lens[2]) and ' if ' not in '\n'.join(p.lines):
            for t in range(-n, n):
                c = base_case(p, n, data, 'solve_t', t, max_iter=rng.choice([1, 2, 3]), failures='ignore',
                              errors=rng.choice(['raise', 'raise', 'skip', 'ignore', 'replace']))
                c['engine'] = 'fortran'
                cases.append(c)
                pp = t if t >= 0 else t + n
                u = rng.random()
                if u < 0.25:
                    c2 = copy.deepcopy(c)
                    c2['opts']['offset'] = rng.choice([-1, 1, -2, 2, -pp, n - 1 - pp, -pp - 1, n - pp])
                    cases.append(c2)
                elif u < 0.4:
                    c2 = copy.deepcopy(c)
                    c2['data'] = copy.deepcopy(data)
                    c2['data'][p.eqs[0]['lhs'][0]][pp] = rng.choice(['nan', 'inf'])
                    c2['opts']['errors'] = 'raise'
                    cases.append(c2)
                elif u < 0.5:
                    c2 = copy.deepcopy(c)
                    c2['opts']['min_iter'] = c2['opts']['max_iter'] + 1
                    if rng.random() < 0.5:
                        c2['opts']['offset'] = rng.choice([-1, 1])
                    cases.append(c2)
                elif u < 0.6:
                    c2 = with_instance_override(rng, c, L, Ld, n)
                    if c2 is not None:
                        cases.append(c2)
                elif u < 0.68:
                    c2 = with_setup(rng, c, p, n)
                    if c2 is not None:
                        cases.append(c2)
            fkind = rng.choice([None, None, 'range', 'array', 'index', 'tuple'])
            flabels = list(range(7, 7 + n))
            for a, b in [(None, None), (0, None), (None, n - 1)] + [(rng.choice([None] + list(range(n))), rng.choice([None] + list(range(n)))) for _ in range(2)]:
                c = base_case(p, n, data, 'solve', 0, max_iter=2, failures='ignore', errors=rng.choice(['raise', 'raise', 'skip', 'ignore', 'replace']))
                c['start'], c['end'], c['engine'] = a, b, 'fortran'
                if fkind:
                    c['span_kind'], c['labels'] = fkind, flabels
                if rng.random() < 0.3:
                    c['opts']['offset'] = rng.choice([-2, -1, 1, 2])
                if a is None and b is None and rng.random() < 0.3:
                    c = with_instance_override(rng, c, L, Ld, n) or c
                cases.append(c)
            # FortranEngine + solve_period(label) on every span type, every position and an unknown label
            if n == lens[2] or rng.random() < 0.3:
                kind = fkind or rng.choice(['list', 'range', 'array', 'index'])
                for i in list(range(n)) + [None]:
                    c = base_case(p, n, data, 'solve_period', i if i is not None else 0, max_iter=rng.choice([1, 2]), failures='ignore',
                                  errors=rng.choice(['raise', 'skip', 'ignore', 'replace']))
                    c['engine'], c['span_kind'], c['labels'], c['label'] = 'fortran', kind, flabels, (None if i is not None else 3)
                    if rng.random() < 0.25:
                        c['opts']['offset'] = rng.choice([-2, -1, 1, 2])
                    cases.append(c)
            # FortranEngine._evaluate(t): every t in both spellings and one step beyond each end of the span
            for t in range(-n - 1, n + 1):
                if rng.random() < 0.6:
                    c = base_case(p, n, data, 'evaluate', t)
                    c['engine'] = 'fortran'
                    cases.append(c)
    return cases


def with_solved_history(rng, cases):
    """a good share of ALL calls — the rejected ones above all — run on objects that have been solved before: status is '.', 'F',
    'E' or 'S' with iterations >= 0 at most periods (a fresh object hides a rejected call that resets status[t] / iterations[t])"""
    for c in cases:
        if c['entry'] == 'evaluate' or c['status0'] != ['-'] * c['n'] or rng.random() < 0.45:
            continue
        n = c['n']
        st = [rng.choice(['.', '.', '.', 'F', 'E', 'S', '-']) for _ in range(n)]
        c['status0'] = st
        c['iters0'] = [(-1 if x == '-' else rng.randint(0, 9)) for x in st]
    return cases


def exhaustive_programs():
    """all programs of <= 2 equations (left-hand sides Y, then Z) whose right-hand side is `T` or `T op T` over the
    4-name alphabet Y Z X {a} with offsets -1, 0, 1 on the variables (parameter unindexed), op in + *"""
    terms = [(nm, k, 'v') for nm in ('Y', 'Z', 'X') for k in (-1, 0, 1)] + [('a', 0, 'p')]
    rhss = [[t] for t in terms] + [[t1, op, t2] for t1 in terms for t2 in terms for op in ('+', '*')]

    def render(rhs):
        if len(rhs) == 1:
            return _term(*rhs[0]), [[rhs[0][0], rhs[0][1]]]
        return '%s %s %s' % (_term(*rhs[0]), rhs[1], _term(*rhs[2])), [[rhs[0][0], rhs[0][1]], [rhs[2][0], rhs[2][1]]]
    for r1 in rhss:
        p = Prog()
        txt, reads = render(r1)
        p.lines.append('Y = ' + txt)
        p.eqs.append({'lhs': ['Y', 0], 'reads': reads})
        yield p
    singles = [r for r in rhss if len(r) == 1]
    for r1 in rhss:
        for r2 in singles:
            p = Prog()
            t1, rd1 = render(r1)
            t2, rd2 = render(r2)
            p.lines += ['Y = ' + t1, 'Z = ' + t2]
            p.eqs += [{'lhs': ['Y', 0], 'reads': rd1}, {'lhs': ['Z', 0], 'reads': rd2}]
            yield p


def fixed_cases():
    """boundary cases that always run first"""
    out = []
    p = Prog()
    p.lines = ['Y = 0.5 * Y[-1] + X']
    p.eqs = [{'lhs': ['Y', 0], 'reads': [['Y', -1], ['X', 0]]}]
    data = {'Y': [lib.fhex(x) for x in (1.0, 2.0, 3.0, 4.0)], 'X': [lib.fhex(x) for x in (1.0, 1.0, 1.0, 1.0)]}
    for t in (0, -4, 1, -3, 3, -1):
        out.append(base_case(p, 4, data, 'solve_t', t, max_iter=3))
    out.append(base_case(p, 4, data, 'solve', 0))
    c = base_case(p, 4, data, 'solve', 0)
    c['start'] = 0
    out.append(c)
    # finding #3: offset copy precedes the pre-existing-NaN rejection
    d2 = copy.deepcopy(data)
    d2['Y'][1] = 'nan'
    out.append(base_case(p, 4, d2, 'solve_t', 2, offset=-1))
    # rejected for min_iter > max_iter with an in-span offset: nothing may have been copied
    out.append(base_case(p, 4, data, 'solve_t', 2, offset=-1, min_iter=1, max_iter=0))
    out.append(base_case(p, 4, data, 'solve_t', -2, offset=1, min_iter=3, max_iter=2))
    # the deepest lag / furthest lead carried by a parameter / an error term only
    r = Prog()
    r.lines = ['C = {a}[-2] * X[-1]']
    r.eqs = [{'lhs': ['C', 0], 'reads': [['a', -2], ['X', -1]]}]
    d3 = {'C': data['Y'], 'X': data['X'], 'a': [lib.fhex(x) for x in (2.0, 3.0, 4.0, 5.0)]}
    for t in (1, -3, 2, -2):
        out.append(base_case(r, 4, d3, 'solve_t', t, max_iter=2))
    out.append(base_case(r, 4, d3, 'solve', 0))
    r = Prog()
    r.lines = ['C = X + <e>[2]']
    r.eqs = [{'lhs': ['C', 0], 'reads': [['X', 0], ['e', 2]]}]
    d4 = {'C': data['Y'], 'X': data['X'], 'e': [lib.fhex(x) for x in (0.5, 0.25, 0.125, 1.0)]}
    for t in (2, -2, 3, -1, 1):
        out.append(base_case(r, 4, d4, 'solve_t', t, max_iter=2))
    out.append(base_case(r, 4, d4, 'solve', 0))
    # solved before (status '.', iterations >= 0), then a check value at t is NaN / inf: solve_t / solve_period / solve(start=end=t)
    # under errors='raise' are rejected and NOTHING changes — status[t] and iterations[t] included; likewise the other rejections
    for bad_value in ('nan', 'inf'):
        dn = copy.deepcopy(data)
        dn['Y'][2] = bad_value
        for mk in (lambda: base_case(p, 4, dn, 'solve_t', 2, max_iter=3), lambda: base_case(p, 4, dn, 'solve_t', -2, max_iter=3),
                   lambda: dict(base_case(p, 4, dn, 'solve', 0, max_iter=3), start=2, end=2),
                   lambda: dict(base_case(p, 4, dn, 'solve_period', 2, max_iter=3), span_kind='list', labels=[2000, 2001, 2002, 2003], label=None)):
            c = mk()
            c['status0'], c['iters0'] = ['-', '.', '.', 'F'], [-1, 3, 2, 4]
            out.append(c)
    for kw in (dict(t=0), dict(t=-4), dict(t=2, offset=2), dict(t=2, offset=-3), dict(t=2, min_iter=4, max_iter=3)):
        c = base_case(p, 4, data, 'solve_t', kw.pop('t'), **kw)
        c['status0'], c['iters0'] = ['.', '.', '.', 'S'], [1, 3, 2, 0]
        out.append(c)
    c = dict(base_case(p, 4, data, 'solve_period', 0), span_kind='list', labels=[2000, 2001, 2002, 2003], label=1999)
    c['status0'], c['iters0'] = ['.', '.', '.', '.'], [1, 3, 2, 5]
    out.append(c)
    # pre-solve setup histories: `model.X = model.Y` (attribute and key form), one external array for two variables, then solve
    for ops in ([{'op': 'attr', 'dst': 'X', 'src': 'Y'}], [{'op': 'key', 'dst': 'X', 'src': 'Y'}], [{'op': 'attr', 'dst': 'Y', 'src': 'X'}],
                [{'op': 'ext', 'dsts': ['Y', 'X'], 'vals': [lib.fhex(v) for v in (2.0, 3.0, 5.0, 7.0)]}],
                [{'op': 'ext', 'dsts': ['X', 'Y'], 'vals': [lib.fhex(v) for v in (2.0, 3.0, 5.0, 7.0)]}, {'op': 'copy'}],
                [{'op': 'attr', 'dst': 'X', 'src': 'Y'}, {'op': 'reindex'}]):
        for t in (2, -1):
            c = base_case(p, 4, data, 'solve_t', t, max_iter=3)
            c['setup'] = ops
            out.append(c)
        c = base_case(p, 4, data, 'solve', 0)
        c['setup'] = ops
        out.append(c)
    # histories over sibling instances: an in-place edit of one instance's lists must stay private to it, whether the sibling is
    # created before or after the edit; offsets in and just outside the span, both spellings of t
    dX = {'Y': data['Y'], 'X': [lib.fhex(x) for x in (1.0, 2.0, 3.0, 4.0)]}
    for first_new in (True, False):
        h = base_case(p, 4, dX, 'history', 0, max_iter=2, failures='ignore')
        o1 = dict(h['opts'], offset=-1)
        o2 = dict(h['opts'], offset=1)
        o3 = dict(h['opts'], offset=-3)
        h['steps'] = ([{'op': 'new', 'on': 'B'}] if first_new else []) + [
            {'op': 'edit', 'on': 'A', 'list': 'endogenous', 'action': 'append', 'name': 'X'},
            {'op': 'edit', 'on': 'A', 'list': 'check', 'action': 'append', 'name': 'X'},
            {'op': 'solve_t', 'on': 'B', 't': 2, 'opts': o1},
            {'op': 'solve_t', 'on': 'A', 't': -2, 'opts': o1},
            {'op': 'solve_t', 'on': 'C', 't': 2, 'opts': o2},
            {'op': 'solve_t', 'on': 'B', 't': -1, 'opts': o2},
            {'op': 'solve_t', 'on': 'A', 't': 2, 'opts': o3},
            {'op': 'edit', 'on': 'B', 'list': 'endogenous', 'action': 'remove', 'name': 'Y'},
            {'op': 'solve_t', 'on': 'B', 't': 1, 'opts': o2},
            {'op': 'solve_t', 'on': 'A', 't': 1, 'opts': o2}]
        out.append(h)
    # instance attribute set by the user: lowered (the user redefines the model's lags: K only) and raised (guard and default range follow it)
    for t in (0, -4, 1):
        c = base_case(p, 4, data, 'solve_t', t, max_iter=3)
        c['inst_lags'] = 0
        out.append(c)
    c = base_case(p, 4, data, 'solve', 0)
    c['inst_lags'] = 0
    out.append(c)
    for t in (1, -3, 2, -2):
        c = base_case(p, 4, data, 'solve_t', t, max_iter=3)
        c['inst_lags'] = 2
        out.append(c)
    for key in ('inst_lags', 'inst_leads'):
        c = base_case(p, 4, data, 'solve', 0)
        c[key] = 2 if key == 'inst_lags' else 1
        out.append(c)
    q = Prog()
    q.lines = ['Y = X[1] + Y[-1]']
    q.eqs = [{'lhs': ['Y', 0], 'reads': [['X', 1], ['Y', -1]]}]
    for t in range(-4, 4):
        out.append(base_case(q, 4, data, 'solve_t', t, max_iter=2))
        out.append(base_case(q, 4, data, 'evaluate', t))
    return out


def gen(rng, tier):
    cases = fixed_cases()
    nprog = 24 if tier == 'quick' else 110
    for _ in range(nprog):
        cases += with_solved_history(rng, cases_for_program(rng, gen_prog(rng), tier))
    if tier == 'thorough':
        for p in exhaustive_programs():
            cases += cases_for_program(rng, p, tier, heavy=False)
    return cases


# =========================================================================== implementation side
def impl_fortran(case):
    """Second engine: the generated Fortran, compiled with gfortran and driven through the REAL FortranEngine methods
    (harness/fortran_ctypes.py stands in for the f2py module).  Reads happen inside compiled code, so only the frame,
    rejection and feasibility clauses are observed (oracle only; the Coq model is of the Python engine)."""
    import numpy as np
    import fsic
    import fsic.fortran as FT
    import fortran_ctypes as fc
    try:
        symbols = fsic.parse_model(case['script'])
        Model = fsic.build_model(symbols, min_lags=case.get('min_lags', 0), min_leads=case.get('min_leads', 0))
        text = FT.build_fortran_definition(symbols, min_lags=case.get('min_lags', 0), min_leads=case.get('min_leads', 0))
    except Exception as e:
        return {'skip': 'build:' + type(e).__name__}
    try:
        eng = fc.Cache(SO_DIR).engine(text)
    except fc.CompileError as e:
        # a diagnosed rejection of the generated Fortran is C07's business; anything else gfortran may die of (killed, no space,
        # no compiler) says nothing about fsic either: a counted skip, never a verdict
        diagnosed = 'Error:' in str(e)
        return {'skip': ('fortran-compile: generated Fortran rejected by gfortran (C07\'s business)' if diagnosed
                         else 'fortran-unavailable: gfortran failed without a diagnosis (%s)' % str(e)[:60].replace('\n', ' '))}
    except Exception as e:       # noqa: BLE001  e.g. OSError from ctypes.CDLL when the temporary directory is mounted noexec
        return {'skip': 'fortran-unavailable: the compiled engine cannot be built or loaded here (%s: %s)' % (type(e).__name__, str(e)[:60])}
    names = list(Model.NAMES)

    class F(FT.FortranEngine, Model):
        ENGINE = eng
    n = case['n']
    span = make_span(case)
    m = F(span)
    for nm in names:
        if nm in case['data']:
            m.__dict__['_' + nm][:] = [lib.unhex(x) for x in case['data'][nm]]
    m = apply_setup(m, case)
    m.__dict__['_status'][:] = case['status0']
    m.__dict__['_iterations'][:] = case['iters0']
    if case.get('inst_lags') is not None:
        m.lags = case['inst_lags']
    if case.get('inst_leads') is not None:
        m.leads = case['inst_leads']
    before = em.snapshot(m, names)
    o = case['opts']
    kw = dict(min_iter=o['min_iter'], max_iter=o['max_iter'], tol=lib.unhex(o['tol']), offset=o['offset'],
              failures=o['failures'], errors=o['errors'])
    try:
        if case['entry'] == 'evaluate':
            m._evaluate(case['t'])
            out = ['ret', None]
        elif case['entry'] == 'solve_t':
            out = ['ret', [bool(m.solve_t(case['t'], **kw))]]
        elif case['entry'] == 'solve_period':
            lab = case['label'] if case.get('label') is not None else span[case['t']]
            lab = lab.item() if hasattr(lab, 'item') else lab
            out = ['ret', [bool(m.solve_period(lab, **kw))]]
        else:
            skw = dict(kw)
            if case['start'] is not None:
                skw['start'] = span[case['start']]
            if case['end'] is not None:
                skw['end'] = span[case['end']]
            skw = {k: (v.item() if k in ('start', 'end') and hasattr(v, 'item') else v) for k, v in skw.items()}
            labels, indexes, solved = m.solve(**skw)
            out = ['ret', [bool(x) for x in solved], [int(i) for i in indexes], [str(x) for x in labels]]
    except Exception as e:
        c = e.__cause__
        out = ['raise', type(e).__name__, type(c).__name__ if c is not None else None]
    idx = {nm: i for i, nm in enumerate(names)}
    return {'engine': 'fortran', 'names': names, 'lags': int(m.lags), 'leads': int(m.leads), 'class_lags': int(Model.LAGS), 'class_leads': int(Model.LEADS),
            'endo': [idx[x] for x in m.endogenous], 'check': [idx[x] for x in m.check], 'prog': None, 'out': out,
            'before': before, 'after': em.snapshot(m, names),
            'status': [str(x) for x in np.asarray(m.__dict__['_status'])], 'iters': [int(x) for x in np.asarray(m.__dict__['_iterations'])],
            'log': [], 'events': [], 'passes': [], 'npasses': 0, 'pass_logs_tail': []}


SPAN_KIND_ID = {'list': 0, 'tuple': 0, 'range': 0, 'array': 1, 'index': 2}     # Solver/SolveAllSpan.spankind: SpList / SpArray / SpIndex


def make_span(case):
    """the span object of the case: by default the list ['p0', 'p1', ...]; with case['span_kind'] a list / tuple / range /
    NumPy array / pandas Index over the integer labels case['labels']"""
    n = case['n']
    kind = case.get('span_kind')
    if not kind:
        return ['p%d' % i for i in range(n)]
    labels = case['labels']
    if kind == 'list':
        return list(labels)
    if kind == 'tuple':
        return tuple(labels)
    if kind == 'range':
        return range(labels[0], labels[0] + n)
    if kind == 'array':
        import numpy as np
        return np.array(labels)
    import pandas as pd
    return pd.Index(labels)


def apply_setup(m, case):
    """pre-solve history on the REAL object, through the public API only: whole-series assignments of one variable's array to
    another variable (attribute and key form) and of one external ndarray to several variables, optionally followed by
    copy() / reindex() onto the same span.  The model side only ever sees the resulting VALUES (copies): a storage shared
    between variables would show up as a cell changing that no equation assigns.  Returns the object to go on with."""
    import numpy as np
    for op in case.get('setup') or []:
        if op['op'] == 'attr':
            setattr(m, op['dst'], getattr(m, op['src']))
        elif op['op'] == 'key':
            m[op['dst']] = m[op['src']]
        elif op['op'] == 'ext':
            ext = np.array([lib.unhex(x) for x in op['vals']], dtype=float)
            for j, dst in enumerate(op['dsts']):
                if j % 2 == 0:
                    setattr(m, dst, ext)
                else:
                    m[dst] = ext
        elif op['op'] == 'copy':
            m = m.copy()
        elif op['op'] == 'reindex':
            m = m.reindex(list(m.span))
    return m


def impl(case):
    import warnings
    import numpy as np
    import fsic
    if case.get('engine') == 'fortran':
        return impl_fortran(case)
    try:
        symbols = fsic.parse_model(case['script'])
        Model = fsic.build_model(symbols, min_lags=case.get('min_lags', 0), min_leads=case.get('min_leads', 0))
    except Exception as e:       # the grammar only produces valid scripts: reported by the oracle
        return {'skip': 'build:' + type(e).__name__}
    names = list(Model.NAMES)
    untranslatable = None
    try:
        prog = em.translate_code(Model.CODE, names)
    except em.Unsupported as e:      # outside the translated fragment: the real run is still recorded and judged, K is skipped
        prog, untranslatable = None, str(e)[:60]
    n = case['n']
    span = make_span(case)
    Probe = em.make_probe(Model, names)

    def new_instance(data=None):
        data = data if data is not None else case['data']
        mi = Probe(span)
        for nm in names:
            if nm in data:
                mi.__dict__['_' + nm][:] = [lib.unhex(x) for x in data[nm]]
        mi = apply_setup(mi, case)
        mi.__dict__['_status'][:] = case['status0']
        mi.__dict__['_iterations'][:] = case['iters0']
        if case.get('inst_lags') is not None:
            mi.lags = case['inst_lags']
        if case.get('inst_leads') is not None:
            mi.leads = case['inst_leads']
        sti = {'log': [], 'events': [], 'passes': []}
        mi.__dict__['_c04'] = sti
        em.install_recorders(mi, names + ['status', 'iterations'], sti['log'])
        return mi, sti
    if case['entry'] == 'history':
        # several calls on instances of ONE class (created at different moments), rejected calls and in-place edits of the
        # instance lists `endogenous` / `check` in between: every call is observed and judged on its own, and after every
        # step all OTHER instances must be exactly as they were
        insts = {}
        steps = []
        for step in case['steps']:
            op = step.get('op', 'solve_t')
            if op == 'new':
                insts[step['on']] = new_instance()
                steps.append({'op': 'new'})
                continue
            if step['on'] not in insts:
                insts[step['on']] = new_instance()
            m, st = insts[step['on']]
            others0 = {k: (em.snapshot(mo, names), [str(x) for x in np.asarray(mo.__dict__['_status'])],
                           [int(x) for x in np.asarray(mo.__dict__['_iterations'])], list(mo.endogenous), list(mo.check))
                       for k, (mo, _) in insts.items() if k != step['on']}
            if op == 'poison':
                np.asarray(m.__dict__['_' + step['name']])[step['pos']] = float(step['val'])
                ob = {'op': 'poison', 'ok': True}
            elif op == 'edit':
                lst = getattr(m, step['list'])
                try:
                    if step['action'] == 'append':
                        lst.append(step['name'])
                    else:
                        lst.remove(step['name'])
                    ob = {'op': 'edit', 'ok': True}
                except ValueError:
                    ob = {'op': 'edit', 'ok': False}
            else:
                del st['log'][:]
                st['events'] = []
                st['passes'] = []
                so = step['opts']
                status0 = [str(x) for x in np.asarray(m.__dict__['_status'])]
                iters0 = [int(x) for x in np.asarray(m.__dict__['_iterations'])]
                before = em.snapshot(m, names)
                try:
                    out = ['ret', [bool(m.solve_t(step['t'], min_iter=so['min_iter'], max_iter=so['max_iter'], tol=lib.unhex(so['tol']),
                                                  offset=so['offset'], failures=so['failures'], errors=so['errors'],
                                                  catch_first_error=so['catch_first_error']))]]
                except Exception as e:
                    c = e.__cause__
                    out = ['raise', type(e).__name__, type(c).__name__ if c is not None else None]
                ob = _collect(m, Model, names, prog, untranslatable, st, before, out)
                ob['status0'], ob['iters0'] = status0, iters0
                ob['op'] = 'solve_t'
            ob['endo_names'], ob['check_names'] = list(m.endogenous), list(m.check)
            ob['others_changed'] = sorted(k for k, (mo, _) in insts.items() if k != step['on'] and others0[k] != (
                em.snapshot(mo, names), [str(x) for x in np.asarray(mo.__dict__['_status'])],
                [int(x) for x in np.asarray(mo.__dict__['_iterations'])], list(mo.endogenous), list(mo.check)))
            ob['class_lists'] = [list(Model.ENDOGENOUS), list(Model.CHECK)]
            steps.append(ob)
        return {'history': steps, 'names': names}
    if case['entry'] == 'linker':
        # a linker over two instances of the parser-built class (keys 'a', 'b'), BaseLinker.solve_t on the real code
        subs = {'a': new_instance(case['data']), 'b': new_instance(case['dataB'])}
        Lk = fsic.BaseLinker({k: v[0] for k, v in subs.items()})

        def sub_state(mi):
            return (em.snapshot(mi, names), [str(x) for x in np.asarray(mi.__dict__['_status'])],
                    [int(x) for x in np.asarray(mi.__dict__['_iterations'])])
        before_ = {k: sub_state(v[0]) for k, v in subs.items()}
        core0 = ([str(x) for x in np.asarray(Lk.status)], [int(x) for x in np.asarray(Lk.iterations)])
        o = case['opts']
        try:
            with warnings.catch_warnings():
                warnings.simplefilter('ignore')      # the linker never turns warnings into errors; keep the workers' stderr quiet
                out = ['ret', [bool(Lk.solve_t(case['t'], submodels=case['sel'], min_iter=o['min_iter'], max_iter=o['max_iter'],
                                               tol=lib.unhex(o['tol']), offset=o['offset'], failures=o['failures'], errors=o['errors'],
                                               catch_first_error=o['catch_first_error']))]]
        except Exception as e:
            c = e.__cause__
            out = ['raise', type(e).__name__, type(c).__name__ if c is not None else None]
        idx = {nm: i for i, nm in enumerate(names)}
        idx.update({'status': -1, 'iterations': -2})
        table_all, npass, obs_subs = [], 0, {}
        needs_table = prog is not None and em.uses_table(prog)
        for k, (mi, sti) in subs.items():
            plogs = []
            for rec in sti['passes']:
                npass += 1
                if needs_table and npass <= MAX_PASSES_TABLE:
                    for e in em.mirror_table(prog, rec['t'], rec['before']):
                        if e not in table_all:
                            table_all.append(e)
                plogs.append({'t': rec['t'], 'log': [[a[0], idx[a[1]], a[2]] for a in rec['log']]})
            a_ = sub_state(mi)
            obs_subs[k] = {'before': before_[k][0], 'status0': before_[k][1], 'iters0': before_[k][2],
                           'after': a_[0], 'status': a_[1], 'iters': a_[2], 'plogs': plogs,
                           'lags': int(mi.lags), 'leads': int(mi.leads),
                           'endo': [idx[x] for x in mi.endogenous], 'check': [idx[x] for x in mi.check]}
        return {'engine': 'linker', 'names': names, 'prog': prog, 'untranslatable': untranslatable, 'out': out,
                'lags': int(Lk.lags), 'leads': int(Lk.leads), 'class_lags': int(Model.LAGS), 'class_leads': int(Model.LEADS),
                'subs': obs_subs, 'core': {'status0': core0[0], 'iters0': core0[1], 'status': [str(x) for x in np.asarray(Lk.status)],
                                           'iters': [int(x) for x in np.asarray(Lk.iterations)]},
                'npasses': npass, 'table_all': table_all, 'table_complete': (not needs_table) or npass <= MAX_PASSES_TABLE}
    m, st = new_instance()
    before = em.snapshot(m, names)
    o = case['opts']
    kw = dict(min_iter=o['min_iter'], max_iter=o['max_iter'], tol=lib.unhex(o['tol']), offset=o['offset'],
              failures=o['failures'], errors=o['errors'], catch_first_error=o['catch_first_error'])
    try:
        if case['entry'] == 'evaluate':
            with warnings.catch_warnings(record=True):
                warnings.simplefilter('error' if (o['errors'] == 'raise' and o['catch_first_error']) else 'always')
                m._evaluate(case['t'], errors=o['errors'], catch_first_error=o['catch_first_error'], iteration=1)
            out = ['ret', None]
        elif case['entry'] == 'solve_t':
            out = ['ret', [bool(m.solve_t(case['t'], **kw))]]
        elif case['entry'] == 'solve_period':
            lab = case['label'] if case.get('label') is not None else span[case['t']]
            lab = lab.item() if hasattr(lab, 'item') else lab
            out = ['ret', [bool(m.solve_period(lab, **kw))]]
        else:
            skw = dict(kw)
            if case['start'] is not None:
                skw['start'] = span[case['start']]
            if case['end'] is not None:
                skw['end'] = span[case['end']]
            skw = {k: (v.item() if k in ('start', 'end') and hasattr(v, 'item') else v) for k, v in skw.items()}
            labels, indexes, solved = m.solve(**skw)
            out = ['ret', [bool(x) for x in solved], [int(i) for i in indexes], [str(x) for x in labels]]
    except Exception as e:
        c = e.__cause__
        out = ['raise', type(e).__name__, type(c).__name__ if c is not None else None]
    return _collect(m, Model, names, prog, untranslatable, st, before, out)


def _collect(m, Model, names, prog, untranslatable, st, before, out):
    """canonical observation of one call (python engine)"""
    import numpy as np
    idx = {nm: i for i, nm in enumerate(names)}
    idx.update({'status': -1, 'iterations': -2})

    def canon(log):
        return [[a[0], idx[a[1]], a[2]] for a in log]
    passes = []
    table_all = []
    needs_table = prog is not None and em.uses_table(prog)
    for j, rec in enumerate(st['passes'][:MAX_PASSES_TABLE]):
        tab = em.mirror_table(prog, rec['t'], rec['before']) if needs_table else []
        for e in tab:
            if e not in table_all:
                table_all.append(e)
        if j < MAX_PASSES_K:
            r = dict(rec)
            r['log'] = canon(rec['log'])
            r['table'] = tab
            passes.append(r)
    return {
        'names': names, 'lags': int(m.lags), 'leads': int(m.leads), 'class_lags': int(Model.LAGS), 'class_leads': int(Model.LEADS),
        'endo': [idx[x] for x in m.endogenous], 'check': [idx[x] for x in m.check],
        'prog': prog, 'untranslatable': untranslatable, 'out': out, 'before': before, 'after': em.snapshot(m, names),
        'status': [str(x) for x in np.asarray(m.__dict__['_status'])], 'iters': [int(x) for x in np.asarray(m.__dict__['_iterations'])],
        'log': canon(st['log']), 'events': list(st['events']), 'passes': passes, 'npasses': len(st['passes']),
        'table_all': table_all, 'table_complete': (not needs_table) or len(st['passes']) <= MAX_PASSES_TABLE,
        'pass_ts': [[r['t'], len(r['log'])] for r in st['passes']],
        'pass_logs_tail': [dict(t=r['t'], log=canon(r['log'])) for r in st['passes'][MAX_PASSES_K:]],
    }


# =========================================================================== correspondence K_access
def _c_event(e):
    if e[0] == 'before':
        return '(EvBefore %s)' % lib.cZ(e[1])
    return '(%s %s %d%%nat)' % ('EvPass' if e[0] == 'pass' else 'EvAfter', lib.cZ(e[1]), e[2])


def _respell(events, t, n):
    """hook events carry the period as the code passed it on; whether solve_t hands its hooks the caller's spelling of t or
    the normalised position is not something the property constrains: events of the period t denotes are compared under the
    caller's spelling"""
    out = []
    for e in events:
        e = list(e)
        if isinstance(e[1], int) and -n <= e[1] < n and (e[1] % n) == (t % n):
            e[1] = t
        out.append(e)
    return out


def _c_state(vals, status, iters, events):
    return '(mkState %s %s %s %s)' % (em.c_vals(vals), lib.clist(sc.ST[s] for s in status), lib.clist(lib.cZ(i) for i in iters),
                                      lib.clist(map(_c_event, events)))


def _c_out(out):
    if out[0] == 'ret':
        return '(Ret %s)' % lib.clist(lib.cbool(b) for b in out[1])
    cls, cause = out[1], out[2]
    if cls == 'SolutionError':
        return '(Raise (SolutionError %s))' % ('None' if cause is None else '(Some %d)' % em.CAUSE_TAG.get(cause, 99))
    return '(Raise %s)' % sc.EXN.get(cls, 'OtherError')


def _c_desc(obs):
    return '(mkDesc %s %s %d%%nat %d%%nat)' % (lib.clist('%d%%nat' % i for i in obs['check']), lib.clist('%d%%nat' % i for i in obs['endo']),
                                             obs['lags'], obs['leads'])


def history_steps(case, obs):
    """the calls of a history as (solve_t case, observation) pairs: the state the previous call left is the input"""
    out = []
    for step, so in zip(case['steps'], obs['history']):
        if step.get('op', 'solve_t') != 'solve_t':
            continue
        sc_ = dict(case, entry='solve_t', t=step['t'], opts=step['opts'], status0=so['status0'], iters0=so['iters0'])
        out.append((sc_, so))
    return out


def history_list_oracle(case, obs):
    """the instance lists `endogenous` / `check` are private to each instance: what they hold after every step is what the
    class holds plus that instance's own edits; the class lists never change; no step touches another instance"""
    fails = []
    exp = {}
    cls = None
    for j, (step, so) in enumerate(zip(case['steps'], obs['history'])):
        op = step.get('op', 'solve_t')
        if op == 'new':
            exp.pop(step['on'], None)        # a brand-new instance under that handle: the class lists again
            continue
        if cls is None:
            cls = so['class_lists']
        on = step['on']
        if on not in exp:
            exp[on] = [list(cls[0]), list(cls[1])]
        if op == 'edit':
            k = 0 if step['list'] == 'endogenous' else 1
            if step['action'] == 'append':
                exp[on][k].append(step['name'])
            elif (step['name'] in exp[on][k]) != bool(so.get('ok')):
                fails.append({'sig': 'C04|history|instance-lists-leak', 'what': 'step %d: %s.remove(%r) on instance %s %s although the list should hold %s'
                              % (j + 1, step['list'], step['name'], on, 'succeeded' if so.get('ok') else 'failed', exp[on][k])})
                break
            elif so.get('ok'):
                exp[on][k].remove(step['name'])
        if [so['endo_names'], so['check_names']] != exp[on]:
            fails.append({'sig': 'C04|history|instance-lists-leak', 'what': 'step %d: instance %s holds endogenous/check = %s, expected %s (class lists plus its own edits)'
                          % (j + 1, on, [so['endo_names'], so['check_names']], exp[on])})
            break
        if so['class_lists'] != cls:
            fails.append({'sig': 'C04|history|class-lists-changed', 'what': 'step %d changed the class-level ENDOGENOUS/CHECK lists to %s' % (j + 1, so['class_lists'])})
            break
        if so['others_changed']:
            fails.append({'sig': 'C04|history|other-instance-changed', 'what': 'step %d (%s on instance %s) changed instance(s) %s' % (j + 1, op, on, so['others_changed'])})
            break
    return fails


def k_items(case, obs):
    """Coq terms (kcase) for one implementation run: one per recorded evaluation pass + one for the whole call"""
    items = []
    n = case['n']
    prog = em.c_prog(obs['prog'])
    table = obs['table_all']
    for r in obs['passes']:
        if any(not isinstance(a[2], int) or a[1] < 0 for a in r['log']):
            return None
        exc = 'None' if r['exc'] is None else '(Some %d)' % em.CAUSE_TAG.get(r['exc'], 99)
        items.append('(KP (mkP %s %s %s %s %s %s %s %s))' % (
            em.c_table(r['table']), prog, lib.cbool(r['catch']), lib.cZ(r['t']), em.c_vals(r['before']), em.c_vals(r['after']), exc,
            lib.clist(em.c_access(a, n) for a in r['log'])))
    if case['entry'] == 'solve_t' and obs['table_complete']:
        items.append('(KS (mkS %s %s %s %s %s %s %s %s))' % (
            em.c_table(table), prog, _c_desc(obs), sc.c_opts(case['opts']), lib.clist([lib.cZ(case['t'])]),
            _c_state(obs['before'], case['status0'], case['iters0'], []),
            _c_state(obs['after'], obs['status'], obs['iters'], _respell(obs['events'], case['t'], n)), _c_out(obs['out'])))
    low = obs['lags'] < obs['class_lags'] or obs['leads'] < obs['class_leads']      # user-lowered instance attribute: no hypothesis check
    if case['entry'] == 'solve_period' and obs['table_complete']:
        # the label entry point on the span type of the case: SolveAll.solve_period_M with SolveAllSpan.locate_span
        lab = case['label'] if case.get('label') is not None else case['labels'][case['t']]
        out = obs['out']
        c_out = '(Ret %s)' % lib.cbool(out[1][0]) if out[0] == 'ret' else _c_out(out)
        items = ['(K2 (K1 %s))' % it for it in items]
        items.append('(KSP (mkSP %s %s %s %s %d%%nat %s %s %s %s %s))' % (
            em.c_table(table), prog, _c_desc(obs), sc.c_opts(case['opts']), SPAN_KIND_ID[case['span_kind']],
            lib.clist(lib.cZ(x) for x in case['labels']), lib.cZ(lab),
            _c_state(obs['before'], case['status0'], case['iters0'], []),
            _c_state(obs['after'], obs['status'], obs['iters'], obs['events']), c_out))
        return items
    items = [('(KL (K1 %s))' if low else '(K2 (K1 %s))') % it for it in items]
    if case['entry'] == 'solve' and obs['table_complete']:
        # the real entry point: SolveAll.solve_M (min/max_iter test, label lookup, iter_periods, the loop) — labels 'p<i>' are i
        out = obs['out']
        if out[0] == 'ret':
            c_out = '(Ret (%s, %s, %s))' % (lib.clist(lib.cbool(b) for b in out[1]), lib.clist(lib.cZ(i) for i in out[2]),
                                            lib.clist(lib.cZ(int(x) if case.get('span_kind') else int(x[1:])) for x in out[3]))
        else:
            c_out = _c_out(out)
        opt = lambda x: 'None' if x is None else '(Some %s)' % lib.cZ(x)  # noqa: E731
        if case.get('span_kind'):
            # solve() on a list / tuple / range / NumPy-array / pandas-Index span with integer labels
            labs = case['labels']
            if out[0] == 'ret':
                c_out = '(Ret (%s, %s, %s))' % (lib.clist(lib.cbool(b) for b in out[1]), lib.clist(lib.cZ(i) for i in out[2]),
                                                lib.clist(lib.cZ(int(x)) for x in out[3]))
            optl = lambda i: 'None' if i is None else '(Some %s)' % lib.cZ(labs[i])  # noqa: E731
            e = '(mkE %s %s %s %s %d%%nat %s %s %s %s %s)' % (
                em.c_table(table), prog, _c_desc(obs), sc.c_opts(case['opts']), n, optl(case['start']), optl(case['end']),
                _c_state(obs['before'], case['status0'], case['iters0'], []),
                _c_state(obs['after'], obs['status'], obs['iters'], obs['events']), c_out)
            items.append('(KEK (mkEK %d%%nat %s %s))' % (SPAN_KIND_ID[case['span_kind']], lib.clist(lib.cZ(x) for x in labs), e))
            return items
        items.append(('(KEL (mkE %s %s %s %s %d%%nat %s %s %s %s %s))' if low else '(KE (mkE %s %s %s %s %d%%nat %s %s %s %s %s))') % (
            em.c_table(table), prog, _c_desc(obs), sc.c_opts(case['opts']), n, opt(case['start']), opt(case['end']),
            _c_state(obs['before'], case['status0'], case['iters0'], []),
            _c_state(obs['after'], obs['status'], obs['iters'], obs['events']), c_out))
    return items


SUBKEY = {'a': 0, 'b': 1}


def k_item_linker(case, obs):
    """Linker.linker_solve_t_M with every submodel's generated pass (EvalLinker.lsev) against the real BaseLinker.solve_t"""
    prog = em.c_prog(obs['prog'])

    def comp(desc, vals, status, iters):
        return '(Linker.mkComp %s (mkState %s %s %s []))' % (desc, em.c_vals(vals), lib.clist(sc.ST[x] for x in status), lib.clist(lib.cZ(i) for i in iters))

    def state(which):
        core = comp('(mkDesc [] [] %d%%nat %d%%nat)' % (obs['lags'], obs['leads']), [],
                    obs['core']['status0' if which == 0 else 'status'], obs['core']['iters0' if which == 0 else 'iters'])
        subs = []
        for k in ('a', 'b'):
            sb = obs['subs'][k]
            desc = '(mkDesc %s %s %d%%nat %d%%nat)' % (lib.clist('%d%%nat' % i for i in sb['check']), lib.clist('%d%%nat' % i for i in sb['endo']), sb['lags'], sb['leads'])
            subs.append('(%d%%nat, %s)' % (SUBKEY[k], comp(desc, sb['before' if which == 0 else 'after'], sb['status0' if which == 0 else 'status'],
                                                          sb['iters0' if which == 0 else 'iters'])))
        return '(Linker.mkL %s %s [])' % (core, lib.clist(subs))
    out = obs['out']
    if out[0] == 'ret':
        c_out = '(Linker.LRet %s)' % lib.cbool(out[1][0])
    else:
        c_out = '(Linker.LRaise (Linker.LExn %s))' % sc.EXN.get(out[1], 'OtherError')
    sel = 'None' if case['sel'] is None else '(Some %s)' % lib.clist('%d%%nat' % SUBKEY[k] for k in case['sel'])
    return '(KLk (mkLK %s %s %s %s %s %s %s %s))' % (
        em.c_table(obs['table_all']), lib.clist('(%d%%nat, %s)' % (j, prog) for j in (0, 1)), sel, sc.c_opts(case['opts']),
        lib.cZ(case['t']), state(0), state(1), c_out)


def fortran_upfront(case, obs):
    """decided on the INPUT alone: does FortranEngine.solve_t end before the compiled iteration loop is reached
    (min_iter > max_iter, out-of-span offset, pre-existing non-finite check values, infeasible period)?  There the
    wrapper model Fortran/FSolve.w_solve_t needs no equations and is compared in full (K, second engine)."""
    if case['entry'] != 'solve_t':
        return False
    n, o = case['n'], case['opts']
    p = _pos(case['t'], n)
    if not 0 <= p < n:
        return False
    if o['min_iter'] > o['max_iter']:
        return True
    B = obs['before']
    q = p + o['offset']
    if o['offset'] != 0 and not 0 <= q < n:
        return True
    chk = [B[i][q] if (o['offset'] != 0 and i in obs['endo']) else B[i][p] for i in obs['check']]
    if o['errors'] == 'raise' and any(_nonfinite(x) for x in chk):
        return True
    return not max(obs['lags'], obs['class_lags']) <= p < n - max(obs['leads'], obs['class_leads'])


def k_item_fortran(case, obs):
    out = obs['out']
    if out[0] == 'ret':
        c_out = '(Ret %s)' % lib.cbool(out[1][0])
    elif out[1] == 'SolutionError':
        c_out = '(Raise (SolutionError %s))' % ('None' if out[2] is None else '(Some 99)')
    else:
        c_out = '(Raise %s)' % {'FortranEngineError': 'FortranEngineError'}.get(out[1], sc.EXN.get(out[1], 'OtherError'))
    fm = '(FSolve.mkFmod %s %s %s)' % (lib.cZ(obs['class_lags']), lib.cZ(obs['class_leads']), lib.clist(lib.cZ(i + 1) for i in obs['endo']))
    return '(KF (mkF %s %s %s %s %s %s %s))' % (
        fm, _c_desc(obs), sc.c_opts(case['opts']), lib.cZ(case['t']),
        _c_state(obs['before'], case['status0'], case['iters0'], []),
        _c_state(obs['after'], obs['status'], obs['iters'], []), c_out)


def wrap5(it):
    """lift a K item to the top-level sum type EvalK3.kcase5"""
    if it.startswith('(KSP ') or it.startswith('(KEK '):
        return it
    if it.startswith('(KLk ') or it.startswith('(K3 '):
        return '(K4 %s)' % it
    return '(K4 (K3 %s))' % it


def correspond(cases, obs, tag, tier):
    items, owner, bad = [], [], []
    for i, (c, o) in enumerate(zip(cases, obs)):
        if o.get('skip') or o.get('timeout'):
            continue
        if c['opts']['errors'] not in sc.ERRMODES:
            continue
        if o.get('engine') == 'fortran':
            if c['entry'] == 'evaluate':
                n_, t_ = c['n'], c['t']
                p_ = _pos(t_, n_) if -n_ <= t_ < n_ else None
                if p_ is None or not o['class_lags'] <= p_ < n_ - o['class_leads']:        # rejected by the index tests: no equations needed
                    fm = '(FSolve.mkFmod %s %s %s)' % (lib.cZ(o['class_lags']), lib.cZ(o['class_leads']), lib.clist(lib.cZ(i + 1) for i in o['endo']))
                    c_out = '(Ret tt)' if o['out'][0] == 'ret' else '(Raise %s)' % sc.EXN.get(o['out'][1], 'OtherError')
                    items.append('(K4 (K3 (KG (mkG %s %s %s %s %s))))' % (
                        fm, lib.cZ(t_), _c_state(o['before'], c['status0'], c['iters0'], []),
                        _c_state(o['after'], o['status'], o['iters'], []), c_out))
                    owner.append(i)
                continue
            if fortran_upfront(c, o):
                items.append(wrap5('(K2 %s)' % k_item_fortran(c, o)))
                owner.append(i)
            continue
        if o.get('engine') == 'linker':
            if o.get('prog') is not None and o['table_complete']:
                items.append(wrap5(k_item_linker(c, o)))
                owner.append(i)
            continue
        if c['entry'] == 'history':
            for sc_, so_ in history_steps(c, o):
                if so_.get('prog') is None or guard(sc_, so_):
                    continue
                for it in (k_items(sc_, so_) or []):
                    items.append(wrap5(it))
                    owner.append(i)
            continue
        if o.get('prog') is None:        # outside the translated fragment: oracle only
            continue
        try:
            its = k_items(c, o)
        except Exception:         # noqa: BLE001  an observation that cannot be rendered is a disagreement, not a crash
            its = None
        if its is None:
            bad.append(i)          # an access with a non-integer index: outside the model altogether
            continue
        for it in its:
            items.append(wrap5(it))
            owner.append(i)
    b, errs = lib.run_coq_cases(tag, PREAMBLE2, items, 'bad_indices check_kcase5 0%nat cs', shard=250)
    return sorted(set(bad) | {owner[j] for j in b}), errs


def explain(case, obs):
    if obs.get('skip'):
        return 'skipped: ' + obs['skip']
    if case['entry'] == 'linker':
        if obs.get('prog') is None:
            return 'linker over submodels whose generated code is outside the translated fragment: oracle only'
        body = k_item_linker(case, obs)[5:-1]
        return lib.coq_eval('explain_C04', PREAMBLE2, 'let c := %s in (F_linker_solve_t (lk_tab c) (lk_progs c) (lk_sel c) (lk_opts c) (lk_t c) (lk_state c))' % body)[-2500:]
    if case['entry'] == 'history':
        return '\n'.join('step %d: %s' % (j, explain(sc_, so_)[-800:]) for j, (sc_, so_) in enumerate(history_steps(case, obs)))
    if obs.get('engine') == 'fortran' and case['entry'] == 'evaluate':
        return 'Fortran engine, _evaluate: model Fortran/FSolve.w_evaluate answers IndexError with nothing changed iff t is outside the span or leaves no room for the lags / leads (theorem C04_fortran_evaluate_infeasible_rejected)'
    if obs.get('engine') == 'fortran':
        if not fortran_upfront(case, obs):
            return 'Fortran engine, call reaches the compiled loop: oracle only (the equations are not translated for this engine)'
        body = k_item_fortran(case, obs)[4:-1]
        return lib.coq_eval('explain_C04', PREAMBLE2, 'let c := %s in (F_w_solve_t (f_fm c) (f_desc c) (f_opts c) (f_t c) (f_state c))' % body)[-2500:]
    if obs.get('prog') is None:
        return 'generated code outside the translated fragment (%s): oracle only' % obs.get('untranslatable')
    its = k_items(case, obs) or []
    out = []
    for it in its[-2:]:
        if it.startswith('(KSP ') or it.startswith('(KEK '):
            out.append('label entry point on a %s span: model SolveAll.solve_period_M / solve_M with SolveAllSpan.locate_span (see EvalK3.check_spcase / check_ekcase)' % case.get('span_kind'))
            continue
        if it.startswith('(K2 (K1 ') or it.startswith('(KL (K1 '):
            it = it[8:-2]
        if it.startswith('(KEL '):
            it = '(KE ' + it[5:]
        if it.startswith('(KE '):
            body = it[4:-1]
            out.append(lib.coq_eval('explain_C04', PREAMBLE2, 'let c := %s in (let span := map Z.of_nat (seq 0 (e_n c)) in F_solve_P (e_tab c) span (e_prog c) (e_desc c) (e_opts c) span (e_start c) (e_end c) (e_state c))' % body)[-2500:])
        elif it.startswith('(KP '):
            body = it[4:-1]
            out.append(lib.coq_eval('explain_C04', em.PREAMBLE, 'let c := %s in (f_eval_pass (p_tab c) (p_catch c) (p_prog c) (p_t c) (p_v c))' % body)[-1500:])
        else:
            body = it[4:-1]
            out.append(lib.coq_eval('explain_C04', em.PREAMBLE, 'let c := %s in (f_solve_seq (s_tab c) (s_prog c) (s_desc c) (s_opts c) (s_ts c) (s_state c))' % body)[-2500:])
    return '\n'.join(out)


# =========================================================================== the property, directly
def _pos(t, n):
    return t if t >= 0 else t + n


def _nonfinite(h):
    return h in ('nan', 'inf', '-inf')


def guard(case, obs):
    """guard class of kept finding #3 (offset copy before the pre-existing non-finite rejection): K is silent there"""
    if obs.get('skip') or case['entry'] in ('evaluate', 'linker'):
        return False
    if case['entry'] == 'history':
        return False                 # decided per step inside correspond()
    return case['opts']['offset'] != 0 and case['opts']['errors'] == 'raise' and obs['out'][0] == 'raise' \
        and obs['out'][1] == 'SolutionError' and not obs['events']


def _oracle_linker(case, obs):
    """C04's clauses for BaseLinker.solve_t over parser-built submodels: rejected up front (min/max_iter, infeasible period) ->
    nothing at all changes; otherwise every selected submodel changes only the cells its equations assign for period t and
    status / iterations at t, unselected submodels change nothing, every read / write of a pass is served in span at t +- k"""
    fails = []

    def bad(sig, what):
        fails.append({'sig': 'C04|linker|' + sig, 'what': what})
    n, o, eqs, t = case['n'], case['opts'], case['eqs'], case['t']
    names = obs['names']
    idx = {nm: i for i, nm in enumerate(names)}
    L, Ld = script_lags_leads(eqs)
    if (obs['lags'], obs['leads']) != (L, Ld):
        bad('lags-leads', 'linker.lags/leads = %s but the submodels\' equations need %s' % ((obs['lags'], obs['leads']), (L, Ld)))
    lhs, reads = {}, {}
    for e in eqs:
        lhs.setdefault(idx[e['lhs'][0]], set()).add(e['lhs'][1])
        for nm, k in e['reads']:
            reads.setdefault(idx[nm], set()).add(k)
    p = _pos(t, n)
    out = obs['out']
    sel = case['sel'] if case['sel'] is not None else ['a', 'b']
    delta = {}
    for k, sb in obs['subs'].items():
        ch = {(i, q) for i in range(len(names)) for q in range(n) if sb['before'][i][q] != sb['after'][i][q]}
        stc = {q for q in range(n) if sb['status'][q] != sb['status0'][q] or sb['iters'][q] != sb['iters0'][q]}
        delta[k] = (ch, stc)
    core_ch = {q for q in range(n) if obs['core']['status'][q] != obs['core']['status0'][q] or obs['core']['iters'][q] != obs['core']['iters0'][q]}
    untouched = not core_ch and all(not ch and not stc for ch, stc in delta.values()) and obs['npasses'] == 0
    if o['min_iter'] > o['max_iter']:
        if out[:2] != ['raise', 'ValueError'] or not untouched:
            bad('min>max', 'min_iter > max_iter must raise ValueError and change nothing on the linker and its submodels: got %s, untouched=%s' % (out[:2], untouched))
        return fails
    if not L <= p < n - Ld:
        if out[:2] != ['raise', 'IndexError'] or not untouched:
            bad('infeasible-period-served', 'linker.solve_t(%d) on a %d-period span with lags=%d leads=%d must raise IndexError and change nothing: got %s after %d pass(es), untouched=%s'
                % (t, n, L, Ld, out[:2], obs['npasses'], untouched))
        return fails
    if o['offset'] != 0 and not 0 <= p + o['offset'] < n:
        # since fix 6298cba the linker honours `offset`: an offset pointing outside the span is rejected like a model's
        if out[:2] != ['raise', 'IndexError'] or not untouched:
            bad('offset-out-of-span', 'linker.solve_t(%d, offset=%d) on a %d-period span must raise IndexError and change nothing: got %s, untouched=%s'
                % (t, o['offset'], n, out[:2], untouched))
        return fails
    if out[:2] == ['raise', 'IndexError']:
        bad('feasible-period-rejected', 'linker.solve_t(%d) raised IndexError although the period is feasible' % t)
    if core_ch - {p}:
        bad('status-outside-t', 'the linker\'s own status/iterations changed at %s while solving position %d' % (sorted(core_ch - {p}), p))
    for k, sb in obs['subs'].items():
        ch, stc = delta[k]
        if k not in sel:
            if ch or stc or sb['plogs']:
                bad('unselected-submodel-touched', 'submodel %r is not among submodels=%s but changed (cells %s, status at %s, %d pass(es))'
                    % (k, sel, sorted(ch)[:3], sorted(stc), len(sb['plogs'])))
            continue
        seeded = {(i, p) for i in sb['endo']} if o['offset'] != 0 else set()      # the offset seeding of period t (fix 6298cba)
        for (i, q) in sorted(ch):
            if i not in lhs and (i, q) not in seeded:
                bad('unassigned-row-changed', 'submodel %r: cell %s[%d] changed although no equation assigns %s' % (k, names[i], q, names[i]))
                break
        extra = sorted(ch - {(i, p + kk) for i, ks in lhs.items() for kk in ks} - seeded)
        if extra:
            bad('cell-outside-frame', 'submodel %r: linker.solve_t(%d) changed %s[%d], which no equation assigns for this period' % (k, t, names[extra[0][0]], extra[0][1]))
        if stc - {p}:
            bad('status-outside-t', 'submodel %r: status/iterations changed at %s while solving position %d' % (k, sorted(stc - {p}), p))
        for r in sb['plogs']:
            for kind, x, i in r['log']:
                if not isinstance(i, int) or x < 0:
                    bad('pass-access-shape', 'submodel %r: unexpected access %s' % (k, [kind, x, i]))
                    break
                srv = i if i >= 0 else i + n
                if not 0 <= srv < n or srv - p != i - r['t']:
                    bad('read-wrapped' if kind == 'R' else 'write-wrapped',
                        'submodel %r: %s of %s at requested index %d while the linker solves t=%d (position %d of %d) is not served at the same distance inside the span'
                        % (k, 'read' if kind == 'R' else 'write', names[x], i, r['t'], p, n))
                    break
                if (i - r['t']) not in (reads.get(x, set()) if kind == 'R' else lhs.get(x, set())):
                    bad('access-not-a-term', 'submodel %r: %s of %s[t%+d]: no such term in the equations' % (k, 'read' if kind == 'R' else 'write', names[x], i - r['t']))
                    break
    return fails


def _oracle(case, obs):
    fails = []

    def bad(sig, what):
        fails.append({'sig': 'C04|' + sig, 'what': what})
    if obs.get('timeout'):
        bad('timeout', 'no answer within the watchdog limit')
        return fails
    if obs.get('skip'):
        if obs['skip'].startswith('build:'):
            bad('build|' + obs['skip'][6:], 'a valid C01-grammar script was not accepted: %s' % obs['skip'])
        return fails
    if case['entry'] == 'linker':
        return _oracle_linker(case, obs)
    if case['entry'] == 'solve_period':
        if case.get('label') is not None:         # a label that is not in the span
            B_, A_ = obs['before'], obs['after']
            same = B_ == A_ and obs['status'] == case['status0'] and obs['iters'] == case['iters0'] and not obs['events']
            if obs['out'][:2] != ['raise', 'KeyError'] or not same:
                bad('solve_period|unknown-label', 'solve_period(<label not in the span>) must raise KeyError and change nothing: got %s, unchanged=%s' % (obs['out'][:2], same))
            return fails
        return _oracle(dict(case, entry='solve_t'), obs)       # the label of position t: judged as solve_t(t)
    if case['entry'] == 'history':
        fails += history_list_oracle(case, obs)
        seen = set()
        for j, (sc_, so_) in enumerate(history_steps(case, obs)):
            for f in _oracle(sc_, so_):
                if f['sig'] not in seen:
                    seen.add(f['sig'])
                    fails.append({'sig': f['sig'], 'what': 'call %d of the history (solve_t(%d)): %s' % (j + 1, sc_['t'], f['what'])})
        return fails
    n, o, eqs = case['n'], case['opts'], case['eqs']
    names = obs['names']
    idx = {nm: i for i, nm in enumerate(names)}
    L, Ld = script_lags_leads(eqs)
    L, Ld = max(L, case.get('min_lags', 0)), max(Ld, case.get('min_leads', 0))
    if obs['class_lags'] < L or obs['class_leads'] < Ld:
        bad('lags-leads', 'LAGS/LEADS = %s but the equations need %s' % ((obs['class_lags'], obs['class_leads']), (L, Ld)))
    L, Ld = max(L, obs['class_lags']), max(Ld, obs['class_leads'])     # a larger, conservative LAGS / LEADS violates nothing here
    Lp, Ldp = L, Ld                                    # what the class demands (at least what the equations need)
    Li = case['inst_lags'] if case.get('inst_lags') is not None else L
    Ldi = case['inst_leads'] if case.get('inst_leads') is not None else Ld
    if (obs['lags'], obs['leads']) != (Li, Ldi):
        bad('lags-leads', 'model.lags/leads = %s, expected %s' % ((obs['lags'], obs['leads']), (Li, Ldi)))
    fortran_ = obs.get('engine') == 'fortran'
    # the periods the property wants rejected are those without room for max(instance value, what the class demands): the
    # Python engine and (since 1354783) the Fortran wrapper test the instance attributes, the compiled code the class-level ones
    L, Ld = max(Li, Lp), max(Ldi, Ldp)
    # the user assigned model.lags / model.leads BELOW what the equations need: by that assignment "the model's lags" the
    # property speaks of are redefined (the anchors name the instance attributes as what bounds the range), fsic honours it,
    # and the property states nothing more about rejections or reads there.  Only the frame clauses that hold regardless are
    # judged (unassigned rows, status / iterations only at the periods solved); K stays active (the model mirrors the
    # behaviour, without the hypothesis prog_lags <= lags d that every positive theorem carries).
    lowered = Li < Lp or Ldi < Ldp
    lhs = {}
    reads = {}
    for e in eqs:
        lhs.setdefault(idx[e['lhs'][0]], set()).add(e['lhs'][1])
        for nm, k in e['reads']:
            reads.setdefault(idx[nm], set()).add(k)
    endo = sorted(lhs)
    out = obs['out']
    B, A = obs['before'], obs['after']
    changed = {(i, q) for i in range(len(names)) for q in range(n) if B[i][q] != A[i][q]}
    st_changed = {q for q in range(n) if obs['status'][q] != case['status0'][q] or obs['iters'][q] != case['iters0'][q]}
    # never-assigned rows (exogenous variables, parameters, errors) never change, whatever the call
    # (with an offset, rows the INSTANCE lists as endogenous are seeded at t: judged cell by cell further down)
    seeded_rows = set(obs['endo']) if (case['entry'] != 'evaluate' and o['offset'] != 0) else set()
    for (i, q) in sorted(changed):
        if i not in lhs and i not in seeded_rows:
            bad('unassigned-row-changed', 'cell %s[%d] changed although no equation assigns %s' % (names[i], q, names[i]))
            break
    if lowered:
        if case['entry'] == 'solve_t' and st_changed - {_pos(case['t'], n)}:
            bad('status-outside-t', 'status/iterations changed at position(s) %s while solving position %d' % (sorted(st_changed - {_pos(case['t'], n)}), _pos(case['t'], n)))
        if case['entry'] == 'solve':
            a_ = case['start'] if case['start'] is not None else Li
            b_ = case['end'] if case['end'] is not None else n - 1 - Ldi
            if st_changed - set(range(a_, b_ + 1)):
                bad('status-outside-t', 'solve() changed status/iterations at %s, outside the periods it solves' % sorted(st_changed - set(range(a_, b_ + 1))))
        return fails
    if case['entry'] == 'evaluate':
        if obs.get('engine') == 'fortran':
            L, Ld = Lp, Ldp          # _evaluate has no wrapper guard: the compiled index tests know the class-level values
            # FortranEngine._evaluate: explicit index tests — a period outside the span or without room for the lags /
            # leads is answered with IndexError and nothing changes; a feasible one writes only the assigned cells
            t = case['t']
            p = _pos(t, n) if -n <= t < n else None
            if p is None or not L <= p < n - Ld:
                if out[:2] != ['raise', 'IndexError']:
                    bad('infeasible-period-served', 'FortranEngine._evaluate(%d) on a %d-period span with lags=%d leads=%d must raise IndexError; got %s' % (t, n, L, Ld, out))
                if changed or st_changed:
                    bad('infeasible-period-changed', 'FortranEngine._evaluate(%d) at an infeasible period changed values or status' % t)
            else:
                if out[0] == 'raise':
                    bad('feasible-period-rejected', 'FortranEngine._evaluate(%d) raised %s although the period is feasible' % (t, out[1]))
                extra = sorted(changed - {(i, p + k) for i, ks in lhs.items() for k in ks})
                if extra:
                    bad('cell-outside-frame', 'FortranEngine._evaluate(%d) changed %s[%d], which no equation assigns for this period' % (t, names[extra[0][0]], extra[0][1]))
                if st_changed:
                    bad('status-outside-t', '_evaluate changed status/iterations at %s' % sorted(st_changed))
        return fails

    def check_pass_logs(plogs):
        for r in plogs:
            t = r['t']
            p = _pos(t, n)
            for kind, x, i in r['log']:
                if not isinstance(i, int) or x < 0:
                    bad('pass-access-shape', 'unexpected access %s inside an evaluation pass' % ([kind, x, i],))
                    return
                srv = i if i >= 0 else i + n
                k = i - t
                if not 0 <= srv < n:
                    bad('read-out-of-span' if kind == 'R' else 'write-out-of-span',
                        '%s of %s at requested index %d while solving t=%d on a %d-period span: outside the span (IndexError)'
                        % ('read' if kind == 'R' else 'write', names[x], i, t, n))
                    return
                if srv - p != k:
                    bad('read-wrapped' if kind == 'R' else 'write-wrapped',
                        '%s of %s at requested index %d while solving t=%d (position %d of %d): served at position %d, i.e. %+d periods from t instead of %+d'
                        % ('read' if kind == 'R' else 'write', names[x], i, t, p, n, srv, srv - p, k))
                    return
                allowed = reads.get(x, set()) if kind == 'R' else lhs.get(x, set())
                if k not in allowed:
                    bad('access-not-a-term', '%s of %s[t%+d] while solving t=%d: no such term in the equations'
                        % ('read' if kind == 'R' else 'write', names[x], k, t))
                    return
    plogs = [dict(t=r['t'], log=r['log']) for r in obs['passes']] + obs['pass_logs_tail']
    fortran = obs.get('engine') == 'fortran'
    if case['entry'] == 'solve_t':
        t = case['t']
        p = _pos(t, n)
        unchanged = not changed and not st_changed
        rejected_upfront = out[0] == 'raise' and not obs['events']
        if fortran:      # no hook events to go by: a raise that recorded no status at t is a rejection
            rejected_upfront = out[0] == 'raise' and out[1] != 'NonConvergenceError' and p not in st_changed
        feasible = L <= p < n - Ld
        # ---- the up-front rejections.  The property names them (bad min/max_iter, infeasible period, out-of-span offset,
        # pre-existing non-finite check values under errors='raise') but fixes NO ORDER among them: when several apply, any
        # of their exceptions is a correct rejection; what it demands is a rejection that changes nothing.
        off_in = o['offset'] != 0 and 0 <= p + o['offset'] < n
        reasons = {}
        if o['min_iter'] > o['max_iter']:
            reasons['min>max'] = 'ValueError'
        if not feasible:
            reasons['infeasible-period'] = 'IndexError'
        if o['offset'] != 0 and not off_in:
            reasons['offset-out-of-span'] = 'IndexError'
        seen = [B[i][p + o['offset']] if (off_in and i in obs['endo']) else B[i][p] for i in obs['check']]
        if o['errors'] == 'raise' and any(_nonfinite(x) for x in seen):
            reasons['preexisting-nonfinite'] = 'SolutionError'
        if reasons:
            first = ('infeasible-period-served' if 'infeasible-period' in reasons else sorted(reasons)[0])
            no_run = not obs['events'] and (not fortran or p not in st_changed)
            if out[0] != 'raise' or out[1] not in set(reasons.values()) or not no_run:
                bad(first, 'solve_t(%d, offset=%d) on a %d-period span with lags=%d leads=%d must be rejected up front (%s -> one of %s); got %s after %d evaluation pass(es)'
                    % (t, o['offset'], n, L, Ld, ', '.join(sorted(reasons)), sorted(set(reasons.values())), out[:2], obs['npasses']))
            elif not unchanged:
                only_copy = (not st_changed and off_in and all(i in obs['endo'] and q == p and A[i][q] == B[i][p + o['offset']] for (i, q) in changed))
                if only_copy and out[1] == 'SolutionError' and set(reasons) == {'preexisting-nonfinite'}:
                    bad('preexisting-nonfinite-after-offset|changed',
                        'solve_t(t, offset=k) rejected for pre-existing non-finite values AFTER copying period t+k into period t (values at t overwritten)')
                elif 'infeasible-period' in reasons:
                    bad('infeasible-period-changed', 'solve_t(%d) at an infeasible period changed values or status' % t)
                else:
                    bad('rejected-but-changed', 'call rejected up front (%s) but something changed: cells %s, status at %s' % (out[:2], sorted(changed)[:4], sorted(st_changed)))
            check_pass_logs(plogs)
            return fails
        if out[:2] == ['raise', 'IndexError']:
            bad('feasible-period-rejected', 'solve_t(%d) on a %d-period span with lags=%d leads=%d (offset %d in span) raised IndexError although the period is feasible'
                % (t, n, L, Ld, o['offset']))
        if rejected_upfront and not unchanged:
            bad('rejected-but-changed', 'call rejected up front (%s) but something changed: cells %s, status at %s' % (out[:2], sorted(changed)[:4], sorted(st_changed)))
        allowed = {(i, p + k) for i, ks in lhs.items() for k in ks}
        if o['offset'] != 0 or (fortran and o['errors'] == 'replace'):
            allowed |= {(i, p) for i in obs['endo']}      # offset copy; the compiled zeroing of non-finite endogenous values of period t
        extra = sorted(changed - allowed)
        if extra:
            bad('cell-outside-frame', 'solve_t(%d) changed %s[%d], which no equation assigns for this period' % (t, names[extra[0][0]], extra[0][1]))
        if st_changed - {p}:
            bad('status-outside-t', 'status/iterations changed at position(s) %s while solving position %d' % (sorted(st_changed - {p}), p))
        check_pass_logs(plogs)
        # every access of the whole call (get_check_values, offset copy, status) stays at t or t+offset, unwrapped
        for kind, x, i in obs['log']:
            if not isinstance(i, int):
                bad('solver-access-shape', 'unexpected index %r' % (i,))
                break
            srv = i if i >= 0 else i + n
            if not (0 <= srv < n) or srv - p != i - t:
                bad('read-wrapped' if kind == 'R' else 'write-wrapped', 'access at requested index %d while solving t=%d wrapped to position %d' % (i, t, srv))
                break
        return fails
    # ---- solve()
    a = case['start'] if case['start'] is not None else Li        # iter_periods' defaults follow the instance attributes
    b = case['end'] if case['end'] is not None else n - 1 - Ldi
    want = list(range(a, b + 1))
    unchanged = not changed and not st_changed
    if o['min_iter'] > o['max_iter']:
        if out[:2] != ['raise', 'ValueError'] or not unchanged:
            bad('min>max', 'min_iter > max_iter must raise ValueError and change nothing')
        return fails
    infeasible = [q for q in want if not L <= q < n - Ld]
    if out[0] == 'ret':
        if out[2] != want:
            bad('solve-positions', 'solve(start=%s, end=%s) visited %s, expected %s' % (case['start'], case['end'], out[2], want))
        if infeasible:
            bad('infeasible-period-served', 'solve(start=%s, end=%s) on a %d-period span with lags=%d leads=%d served position %d instead of rejecting it'
                % (case['start'], case['end'], n, L, Ld, infeasible[0]))
    elif infeasible:
        # a requested range that contains an infeasible period must END IN AN EXCEPTION — never a silently clipped range —,
        # the periods before the first infeasible one are solved in order, and if none of them raised on its own account the
        # exception is the rejection of that period (IndexError; SolutionError only for pre-existing non-finite values there)
        q0 = infeasible[0]
        if fortran:
            # no hook events on this engine: the statuses stamped tell how far it got
            reached = [q for q in want if q < q0 and q in st_changed]
            stopped_early = len(reached) < len([q for q in want if q < q0]) or (bool(reached) and (
                out[1] == 'NonConvergenceError' or (out[1] == 'SolutionError' and obs['status'][reached[-1]] == 'E')))
        else:
            evented = []
            for e in obs['events']:
                if e[0] == 'before' and e[1] not in evented:
                    evented.append(e[1])
            if q0 in evented:
                bad('infeasible-period-served', 'solve(start=%s, end=%s): the infeasible position %d was solved (hook / evaluation events recorded for it)' % (case['start'], case['end'], q0))
            if evented != want[:len(evented)]:
                bad('solve-positions', 'solve(start=%s, end=%s) solved positions %s, expected a prefix of %s' % (case['start'], case['end'], evented, want))
            stopped_early = len(evented) < len([q for q in want if q < q0]) or (evented and out[1] in ('NonConvergenceError',)) \
                or (evented and out[1] == 'SolutionError' and obs['status'][evented[-1]] == 'E')
        rejected_here = out[1] == 'IndexError' or (out[1] == 'SolutionError' and o['errors'] == 'raise' and any(_nonfinite(B[i][q0]) for i in obs['check']))
        if not stopped_early and not rejected_here:
            bad('infeasible-period-served', 'solve(start=%s, end=%s) on a %d-period span with lags=%d leads=%d reached the infeasible position %d and raised %s, expected IndexError'
                % (case['start'], case['end'], n, L, Ld, q0, out[1]))
    elif not infeasible and out[1] == 'IndexError' and (o['offset'] == 0 or all(0 <= q + o['offset'] < n for q in want)):
        bad('feasible-period-rejected', 'solve(start=%s, end=%s) over the feasible positions %s raised IndexError' % (case['start'], case['end'], want))
    visited = [q for q in want if not infeasible or q < infeasible[0]] if infeasible else want
    allowed = {(i, q + k) for q in visited for i, ks in lhs.items() for k in ks}
    if o['offset'] != 0 or (fortran and o['errors'] == 'replace'):
        allowed |= {(i, q) for q in visited for i in obs['endo']}
    extra = sorted(changed - allowed)
    if extra:
        bad('cell-outside-frame', 'solve(start=%s, end=%s) changed %s[%d], outside the periods it solves' % (case['start'], case['end'], names[extra[0][0]], extra[0][1]))
    if st_changed - set(visited):
        bad('status-outside-t', 'solve() changed status/iterations at %s, outside the periods it solves %s' % (sorted(st_changed - set(visited)), visited))
    check_pass_logs(plogs)
    for kind, x, i in obs['log']:
        if not isinstance(i, int) or not 0 <= i < n:
            bad('read-wrapped' if kind == 'R' else 'write-wrapped', 'solve() performed an access at index %r (negative or out of range: wrapped)' % (i,))
            break
    return fails


def oracle(case, obs):
    """the property judged on one observation; an observation so far off that it cannot even be judged (a name missing from the
    model, a malformed result) is itself reported, never a crash of the check"""
    try:
        return _oracle(case, obs)
    except Exception as e:       # noqa: BLE001
        return [{'sig': 'C04|observation-cannot-be-judged|' + type(e).__name__,
                 'what': 'the observation of this call is not of the expected form (%s: %s)' % (type(e).__name__, str(e)[:80])}]


def nontrivial(case, obs):
    if obs.get('skip') or obs.get('timeout'):
        return False
    if case['entry'] == 'linker':
        return obs['npasses'] >= 1 or obs['out'][0] == 'raise'
    if case['entry'] == 'history':
        return any(nontrivial(sc_, so_) for sc_, so_ in history_steps(case, obs))
    return obs['npasses'] >= 1 or obs['out'][0] == 'raise' or (obs.get('engine') == 'fortran' and obs['before'] != obs['after'])


def bucket(case, obs):
    if obs.get('timeout'):
        return 'timeout'
    if obs.get('skip'):
        return 'skip/' + obs['skip'].split(':')[0]
    if case['entry'] == 'linker':
        pp = _pos(case['t'], case['n'])
        return 'linker/%s%s/%s' % ('neg' if case['t'] < 0 else 'pos', '/infeasible' if not obs['lags'] <= pp < case['n'] - obs['leads'] else '',
                                   obs['out'][1] if obs['out'][0] == 'raise' else 'ret')
    if case['entry'] == 'solve_period':
        return '%ssolve_period/%s/%s' % ('fortran:' if obs.get('engine') == 'fortran' else '', case['span_kind'], obs['out'][1] if obs['out'][0] == 'raise' else 'ret')
    if case['entry'] == 'history':
        calls = [so_ for so_ in obs['history'] if so_.get('op') == 'solve_t']
        return 'history/%d calls/%d raised/%d edits' % (len(calls), sum(1 for so_ in calls if so_['out'][0] == 'raise'),
                                                        sum(1 for so_ in obs['history'] if so_.get('op') == 'edit'))
    out = obs['out']
    r = out[1] if out[0] == 'raise' else 'ret'
    extra = ''
    if case.get('span_kind'):
        extra += '/' + case['span_kind']
    if case['entry'] == 'solve_t':
        p = _pos(case['t'], case['n'])
        extra = '/neg' if case['t'] < 0 else '/pos'
        extra += '/infeasible' if not obs['lags'] <= p < case['n'] - obs['leads'] else ''
        extra += '/offset' if case['opts']['offset'] else ''
    if case.get('inst_lags') is not None or case.get('inst_leads') is not None:
        extra += '/inst-lowered' if (obs['lags'] < obs['class_lags'] or obs['leads'] < obs['class_leads']) else '/inst-raised'
    if obs.get('untranslatable'):
        extra += '/oracle-only'
    if case.get('setup'):
        extra += '/setup'
    return '%s%s%s/%s' % ('fortran:' if obs.get('engine') == 'fortran' else '', case['entry'], extra, r)


def shrink_candidates(case):
    if case['entry'] == 'linker' and case['sel'] is None:
        for sel in (['a'], ['b']):
            c = copy.deepcopy(case)
            c['sel'] = sel
            yield c
    if case['entry'] == 'history':
        for j in range(len(case['steps'])):
            if len(case['steps']) > 1:
                c = copy.deepcopy(case)
                del c['steps'][j]
                if any(s_.get('op', 'solve_t') == 'solve_t' for s_ in c['steps']):
                    yield c
        return
    if case['opts']['offset'] and case['entry'] != 'solve_t':
        c = copy.deepcopy(case)
        c['opts']['offset'] = 0
        yield c
    if case['n'] > 1:
        # drop the last period when nothing refers to it
        pass
    if len(case['eqs']) > 1 and len(case['script'].split('\n')) == len(case['eqs']):
        lines = case['script'].split('\n')
        for i in range(len(lines)):
            c = copy.deepcopy(case)
            c['script'] = '\n'.join(lines[:i] + lines[i + 1:])
            c['eqs'] = case['eqs'][:i] + case['eqs'][i + 1:]
            yield c
    for k in ('max_iter',):
        if case['opts'][k] > 1:
            c = copy.deepcopy(case)
            c['opts'][k] -= 1
            yield c
    if case['opts']['errors'] != 'raise':
        c = copy.deepcopy(case)
        c['opts']['errors'] = 'raise'
        yield c
