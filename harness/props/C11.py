"""C11 — copies and sibling instances share no mutable state.

K  : a history of operations / copies (three routes) / instantiations / class mutations is run on the real fsic objects and on the
     Coq heap model (Heap.run_hevents / Heap.check_kcase extracted to OCaml: ExtrOcamlBasic + ExtrOcamlString only, Z kept as Z,
     nat as nat; build products under coq/Extract/Heap/); compared: the full object tree below every root (instances AND class objects)
     and, for every pair of roots, the set of shared objects named by their first DFS paths (identity scan vs. the model's
     prediction of what is shared).
O  : the property itself on the real objects: a copy (each of the three routes) is of the same class, leaves the original as it
     was and shows the same observable state; after the history a mutation battery is applied to every root in turn (every reachable
     array / list / dict mutated, variables and attributes added, lags changed) and every OTHER root must be bit-for-bit unchanged;
     no mutable object is reachable from two roots; no class-level mutable is reachable from an instance.  Pairs that share because
     the CALLER shared (one span list handed to two constructors, models handed to a linker) are outside the claim; reindex()
     results must be as independent as copies (since fixes af303e7 / 28b2a9a).
"""
import copy as _copy
import glob
import hashlib
import json
import os
import subprocess
import threading

import lib

ID = 'C11'
PROPS_FILE = 'Props/C11.v'
MODEL_FILES = ['Heap/Heap.v']
K_NAME = ('K_heap (Heap.check_kcase extracted to OCaml: run_hevents = deepcopy with memo / VectorContainer.copy / BaseLinker.copy / the '
          '__init__ chain / reindex / every public operation as primitive heap actions, vs the real objects: the tree below every '
          'root (instances AND class objects) and the shared-object scan of every pair of roots; a case agrees when it agrees under '
          'one of the two memo policies of copy() the property allows: a fresh deepcopy memo per __dict__ entry, as the code does, or '
          'one memo for all entries)')
RULE = ('a case is a history over containers, parser-style BaseModel classes (CHECK is ENDOGENOUS or a separate list), Alias/Tracer '
        'mixin combinations and linkers with 1-3 submodels (identifiers incl. the default name \'_\', default / explicit / clashing linker '
        'names, l.name = ... as an operation): instantiation (range / tuple / list / caller-shared list span, strict), '
        'the three copy routes at random points, reindex, operations on either side (item / whole-series / scalar assignment, '
        'add_variable of five dtypes, attribute sets (scalars, lists, lists of lists, sets), strict, list mutations of names / check / endogenous / index / class lists, alias '
        'dict writes, solve_t with scripted _evaluate incl. traced solves, trace_t, Trace.names mutation, linker solve and submodel '
        'writes, storing one of the object\'s own lists under a second attribute), operations that raise included (a traced operation that raises half-way is replayed with the labels it stored). '
        'Non-trivial = at least two derived roots (instance / copy / sibling / reindex) and at least one successful operation after '
        'them; distinct by hash of the case.')
TRUSTED = ['walker of real objects -> (kind, cells) trees, identity scan (id()) and the scalar encoding in harness/props/C11.py',
           'scripted _evaluate (writes constants handed over by the harness)',
           'OCaml extraction of Heap.check_kcase (ExtrOcamlBasic/ExtrOcamlString) and harness/heap_driver.ml (reader of the case terms)',
           'for solve / trace_t the outcome (status, iterations, labels stored before an exception) is taken from the implementation run']
ASSUMPTIONS = ['claim is PARTIAL: the heap model abstracts CPython object semantics (identity = location, no gc, acyclic graphs, '
               'immutable values are opaque scalars); numpy / copy.deepcopy are modelled, not verified',
               'a span list handed to two constructors, and models handed to a linker, are shared by the CALLER (stored by reference); '
               'independence is claimed for arguments nobody else holds',
               'a VectorContainer nested inside another container\'s attribute (other than a linker\'s submodels) is outside the model',
               'the model\'s copy is DEFINED only on objects whose __dict__ entries are acyclic graphs of lists / dicts / sets / arrays / '
               'plain objects (Props/C11.v C11_copy_defined); a container stored in an ordinary attribute (m.other = another_model), '
               'linkers of linkers and cyclic graphs are outside the model (Python copies the first two): not generated, theorems silent',
               'K compares the __dict__ of an instance as a map and `_attributes` as a set; `index` order, the Trace layout (index / '
               'values dtype) and the order of every other list ARE compared (K is stricter than the oracle there: a K-only disagreement '
               'is reported as no-failing-input-found)',
               'the span-equality check between the submodels of a linker (InitialisationError) is not modelled: a failing construction '
               'ends the history on both sides; the name-vs-identifier test (DuplicateNameError) IS modelled (ELinkerInit, linker_copy_M)',
               'copy() constructs a new instance of the class AS IT IS NOW: a copy route that raises is a violation unless the object is '
               'one its own constructor refuses - a class mutated so that M(span) itself raises (duplicate in NAMES, an alias shadowing a '
               'variable; such mutations are generated), or a linker whose name was set to one of its submodel identifiers',
               'equality at copy time = equality of the whole __dict__ (values, dtypes, lists, entries); aliasing BETWEEN '
               'entries of one object (only the user creates it: m.mine = m.names) may be kept or dropped by copy() - both memo policies '
               'are accepted by K and covered by the theorems - aliasing the copy ADDS is a failure',
               'traced models only get float variables (NumPy coerces the mixed column of a trace; not modelled)']
EXHAUSTIVE = {'quick': False, 'thorough': False}
CASE_TIMEOUT = 120     # wall clock per case; a case takes ~20 ms, the margin is for loaded machines (a timeout is reported, never ignored)
DEPTH = 8

WK = ['span', 'index', '_strict', '_attributes', 'dtype', 'status', 'iterations', 'names', 'lags', 'leads', 'endogenous', 'check',
      'engine', 'aliases', 'preferred_names', 'trace', 'submodels', 'name', '_LAGS', '_LEADS', 'values', 'NAMES', 'ENDOGENOUS',
      'CHECK', 'LAGS', 'LEADS', 'ALIASES', 'PREFERRED_NAMES', 'TRACE_VARIABLES', '_VALID_INDEX_METHODS', 'F_MODEL', 'F_ALIAS',
      'F_TRACER', 'strict', 'EXOGENOUS']
WKI = {s: i for i, s in enumerate(WK)}
BASE = [['s', '-'], ['s', '.'], ['s', 'F'], ['s', 'python'], ['o', 'float64'], ['o', 'int64'], ['o', '<U1'], ['o', 'object'],
        ['o', 'bool'], ['o', "<class 'float'>"], ['b', False], ['b', True], ['n', 0], ['f', '0x0.0p+0'], ['s', 'start'],
        ['s', 'before'], ['s', 'end'], ['s', '_'], ['f', 'nan']]


# --------------------------------------------------------------------------- scalar encoding
def skey(x):
    """canonical key of an immutable Python value (None when x is a plain int, which is encoded directly)"""
    import numpy as np
    if isinstance(x, (bool, np.bool_)):
        return ['b', bool(x)]
    if isinstance(x, (int, np.integer)):
        return None
    if isinstance(x, (float, np.floating)):
        return ['f', lib.fhex(float(x))]
    if isinstance(x, str):
        return ['s', str(x)]
    if x is None:
        return ['n', 0]
    if isinstance(x, type):
        return ['o', repr(x)]
    if isinstance(x, np.dtype):
        return ['o', str(x)]
    if callable(x):
        return ['o', 'callable:' + getattr(x, '__name__', '?')]
    return ['o', repr(x)]


class Enc:
    def __init__(self, vocab):
        self.vocab = [list(v) for v in vocab]
        self.tab = {}
        for i, v in enumerate(self.vocab):
            self.tab.setdefault(repr(v), i)

    def add(self, x):
        k = skey(x)
        if k is None or (k[0] == 's' and k[1] in WKI):
            return
        if repr(k) not in self.tab:
            self.tab[repr(k)] = len(self.vocab)
            self.vocab.append(k)

    def code(self, x):
        k = skey(x)
        if k is None:
            return 2 * int(x)
        if k[0] == 's' and k[1] in WKI:
            return 2 * WKI[k[1]] + 1
        if repr(k) not in self.tab:
            # a scalar the case did not announce (a value computed by a parser-built model's own equations): a code that depends
            # on the value only, never on the order in which the two sides meet it
            return 2 * (2 ** 40 + int(hashlib.md5(repr(k).encode()).hexdigest()[:10], 16)) + 1
        return 2 * (len(WK) + self.tab[repr(k)]) + 1


def akey(c):
    return 2 * c


def vkey(c):
    return 2 * c + 1


# --------------------------------------------------------------------------- walking real objects
def _is_container(x):
    import fsic
    return isinstance(x, fsic.core.containers.VectorContainer)


def _is_trace(x):
    from fsic.extensions.model import Trace
    return isinstance(x, Trace)


def is_mutable(x):
    import numpy as np
    return isinstance(x, (list, dict, set, np.ndarray)) or _is_container(x) or _is_trace(x) or isinstance(x, ClassRoot)



class RawCode:
    """a scalar whose model code is fixed (the structure flags F_MODEL / F_ALIAS / F_TRACER of a class object)"""
    def __init__(self, c):
        self.c = c

    def __repr__(self):
        return 'RawCode(%d)' % self.c


class ClassRoot:
    """A class object seen as a root: its class-level attributes in the order of the model's class object."""
    def __init__(self, cls, desc):
        self.cls, self.desc = cls, desc

    def items(self):
        d, c = self.desc, self.cls
        out = []
        if d['kind'] != 'container':
            for a in ('NAMES', 'ENDOGENOUS', 'EXOGENOUS', 'CHECK') + (('LAGS', 'LEADS') if d['kind'] == 'model' else ()):
                out.append((a, getattr(c, a)))
        if d['alias'] is not None:
            out += [('ALIASES', c.ALIASES), ('PREFERRED_NAMES', c.PREFERRED_NAMES)]
        if d['tracer']:
            out.append(('TRACE_VARIABLES', c.TRACE_VARIABLES))
        out += [('F_MODEL', RawCode({'container': 0, 'model': 1, 'linker': 2}[d['kind']])),
                ('F_ALIAS', RawCode(1 if d['alias'] is not None else 0)), ('F_TRACER', RawCode(1 if d['tracer'] else 0))]
        return out


def kind_cells(x, enc):
    """-> ((kind code pair), [(key, child)]) with children raw Python values, keys already encoded"""
    import numpy as np
    if isinstance(x, ClassRoot):
        return (5, 0), [(akey(enc.code(a)), v) for a, v in x.items()]
    if _is_container(x):
        index = x.__dict__.get('index', [])
        cells = []
        for k, v in x.__dict__.items():
            # a series is stored under '_' + name (an ndarray); whether the name is (still) listed in `index` is part of the
            # observed `index` list, not of the key
            if k.startswith('_') and (k[1:] in index or isinstance(v, np.ndarray)):
                cells.append((vkey(enc.code(k[1:])), v))
            else:
                cells.append((akey(enc.code(k)), v))
        # the __dict__ is compared as a MAP: sorted by key code (the insertion order of the entries is no observable of the property)
        return (4, 0), sorted(cells, key=lambda kv: kv[0])
    if _is_trace(x):
        return (3, 1), [(akey(enc.code(k)), v) for k, v in x.__dict__.items()]
    if isinstance(x, list):
        return (1, 0), list(enumerate(x))
    if isinstance(x, set):
        return (3, 2), list(enumerate(sorted(x, key=enc.code)))
    if isinstance(x, dict):
        return (2, 0), [(enc.code(k), v) for k, v in x.items()]
    if isinstance(x, np.ndarray):
        flat = x.T.flatten() if x.ndim == 2 else x.flatten()
        if x.dtype == object:
            return (0, enc.code(x.dtype)), list(enumerate(list(flat)))
        return (0, enc.code(x.dtype)), list(enumerate(flat.tolist()))
    raise AssertionError(type(x))


def ctree(x, enc, depth, as_set=False):
    if isinstance(x, RawCode):
        return x.c
    if not is_mutable(x):
        return enc.code(x)
    if depth == 0:
        return 'cut'
    kd, cells = kind_cells(x, enc)
    if as_set:          # `_attributes`: the names as a sorted list of codes
        return [list(kd), [[i, c] for i, c in enumerate(sorted(enc.code(v) if not is_mutable(v) else 0 for _, v in cells))]]
    attrs = akey(enc.code('_attributes')) if _is_container(x) else None
    return [list(kd), [[k, ctree(v, enc, depth - 1, as_set=(k == attrs))] for k, v in cells]]


def dfs_paths(root, enc):
    """first-visit DFS (cells in order): list of (object, path) — same algorithm as Heap.dfs"""
    seen, order = {}, []
    todo = [(root, [])]
    while todo:
        x, p = todo.pop(0)
        if id(x) in seen:
            continue
        seen[id(x)] = p
        order.append((x, p))
        _, cells = kind_cells(x, enc)
        kids = [(v, p + [k]) for k, v in cells if is_mutable(v)]
        todo = kids + todo
    return order


def sharing(roots, enc):
    paths = [dfs_paths(r, enc) for r in roots]
    out = []
    for i in range(len(roots)):
        for j in range(i + 1, len(roots)):
            pj = {id(x): p for x, p in paths[j]}
            l = [[p, pj[id(x)]] for x, p in paths[i] if id(x) in pj]
            if l:
                out.append([i, j, l])
    return out


def snapshot(x, memo=None):
    """address-free, order-insensitive (for __dict__) canonical state used by the oracle"""
    import numpy as np
    if isinstance(x, ClassRoot):
        return ['class', x.cls.__name__, [[a, snapshot(v)] for a, v in x.items()]]
    if _is_container(x):
        return ['inst', type(x).__name__, sorted([[k, snapshot(v)] for k, v in x.__dict__.items()], key=lambda kv: kv[0])]
    if _is_trace(x):
        return ['trace', [[k, snapshot(v)] for k, v in sorted(x.__dict__.items())]]
    if isinstance(x, list):
        return ['list', [snapshot(v) for v in x]]
    if isinstance(x, set):
        return ['set', sorted(json.dumps(snapshot(v)) for v in x)]
    if isinstance(x, dict):
        return ['dict', [[snapshot(k), snapshot(v)] for k, v in x.items()]]
    if isinstance(x, np.ndarray):
        return ['arr', str(x.dtype), list(x.shape), [snapshot(v) for v in (x.flatten().tolist() if x.dtype != object else list(x.flatten()))]]
    k = skey(x)
    return ['i', int(x)] if k is None else k


def internal_aliases(root, enc):
    """pairs of distinct paths of one root that lead to the same object (aliasing inside one object graph)"""
    import numpy as np
    first, out = {}, []

    def walk(x, p, stack):
        if not is_mutable(x) or id(x) in stack:
            return
        if id(x) in first:
            out.append([first[id(x)], p])
            return
        first[id(x)] = p
        _, cells = kind_cells(x, enc)
        for k, v in cells:
            walk(v, p + [k], stack | {id(x)})
    walk(root, [], frozenset())
    return sorted(out)


# --------------------------------------------------------------------------- the real classes
CUR = {'writes': {}}


def make_class(desc, idx):
    import fsic
    from fsic.extensions import AliasMixin
    from fsic.extensions.model import TracerMixin
    base = {'container': fsic.core.containers.VectorContainer, 'model': fsic.BaseModel, 'linker': fsic.BaseLinker}[desc['kind']]
    bases = []
    if desc['tracer']:
        bases.append(TracerMixin)
    if desc['alias'] is not None:
        bases.append(AliasMixin)
    if desc.get('pandas'):
        # PandasIndexFeaturesMixin only overrides reindex() (C12); stacked here to have the whole mixin tower in the MRO of __init__ / copy()
        from fsic.extensions.model import PandasIndexFeaturesMixin
        bases.append(PandasIndexFeaturesMixin)
    ns = {}
    if desc['kind'] != 'container':
        endo = list(desc['endo'])
        exo = list(desc['exo'])
        ns.update(ENDOGENOUS=endo, EXOGENOUS=exo, NAMES=endo + exo, CHECK=endo if desc['check'] is None else list(desc['check']))
        if desc['kind'] == 'model':          # BaseLinker.LAGS / LEADS are properties (longest lag / lead among the submodels)
            ns.update(LAGS=desc['lags'], LEADS=desc['leads'])
    if desc['alias'] is not None:
        ns.update(ALIASES=dict(desc['alias']), PREFERRED_NAMES=list(desc['preferred']))
    if desc['tracer']:
        ns.update(TRACE_VARIABLES=None if desc['trace_vars'] is None else list(desc['trace_vars']))
    if desc.get('parsed'):
        # a class built by the parser (fsic.build_model(fsic.parse_model(script))): its own class-level lists and its own _evaluate
        parsed = fsic.build_model(fsic.parse_model(desc['parsed']))
        assert (list(parsed.ENDOGENOUS), list(parsed.EXOGENOUS), list(parsed.NAMES), parsed.LAGS, parsed.LEADS, parsed.CHECK is parsed.ENDOGENOUS) == \
               (desc['endo'], desc['exo'], desc['endo'] + desc['exo'], desc['lags'], desc['leads'], True), 'parser output differs from the case description'
        ns = {k: v for k, v in ns.items() if k in ('ALIASES', 'PREFERRED_NAMES', 'TRACE_VARIABLES')}
        return type('M%d' % idx, tuple(bases) + (parsed,), ns)
    if desc['kind'] == 'model':
        def _evaluate(self, t, **kwargs):
            for name, v in CUR['writes'].get(id(self), []):
                self.__dict__['_' + name][t] = v
        base2 = type('Scripted%d' % idx, (base,), {'_evaluate': _evaluate})
        return type('M%d' % idx, tuple(bases) + (base2,), ns)
    return type('M%d' % idx, tuple(bases) + (base,), ns)


def make_span(sd, labels_only=False):
    """the span object handed to the constructor (labels_only: its labels as a plain list of Python ints)"""
    vals = list(range(sd['start'], sd['start'] + sd['n']))
    if sd['kind'] == 'pdindex' and not labels_only:          # an (immutable) pandas Index as span
        import pandas as pd
        return pd.Index(vals)
    if sd['kind'] == 'pdperiod' and not labels_only:         # a PeriodIndex (annual periods)
        import pandas as pd
        return pd.period_range(start=str(1990 + sd['start'] % 50), periods=sd['n'], freq='Y')
    if sd['kind'] == 'ndarray' and not labels_only:          # a mutable NumPy array as span (copy() must deep-copy it like a list)
        import numpy as np
        return np.array(vals)
    if labels_only:
        return vals
    return {'range': range(sd['start'], sd['start'] + sd['n']), 'tuple': tuple(vals), 'list': vals}[sd['kind']]


def np_value(vals, dtype):
    import numpy as np
    dt = {'float': float, 'int': int, 'bool': bool, 'str': str, 'object': object}[dtype]
    return np.array(vals).astype(dt) if dtype != 'object' else np.array(vals, dtype=object)


# --------------------------------------------------------------------------- implementation side
def impl(case):
    import numpy as np
    import fsic  # noqa: F401
    # lists of the case are handed to fsic (trace=[...]: stored by reference in the Trace) and may be mutated by the probes below:
    # work on a private copy in which no two events share a list
    case = json.loads(json.dumps(case))
    enc = Enc(case['vocab'])
    classes = [make_class(d, i) for i, d in enumerate(case['classes'])]
    roots = [ClassRoot(c, d) for c, d in zip(classes, case['classes'])]
    shared_spans = [make_span(sd) for sd in case['shared_spans']]
    outcomes = []
    ever_shared = {}
    copy_checks = []
    derived = []           # (new root index, kind, source root index)

    def live(i):
        r = roots[i]
        return r.cls if isinstance(r, ClassRoot) else r

    for ev in case['events']:
        kind = ev[0]
        out = {}
        try:
            if kind == 'init':
                _, ci, a = ev
                cls = classes[ci]
                sp = shared_spans[a['span']['id']] if a['span']['kind'] == 'shared' else make_span(a['span'])
                if case['classes'][ci]['kind'] == 'container':
                    obj = cls(sp, strict=a['strict'])
                else:
                    kwargs = {k: list(map(lib.unhex, v)) for k, v in a['initial'].items()}
                    if a.get('initial_from'):        # an initial value that is ANOTHER object's array (the array object itself is passed)
                        f = a['initial_from']
                        kwargs[f['name']] = roots[f['j']].__dict__['_' + f['src']]
                    obj = cls(sp, strict=a['strict'], **kwargs)
                roots.append(obj)
                derived.append([len(roots) - 1, 'init', ci])
            elif kind == 'copy':
                _, i, route = ev
                src = roots[i]
                before = snapshot(src)
                try:
                    new = {'copy': lambda x: x.copy(), 'copy.copy': _copy.copy, 'copy.deepcopy': _copy.deepcopy}[route](src)
                except Exception as e:      # a copy route that RAISES returns no object at all: recorded for the oracle
                    # ... unless the object is one its own constructor refuses: (a) the class was mutated into a state in which
                    # constructing a fresh instance on the same span raises too (a broken class: duplicate in NAMES, an alias shadowing
                    # a variable), (b) a linker whose `name` was set to one of its submodel identifiers
                    excused = _refused_by_own_constructor(src)
                    copy_checks.append({'src': i, 'route': route, 'raised': type(e).__name__, 'excused': excused})
                    raise
                roots.append(new)
                derived.append([len(roots) - 1, 'copy', i])
                copy_checks.append({'src': i, 'new': len(roots) - 1, 'route': route, 'same_class': type(new) is type(src),
                                    'src_unchanged': snapshot(src) == before,
                                    'equal': snapshot(new) == snapshot(src),
                                    'diff': _dict_diff(src, new),
                                    'aliases_src': internal_aliases(src, enc), 'aliases_new': internal_aliases(new, enc)})
            elif kind == 'linker_init':
                ci, subs = ev[1], ev[2]
                name = ev[3] if len(ev) > 3 else None
                obj = classes[ci]({k: roots[j] for k, j in subs}) if name is None else classes[ci]({k: roots[j] for k, j in subs}, name=name)
                roots.append(obj)
                derived.append([len(roots) - 1, 'linker_init', ci])
            elif kind == 'reindex':
                i, sd = ev[1], ev[2]
                src = roots[i]
                new = src.reindex(src.__dict__['span'] if sd.get('own') else make_span(sd))     # own: reindex(obj.span), the object's own span object
                roots.append(new)
                derived.append([len(roots) - 1, 'reindex', i])
            elif kind == 'op':
                out = run_op(roots, ev[1], ev[2], enc)
            else:
                raise AssertionError(kind)
        except Exception as e:  # observation: the operation raised (nothing else recorded)
            out = {'exc': type(e).__name__}
        outcomes.append(out)
        if 'exc' in out and kind != 'op':
            break             # a constructor / copy raised: the history ends here (on both sides)
        # identity scan after EVERY event (a sharing that a later operation undoes must not go unnoticed)
        for a, b, l in sharing(roots, enc):
            ever_shared.setdefault('%d,%d' % (a, b), [len(outcomes) - 1, l[0]])

    obs = {'outcomes': outcomes,
           'views': [ctree(r, enc, DEPTH) for r in roots],
           'sharing': sharing(roots, enc),
           'copy_checks': copy_checks, 'derived': derived, 'nroots': len(roots), 'ever_shared': ever_shared}
    # class-level mutables reachable from instances
    leaks = []
    class_mut = {}
    for ci, c in enumerate(classes):
        for k in c.__mro__:
            for a, v in vars(k).items():
                if isinstance(v, (list, dict, set)):
                    class_mut.setdefault(id(v), '%s.%s' % (k.__name__ if k.__module__.startswith('fsic') else 'M', a))
    for i, r in enumerate(roots):
        if isinstance(r, ClassRoot):
            continue
        for x, p in dfs_paths(r, enc):
            if id(x) in class_mut:
                leaks.append([i, class_mut[id(x)], p])
    obs['class_leaks'] = leaks
    # ---- mutation battery: mutate every root in turn, every other root must stay exactly as it was
    probes = []
    for i in range(len(roots)):
        before = [snapshot(r) for r in roots]
        done = mutate_everything(roots[i])
        for j in range(len(roots)):
            if j != i and snapshot(roots[j]) != before[j]:
                probes.append([i, j, _first_diff(before[j], snapshot(roots[j]))])
        obs.setdefault('mutated', []).append(done)
    obs['probes'] = probes
    obs['vocab_size'] = len(enc.vocab)
    return obs


def _refused_by_own_constructor(x):
    """why an object cannot be re-created by its own class (None: it can): copy() constructs a new instance of the class as it is now"""
    if not _is_container(x):
        return None
    subs = x.__dict__.get('submodels')
    if isinstance(subs, dict):
        if x.__dict__.get('name') in subs:
            return 'linker-name-is-a-submodel-identifier'
        for v in subs.values():
            why = _refused_by_own_constructor(v)
            if why:
                return why
        try:
            type(x)({})
        except Exception:
            return 'class-constructor-raises'
        return None
    try:
        type(x)(_copy.deepcopy(x.__dict__['span']))
    except Exception:
        return 'class-constructor-raises'
    return None


def _dict_diff(src, new):
    """keys of __dict__ that differ between original and copy (names only)"""
    if not (_is_container(src) and _is_container(new)):
        return []
    a, b = src.__dict__, new.__dict__
    out = []
    for k in sorted(set(a) | set(b)):
        if k not in a:
            out.append(['extra', k])
        elif k not in b:
            out.append(['missing', k])
        elif snapshot(a[k]) != snapshot(b[k]):
            if k == 'submodels' and isinstance(a[k], dict) and isinstance(b[k], dict) and list(a[k]) == list(b[k]):
                for key in a[k]:
                    out += [[d[0], '%s[%s].%s' % (k, key, d[1])] for d in _dict_diff(a[k][key], b[k][key])]
            else:
                out.append(['differs', k])
    return out


def _first_diff(a, b, path=''):
    if type(a) != type(b) or not isinstance(a, list):
        return path if a != b else None
    if len(a) != len(b):
        return path + '/len'
    for k, (x, y) in enumerate(zip(a, b)):
        d = _first_diff(x, y, path + '/' + (str(x[0]) if isinstance(x, list) and x and isinstance(x[0], str) and len(x) == 2 else str(k)))
        if d is not None:
            return d
    return None


def mutate_everything(root):
    """change every mutable component reachable from root, then use the public operations"""
    import numpy as np
    n = 0
    enc = Enc([])
    for x, _ in dfs_paths(root, enc):
        if isinstance(x, np.ndarray):
            if x.dtype == object or x.size == 0:
                continue
            if x.dtype == bool:
                x[...] = ~x
            elif np.issubdtype(x.dtype, np.number):
                x[...] = x + 1000
            else:
                x[...] = 'Z'
            n += 1
        elif isinstance(x, list):
            x.append('PROBE')
            n += 1
        elif isinstance(x, dict):
            x['PROBE'] = 'PROBE'
            n += 1
        elif isinstance(x, set):
            x.add('PROBE')
            n += 1
    if _is_container(root):
        try:
            root.__dict__['_strict'] = False
            root.add_variable('PROBE_V', 7.0)
            root.PROBE_A = [1, 2]
            if 'lags' in root.__dict__:
                root.lags = 9
                root.leads = 9
            n += 3
        except Exception:
            pass
    return n


def _trace_state(x, t):
    tr = getattr(x, '__dict__', {}).get('_trace')
    if tr is None or not isinstance(t, int) or not 0 <= t < len(tr) or not _is_trace(tr[t]):
        return None
    o = tr[t]
    return (o, len(o.index), o.values.shape[1] if o.values.ndim == 2 else 0)


def run_op(roots, i, o, enc):
    """one operation on the real object.  A traced operation that raises may already have stored something in the Trace of
    period t (TracerMixin.solve_t traces 'start' before the feasibility guard of BaseModel.solve_t; Trace.append appends the label
    before np.hstack rejects a column of another height): which labels were stored completely / label-only is recorded with the
    exception so that the model is driven through the same partial operation"""
    if o[0] in ('solve', 'trace_t'):
        r = roots[i]
        x = r.cls if isinstance(r, ClassRoot) else r
        before = _trace_state(x, o[1])
        try:
            return run_op_(roots, i, o, enc)
        except Exception as e:
            after = _trace_state(x, o[1])
            traced = {'labels': [], 'full': 0}
            if after is not None:
                replaced = before is None or before[0] is not after[0]
                traced = {'labels': list(after[0].index[(0 if replaced else before[1]):]), 'full': after[2] - (0 if replaced else before[2])}
            return {'exc': type(e).__name__, 'traced': traced}
    return run_op_(roots, i, o, enc)


def run_op_(roots, i, o, enc):
    import numpy as np
    r = roots[i]
    x = r.cls if isinstance(r, ClassRoot) else r
    k = o[0]
    if k == 'setitem':
        _, name, pos, v, how = o
        if how == 'label':
            x[name, x.span[pos]] = lib.unhex(v) if isinstance(v, str) else v
        else:
            getattr(x, name)[pos] = lib.unhex(v) if isinstance(v, str) else v
    elif k == 'setseq':
        _, name, vals, how = o
        vs = [lib.unhex(v) for v in vals]
        if how == 'attr':
            setattr(x, name, vs)
        elif how == 'item':
            x[name] = vs
        else:
            x.replace_values(**{name: vs})
    elif k == 'setscalar':
        setattr(x, o[1], lib.unhex(o[2]))
    elif k == 'addvar':
        _, name, vals, dtype = o
        vs = [lib.unhex(v) if dtype == 'float' else v for v in vals]
        dt = {'float': float, 'int': int, 'bool': bool, 'str': str, 'object': object}[dtype]
        x.add_variable(name, vs if len(vs) != 1 else vs[0], dtype=dt)
    elif k == 'setattr':
        setattr(x, o[1], o[2])
    elif k == 'setattrlist':
        setattr(x, o[1], list(o[2]))
    elif k == 'setattrnested':        # a list of lists
        setattr(x, o[1], [list(v) for v in o[2]])
    elif k == 'setattrset':
        setattr(x, o[1], set(o[2]))
    elif k == 'setattrdict':
        setattr(x, o[1], {a: b for a, b in o[2]})
    elif k == 'setattrdictlists':
        setattr(x, o[1], {a: list(b) for a, b in o[2]})
    elif k == 'strict':
        x.strict = o[1]
    elif k == 'setfrom':             # whole-series assignment whose VALUE is ANOTHER object's array (same dtype): b.X = a.X
        _, name, j, name2, how = o
        other = roots[j]
        value = (other.cls if isinstance(other, ClassRoot) else other).__dict__['_' + name2]      # the array object itself
        if how == 'attr':
            setattr(x, name, value)
        elif how == 'item':
            x[name] = value
        else:
            x.replace_values(**{name: value})
    elif k == 'addvar_from':          # obj.add_variable(name, <another object's array>)
        _, name, j, name2 = o
        x.add_variable(name, roots[j].__dict__['_' + name2])
    elif k == 'setattr_own':          # obj.name = obj.<attr>: the user aliases one of the object's own lists under a second attribute
        setattr(x, o[1], x.__dict__[o[2]])
    elif k == 'lappend':
        getattr(x, o[1]).append(o[2])
    elif k == 'lreplace':
        getattr(x, o[1])[:] = list(o[2])
    elif k == 'lsetitem':
        getattr(x, o[1])[o[2]] = o[3]
    elif k == 'dictset':
        getattr(x, o[1])[o[2]] = o[3]
    elif k == 'solve':
        _, t, writes, trace = o
        CUR['writes'] = {id(x): [(nm, lib.unhex(v)) for nm, v in writes]}
        kw = {} if trace is None else {'trace': trace}
        try:
            x.solve_t(t, **kw)
        finally:
            CUR['writes'] = {}
        # (a parser-built class runs its own equations: what they left in period t is what the model's passes write)
        return {'status': str(x.status[t]), 'iters': int(x.iterations[t]),
                'final': [[nm, lib.fhex(x.__dict__['_' + nm][t])] for nm in type(x).ENDOGENOUS if '_' + nm in x.__dict__]}
    elif k == 'trace_t':
        _, t, label, trace, reset = o
        x.trace_t(t, label, trace=trace, reset=reset)
    elif k == 'tnames_append':
        x.trace[o[1]].names.append(o[2])
    elif k == 'sub_setitem':
        _, key, name, pos, v = o
        x.submodels[key][name][pos] = lib.unhex(v)
    elif k == 'sub_lappend':
        getattr(x.submodels[o[1]], o[2]).append(o[3])
    elif k == 'lsolve':
        _, t, writes = o
        CUR['writes'] = {id(x.submodels[key]): [(nm, lib.unhex(v)) for nm, v in ws] for key, ws in writes}
        try:
            x.solve_t(t)
        finally:
            CUR['writes'] = {}
        return {'status': str(x.status[t]), 'iters': int(x.iterations[t])}
    else:
        raise AssertionError(o)
    return {}


# --------------------------------------------------------------------------- Coq encoding
def cz(i):
    return lib.cZ(i)


def czl(xs):
    return lib.clist(cz(x) for x in xs)


def cpairs(ps):
    return lib.clist('(%s, %s)' % (cz(a), cz(b)) for a, b in ps)


def c_obj(kind, cells):
    return '(mkObj %s %s)' % (kind, lib.clist('(%s, %s)' % (cz(k), v) for k, v in cells))


def c_ctree(t):
    if t == 'cut':
        return 'CCut'
    if isinstance(t, int):
        return '(CS %s)' % cz(t)
    kd, cells = t
    return '(CO (%s, %s) %s)' % (cz(kd[0]), cz(kd[1]), lib.clist('(%s, %s)' % (cz(k), c_ctree(v)) for k, v in cells))


def c_sharing(sh):
    return lib.clist('(%d%%nat, %d%%nat, %s)' % (i, j, lib.clist('(%s, %s)' % (czl(p), czl(q)) for p, q in l)) for i, j, l in sh)


def initial_heap(case, enc):
    """class objects (and their class-level lists / dicts) followed by the caller-shared span lists; -> (objs, roots, span locs)"""
    objs, roots = [], []

    def alloc(term):
        objs.append(term)
        return len(objs) - 1

    def lst(vals):
        return alloc(c_obj('KList', [(i, '(VS %s)' % cz(enc.code(v))) for i, v in enumerate(vals)]))
    for d in case['classes']:
        cells = []
        if d['kind'] != 'container':
            endo = lst(d['endo'])
            exo = lst(d['exo'])
            names = lst(list(d['endo']) + list(d['exo']))
            check = endo if d['check'] is None else lst(d['check'])
            cells += [('NAMES', 'VR %d%%nat' % names), ('ENDOGENOUS', 'VR %d%%nat' % endo), ('EXOGENOUS', 'VR %d%%nat' % exo),
                      ('CHECK', 'VR %d%%nat' % check)]
            if d['kind'] == 'model':
                cells += [('LAGS', 'VS %s' % cz(enc.code(d['lags']))), ('LEADS', 'VS %s' % cz(enc.code(d['leads'])))]
        if d['alias'] is not None:
            al = alloc(c_obj('KDict', [(enc.code(k), '(VS %s)' % cz(enc.code(v))) for k, v in d['alias'].items()]))
            pr = lst(d['preferred'])
            cells += [('ALIASES', 'VR %d%%nat' % al), ('PREFERRED_NAMES', 'VR %d%%nat' % pr)]
        if d['tracer']:
            if d['trace_vars'] is None:
                cells.append(('TRACE_VARIABLES', 'VS %s' % cz(enc.code(None))))
            else:
                cells.append(('TRACE_VARIABLES', 'VR %d%%nat' % lst(d['trace_vars'])))
        cells += [('F_MODEL', 'VS %d' % {'container': 0, 'model': 1, 'linker': 2}[d['kind']]),
                  ('F_ALIAS', 'VS %d' % (1 if d['alias'] is not None else 0)), ('F_TRACER', 'VS %d' % (1 if d['tracer'] else 0))]
        roots.append(alloc(c_obj('KClass', [(akey(enc.code(a)), '(%s)' % v) for a, v in cells])))
    spans = [lst(list(make_span(sd))) for sd in case['shared_spans']]
    return objs, roots, spans


def c_consts(enc):
    import numpy as np
    vals = [enc.code('-'), enc.code(-1), enc.code(np.dtype('<U1')), enc.code(np.dtype('int64')), enc.code(np.dtype('object')),
            enc.code(np.dtype('float64')), enc.code(False), enc.code('python'), enc.code(0.0), enc.code('_'),
            enc.code(np.dtype('float64')), enc.code(float)]
    # last field: the memo policy of copy(); the driver evaluates the case under both policies (see harness/heap_driver.ml)
    return '(mkConsts %s false)' % ' '.join(cz(v) for v in vals)


def c_span_src(sd, enc, span_locs):
    if sd.get('own') and sd['kind'] in ('list', 'ndarray'):
        # the span object of the source itself: the result (a copy at that point) reads its own equal copy of it; reindex deep-copies it
        return '(SAlias %s)' % czl([akey(enc.code('span'))])
    if sd['kind'] == 'shared':
        return '(SArg %d%%nat)' % span_locs[sd['id']]
    sp = make_span(sd)
    if sd['kind'] == 'list':
        return '(new_list %s)' % czl(enc.code(v) for v in sp)
    if sd['kind'] == 'ndarray':
        return '(new_arr %s %s)' % (cz(enc.code(sp.dtype)), czl(enc.code(v) for v in sp.tolist()))
    return '(SScalar %s)' % cz(enc.code(sp))


def c_tmode(trace, desc, enc):
    if trace is True:
        return 'TMNames' if desc['trace_vars'] is None else 'TMClass'
    if isinstance(trace, str):
        trace = [trace]
    return '(TMUser %s)' % czl(enc.code(v) for v in trace)


def c_ops(case, ev, out, enc, kinds):
    """the Coq op list of one 'op' event (empty when the real operation raised before doing anything we model)"""
    i, o = ev[1], ev[2]
    k = o[0]
    desc = kinds[i]['desc']
    n = kinds[i].get('n', 0)

    def val(v):
        return enc.code(lib.unhex(v)) if isinstance(v, str) and (v.startswith(('0x', '-0x')) or v in ('nan', 'inf', '-inf')) else enc.code(v)
    if k == 'setitem':
        return ['(OSetItem %s %s %s)' % (cz(enc.code(o[1])), cz(o[2]), cz(val(o[3])))]
    if k == 'setseq':
        return ['(OSetAttrSeq %s %s)' % (cz(enc.code(o[1])), czl(val(v) for v in o[2]))]
    if k == 'setscalar':
        return ['(OSetAttrScalar %s %s)' % (cz(enc.code(o[1])), cz(val(o[2])))]
    if k == 'addvar':
        _, name, vals, dtype = o
        vs = [lib.unhex(v) if dtype == 'float' else v for v in vals]
        arr = np_value(vs if len(vs) != 1 else [vs[0]] * n, dtype)
        cells = arr.tolist() if dtype != 'object' else list(arr)
        return ['(OAddVariable %s %s %s)' % (cz(enc.code(name)), cz(enc.code(arr.dtype)), czl(enc.code(v) for v in cells))]
    if k == 'setattr':
        return ['(OSetAttr %s %s)' % (cz(enc.code(o[1])), cz(enc.code(o[2])))]
    if k == 'setattrlist':
        return ['(OSetAttrList %s %s)' % (cz(enc.code(o[1])), czl(enc.code(v) for v in o[2]))]
    if k == 'setattrnested':
        return ['(OSetAttrNested %s %s)' % (cz(enc.code(o[1])), lib.clist(czl(enc.code(v) for v in vs) for vs in o[2]))]
    if k == 'setattrdictlists':
        return ['(OSetAttrDictOfLists %s %s)' % (cz(enc.code(o[1])), lib.clist('(%s, %s)' % (cz(enc.code(a)), czl(enc.code(v) for v in b)) for a, b in o[2]))]
    if k == 'setattrdict':
        return ['(OSetAttrDict %s %s)' % (cz(enc.code(o[1])), cpairs((enc.code(a), enc.code(b)) for a, b in o[2]))]
    if k == 'setattrset':
        return ['(OSetAttrSet %s %s)' % (cz(enc.code(o[1])), czl(sorted(enc.code(v) for v in set(o[2]))))]
    if k == 'strict':
        return ['(OSetStrict %s)' % cz(enc.code(bool(o[1])))]
    if k == 'setattr_own':
        return ['(OAliasAttr %s %s)' % (cz(enc.code(o[1])), czl([akey(enc.code(o[2]))]))]
    if k == 'lappend':
        return ['(OListAppend %s %s)' % (cz(enc.code(o[1])), cz(enc.code(o[2])))]
    if k == 'lreplace':
        return ['(OListReplace %s %s)' % (cz(enc.code(o[1])), czl(enc.code(v) for v in o[2]))]
    if k == 'lsetitem':
        return ['(OListSetItem %s %s %s)' % (cz(enc.code(o[1])), cz(o[2]), cz(enc.code(o[3])))]
    if k == 'dictset':
        return ['(ODictSet %s %s %s)' % (cz(enc.code(o[1])), cz(enc.code(o[2])), cz(enc.code(o[3])))]
    def partial_trace(t, trace, reset):
        tr = out.get('traced') or {'labels': [], 'full': 0}
        if trace is None or trace is False:
            return []
        path = czl([vkey(enc.code('trace')), t, akey(enc.code('index'))])
        ops = []
        for j, lab in enumerate(tr['labels']):
            if j < tr['full']:
                ops.append('(OTraceT %s %s %s %s)' % (cz(t), cz(enc.code(lab)), c_tmode(trace, desc, enc), lib.cbool(reset and j == 0)))
            else:
                ops.append('(OPathAppend %s %s)' % (path, cz(enc.code(lab))))
        return ops
    if k == 'solve':
        if 'exc' in out:
            return partial_trace(o[1], o[3], False)
        _, t, writes, trace = o
        if desc.get('parsed'):
            writes = out['final']
        tr = 'None' if trace is None else '(Some (%s, %s, %s, %s))' % (c_tmode(trace, desc, enc), cz(enc.code('start')), cz(enc.code('before')), cz(enc.code('end')))
        return ['@solve'] + ['(solve_ops %s %s %d%%nat %s %s %s)' % (cz(t), cpairs((enc.code(nm), val(v)) for nm, v in writes), out['iters'],
                                                                  cz(enc.code(out['status'])), cz(enc.code(out['iters'])), tr)]
    if k == 'trace_t':
        _, t, label, trace, reset = o
        if 'exc' in out:
            return partial_trace(t, trace, reset)
        return ['(OTraceT %s %s %s %s)' % (cz(t), cz(enc.code(label)), c_tmode(trace, desc, enc), lib.cbool(reset))]
    if k == 'tnames_append':
        if 'exc' in out:        # obj.trace / obj.trace[t].names could not be reached (name lookup goes through `index`): no effect
            return []
        return ['(OPathAppend %s %s)' % (czl([vkey(enc.code('trace')), o[1], akey(enc.code('names'))]), cz(enc.code(o[2])))]
    if k == 'sub_setitem':
        return ['(OSubSetItem %s %s %s %s)' % (cz(enc.code(o[1])), cz(enc.code(o[2])), cz(o[3]), cz(val(o[4])))]
    if k == 'sub_lappend':
        return ['(OSubListAppend %s %s %s)' % (cz(enc.code(o[1])), cz(enc.code(o[2])), cz(enc.code(o[3])))]
    if k == 'lsolve':
        if 'exc' in out:
            return []
        _, t, writes = o
        subs = lib.clist('(%s, %s)' % (cz(enc.code(key)), cpairs((enc.code(nm), val(v)) for nm, v in ws)) for key, ws in writes)
        return ['@solve'] + ['(linker_solve_ops %s %s %d%%nat %s %s)' % (cz(t), subs, out['iters'], cz(enc.code(out['status'])), cz(enc.code(out['iters'])))]
    raise AssertionError(o)


def root_kinds(case):
    """static description of every root the history creates: class desc, span length"""
    kinds = [{'desc': d, 'cls': True} for d in case['classes']]
    for ev in case['events']:
        if ev[0] == 'init':
            sd = ev[2]['span']
            n = case['shared_spans'][sd['id']]['n'] if sd['kind'] == 'shared' else sd['n']
            kinds.append({'desc': case['classes'][ev[1]], 'n': n, 'ci': ev[1]})
        elif ev[0] == 'copy':
            kinds.append(dict(kinds[ev[1]]))
        elif ev[0] == 'linker_init':
            kinds.append({'desc': case['classes'][ev[1]], 'n': kinds[ev[2][0][1]]['n'] if ev[2] else 0, 'ci': ev[1], 'subs': ev[2]})
        elif ev[0] == 'reindex':
            kk = dict(kinds[ev[1]])
            kk['n'] = ev[2]['n']
            kinds.append(kk)
    return kinds


def c_case(case, obs):
    import numpy as np
    enc = Enc(case['vocab'])
    objs, croots, span_locs = initial_heap(case, enc)
    kinds = root_kinds(case)
    evs = []
    nroots = len(case['classes'])
    for ev, out in zip(case['events'], obs['outcomes']):
        k = ev[0]
        if k == 'op':
            # (an operation that raised is run in the model too — it fails there the same way and leaves the heap as it is; traced
            # operations are replayed with the labels they stored before raising: see run_op)
            if ev[2][0] == 'setfrom':
                evs.append('(HCopySeries %d%%nat %d%%nat %s %s)' % (ev[1], ev[2][2], cz(enc.code(ev[2][3])), cz(enc.code(ev[2][1]))))
                continue
            if ev[2][0] == 'addvar_from':
                evs.append('(HAddVarFrom %d%%nat %d%%nat %s %s)' % (ev[1], ev[2][2], cz(enc.code(ev[2][3])), cz(enc.code(ev[2][1]))))
                continue
            ops = c_ops(case, ev, out, enc, kinds)
            if ops and ops[0] == '@solve':
                evs.append('(HOps %d%%nat %s)' % (ev[1], ops[1]))
            else:
                evs.append('(HOps %d%%nat %s)' % (ev[1], lib.clist(ops)))
            continue
        if 'exc' in out:
            if k == 'linker_init' and out['exc'] == 'DuplicateNameError' and len(ev) > 3 and ev[3] in [key for key, _ in ev[2]]:
                # the name-vs-identifier test of BaseLinker.__init__ IS modelled: the model must refuse as well (no new root)
                evs.append('(HEv (ELinkerInit %d%%nat %s %s))' % (ev[1], lib.clist('(%s, %d%%nat)' % (cz(enc.code(key)), j) for key, j in ev[2]), cz(enc.code(ev[3]))))
            break             # the constructor / copy raised: the history ended here
        if k == 'init':
            a = ev[2]
            d = case['classes'][ev[1]]
            sd = a['span']
            n = case['shared_spans'][sd['id']]['n'] if sd['kind'] == 'shared' else sd['n']
            init = lib.clist('(%s, %s)' % (cz(enc.code(nm)), czl(enc.code(lib.unhex(v)) for v in vs)) for nm, vs in a['initial'].items())
            iargs = '(mkIargs %s %d%%nat %s %s %s %s %s %s None)' % (
                c_span_src(sd, enc, span_locs), n, cz(enc.code(bool(a['strict']))), cz(enc.code(float)),
                cz(enc.code(np.dtype('float64'))), cz(enc.code(0.0)), cz(enc.code('python')), init)
            if a.get('initial_from'):
                f = a['initial_from']
                evs.append('(HInitFrom %d%%nat %s %d%%nat %s %s)' % (ev[1], iargs, f['j'], cz(enc.code(f['src'])), cz(enc.code(f['name']))))
            else:
                evs.append('(HEv (EInit %d%%nat %s))' % (ev[1], iargs))
        elif k == 'copy':
            evs.append('(HCopyRoute %s %d%%nat)' % ({'copy': 'RCopy', 'copy.copy': 'RCopyCopy', 'copy.deepcopy': 'RDeepCopy'}[ev[2]], ev[1]))
        elif k == 'linker_init':
            evs.append('(HEv (ELinkerInit %d%%nat %s %s))' % (ev[1], lib.clist('(%s, %d%%nat)' % (cz(enc.code(key)), j) for key, j in ev[2]),
                                                              cz(enc.code(ev[3] if len(ev) > 3 else '_'))))
        elif k == 'reindex':
            src = kinds[ev[1]]
            sd = ev[2]
            new = make_span(sd, labels_only=True)
            oldspan = case['reindex_old'][str(ev[1])]
            positions = [(i, oldspan.index(p)) for i, p in enumerate(new) if p in oldspan]
            fills = [(enc.code(nm), enc.code(lib.unhex(f) if isinstance(f, str) and f == 'nan' else f)) for nm, f in ev[3]]
            evs.append('(HEv (EReindex %d%%nat %s %d%%nat %s %s))' % (ev[1], c_span_src(sd, enc, span_locs), sd['n'], cpairs(positions), cpairs(fills)))
    return '(mkKCase %s %s %s %s %d%%nat %s %s)' % (
        c_consts(enc), lib.clist(objs), lib.clist('%d%%nat' % r for r in croots), lib.clist(evs), DEPTH,
        lib.clist(c_ctree(t) for t in obs['views']), c_sharing(obs['sharing']))


# --------------------------------------------------------------------------- extraction of the model + OCaml driver
EXTRACT_V = r"""
Require Import PyBase Heap.
Require Import ExtrOcamlBasic ExtrOcamlString.
Extraction Language OCaml.
Extraction "%(out)s" check_kcase kcase_final root_views sharing solve_ops linker_solve_ops new_list new_arr.
"""


def _ext_dir():
    return os.path.join(lib.COQ, 'Extract', 'Heap')


def build_driver():
    """(Re)build the extracted heap model + driver under lib.COQ/Extract/Heap/ when missing or stale -> (exe, error or None)"""
    d = _ext_dir()
    os.makedirs(d, exist_ok=True)
    exe = os.path.join(d, 'driver')
    driver_ml = open(os.path.join(lib.HERE, 'heap_driver.ml')).read()
    vos = [os.path.join(lib.COQ, 'Base', 'PyBase.vo'), os.path.join(lib.COQ, 'Heap', 'Heap.vo')]
    for v in vos:
        if not os.path.exists(v):
            return exe, 'model file %s is not compiled' % v
    stamp = hashlib.sha256((driver_ml + EXTRACT_V).encode()).hexdigest()
    for v in vos:
        stamp += ':%s' % hashlib.sha256(open(v, 'rb').read()).hexdigest()
    stamp_file = os.path.join(d, 'stamp')

    def fresh():
        return os.path.exists(exe) and os.path.exists(stamp_file) and open(stamp_file).read() == stamp
    if fresh():
        return exe, None
    import fcntl
    with open(os.path.join(d, '.lock'), 'w') as lk:
        fcntl.flock(lk, fcntl.LOCK_EX)
        if fresh():
            return exe, None
        cases = os.path.join(lib.COQ, 'cases')
        os.makedirs(cases, exist_ok=True)
        base = 'extract_heap_%d' % os.getpid()
        with open(os.path.join(cases, base + '.v'), 'w') as f:
            f.write(EXTRACT_V % {'out': os.path.join(d, 'model.ml')})
        try:
            p = subprocess.run(['coqc', '-R', '..', 'Fsic', '-w', '-notation-overridden,-extraction', base + '.v'],
                               cwd=cases, capture_output=True, text=True, timeout=600)
        finally:
            for f in glob.glob(os.path.join(cases, base + '.*')) + glob.glob(os.path.join(cases, '.' + base + '.*')):
                try:
                    os.remove(f)
                except OSError:
                    pass
        if p.returncode != 0:
            return exe, 'extraction failed: ' + (p.stderr or p.stdout)[-1500:]
        with open(os.path.join(d, 'driver.ml'), 'w') as f:
            f.write(driver_ml)
        for flags in (['-O2'], []):
            p = subprocess.run(['ocamlfind', 'ocamlopt'] + flags + ['-w', '-a', 'model.mli', 'model.ml', 'driver.ml', '-o', 'driver'],
                               cwd=d, capture_output=True, text=True, timeout=600)
            if p.returncode == 0:
                break
        if p.returncode != 0:
            return exe, 'ocamlopt failed: ' + (p.stderr or p.stdout)[-1500:]
        with open(stamp_file, 'w') as f:
            f.write(stamp)
    return exe, None


def run_driver(lines, dump=False, timeout=1500):
    """-> (list of answer lines, error or None); the cases are spread over lib.NPROC driver processes"""
    exe, e = build_driver()
    if e:
        return None, e
    nproc = max(1, min(lib.NPROC, (len(lines) + 99) // 100))
    chunks = [lines[i::nproc] for i in range(nproc)]
    outs = [None] * nproc

    def work(i):
        try:
            p = subprocess.run([exe] + (['dump'] if dump else []), input='\n'.join(chunks[i]) + '\n', capture_output=True, text=True,
                               timeout=timeout, env=dict(os.environ, OCAMLRUNPARAM='l=2000M'))
            outs[i] = (p.stdout, p.stderr)
        except subprocess.TimeoutExpired:
            outs[i] = ('', 'timeout')
    ths = [threading.Thread(target=work, args=(i,)) for i in range(nproc)]
    for t in ths:
        t.start()
    for t in ths:
        t.join()
    res = [None] * len(lines)
    for i in range(nproc):
        rows = outs[i][0].splitlines()
        if len(rows) != len(chunks[i]):
            return None, 'heap driver produced %d lines for %d cases: %s' % (len(rows), len(chunks[i]), outs[i][1][-500:])
        for j, row in enumerate(rows):
            res[i + j * nproc] = row
    return res, None


def correspond(cases, obs, tag, tier):
    """the extracted Heap.check_kcase (model's run of the history, its tree below every root and its shared-object scan, compared
    with the observed ones inside the extracted code) on every case"""
    lines = []
    for c, o in zip(cases, obs):
        if not isinstance(o, dict) or 'views' not in o:
            lines.append(None)
        else:
            lines.append(c_case(c, o).replace('\n', ' '))
    idx = [i for i, l in enumerate(lines) if l is not None]
    res, err = run_driver([lines[i] for i in idx])
    if err:
        return [], [err]
    bad = [i for i, l in enumerate(lines) if l is None]
    errors = []
    for i, r in zip(idx, res):
        if r == '0':
            bad.append(i)
        elif r != '1':
            bad.append(i)
            if len(errors) < 5:
                errors.append('case %d: driver says %r' % (i, r))
    return sorted(bad), errors


def explain(case, obs):
    res, err = run_driver([c_case(case, obs).replace('\n', ' ')], dump=True)
    if err:
        return err
    try:
        m = json.loads(res[0])
    except ValueError:
        return res[0][:2000]
    out = []
    for i, (mv, iv) in enumerate(zip(m['views'], obs['views'])):
        d = _tree_diff(mv, iv)
        if d:
            out.append('root %d, path %s: model %s / implementation %s' % (i, list(d[0]), str(d[1])[:200], str(d[2])[:200]))
    if len(m['views']) != len(obs['views']):
        out.append('model has %d roots, implementation %d' % (len(m['views']), len(obs['views'])))
    if m['sharing'] != obs['sharing']:
        out.append('shared objects: model %s / implementation %s' % (str([(i, j, len(l)) for i, j, l in m['sharing']]),
                                                                     str([(i, j, len(l)) for i, j, l in obs['sharing']])))
    return '; '.join(out) if out else 'model and implementation agree on this case'


def _tree_diff(a, b, path=()):
    if isinstance(a, list) and isinstance(b, list) and len(a) == 2 and len(b) == 2 and isinstance(a[0], list) and isinstance(b[0], list):
        if a[0] != b[0]:
            return path, ['kind'] + a[0], ['kind'] + b[0]
        ka, kb = [c[0] for c in a[1]], [c[0] for c in b[1]]
        if ka != kb:
            return path, ['keys'] + ka, ['keys'] + kb
        for (k, x), (_, y) in zip(a[1], b[1]):
            d = _tree_diff(x, y, path + (k,))
            if d:
                return d
        return None
    return None if a == b else (path, a, b)


# --------------------------------------------------------------------------- oracle
def expected_shared_pairs(case):
    """pairs of roots that share objects because the CALLER shared them (models handed to a linker, one span list handed to two
    constructors): independence is not claimed for them"""
    pairs = set()
    span_users = {}
    nroots = len(case['classes'])
    origin = {}
    for ev in case['events']:
        if ev[0] in ('init', 'copy', 'linker_init', 'reindex'):
            idx = nroots
            nroots += 1
            if ev[0] == 'init' and ev[2]['span']['kind'] == 'shared':
                span_users.setdefault(ev[2]['span']['id'], []).append(idx)
            if ev[0] == 'linker_init':
                for _, j in ev[2]:
                    pairs.add((j, idx))
                    # two linkers built on the same model share it too
                    for (a, b) in list(pairs):
                        if a == j and b != idx:
                            pairs.add((min(b, idx), max(b, idx)))
    for users in span_users.values():
        for a in users:
            for b in users:
                if a < b:
                    pairs.add((a, b))
    # a linker shares (through its members) with everything its members are allowed to share with: closure
    linkers, idx = [], len(case['classes'])
    for ev in case['events']:
        if ev[0] in ('init', 'copy', 'linker_init', 'reindex'):
            if ev[0] == 'linker_init':
                linkers.append((idx, [j for _, j in ev[2]]))
            idx += 1
    changed = True
    while changed:
        changed = False
        for li, members in linkers:
            for m in members:
                for (a, b) in list(pairs):
                    other = b if a == m else a if b == m else None
                    if other is not None and other != li:
                        pr = (min(other, li), max(other, li))
                        if pr not in pairs:
                            pairs.add(pr)
                            changed = True
    return pairs


def oracle(case, obs):
    fails = []

    def bad(sig, what):
        fails.append({'sig': 'C11|' + sig, 'what': what})
    if obs.get('timeout'):
        bad('timeout', 'history did not finish')
        return fails
    if 'views' not in obs:
        bad('driver-crash', 'the implementation driver did not return an observation: %s' % str(obs)[:200])
        return fails
    allowed = expected_shared_pairs(case)
    derived = {d[0]: d for d in obs['derived']}
    kinds = root_kinds(case)
    # 1. copies: same class, original untouched, equal observable state
    for c in obs['copy_checks']:
        if 'raised' in c:
            if not c.get('excused'):
                bad('%s|raises' % c['route'], '%s of root %d raised %s instead of returning a copy' % (c['route'], c['src'], c['raised']))
            continue
        if not c['same_class']:
            bad('%s|class' % c['route'], '%s returned an object of another class' % c['route'])
        if not c['src_unchanged']:
            bad('%s|original-changed' % c['route'], 'taking a copy changed the original')
        if not c['equal']:
            bad('%s|state-differs' % c['route'], 'copy is not equal to the original: %s' % c['diff'])
        # aliasing BETWEEN components of one object: the copy must not alias what the original keeps apart (two variables backed by
        # one array would make a later write to one of them change the other: not observationally equal).  The converse — Trace.names
        # is model.names after a traced solve, one span list handed to two submodels: the entry-by-entry deep copy separates them —
        # is not asked for by the property (C17 owns Trace.names)
        rep = {json.dumps(p2): json.dumps(p1) for p1, p2 in c['aliases_src']}      # path -> first path to the same object
        extra = [[p1, p2] for p1, p2 in c['aliases_new']
                 if rep.get(json.dumps(p1), json.dumps(p1)) != rep.get(json.dumps(p2), json.dumps(p2))]
        if extra:
            bad('%s|new-internal-alias' % c['route'], 'inside the copy two paths lead to ONE object although they lead to two objects '
                'inside the original: %s' % extra[:2])
    # 2. identity scan
    leak_paths = {}
    for i, attr, p in obs['class_leaks']:
        leak_paths.setdefault(i, []).append(p)
    ncls = len(case['classes'])
    for i, j, l in obs['sharing']:
        if (i, j) in allowed:
            continue
        # objects that are class-level mutables are reported once, under 3. below
        l = [pq for pq in l if not any(pq[1][:len(p)] == p for p in leak_paths.get(j, []))
             and not any(pq[0][:len(p)] == p for p in leak_paths.get(i, []))]
        if not l:
            continue
        di, dj = derived.get(i), derived.get(j)
        is_class_i = i < len(case['classes'])
        if is_class_i and j >= len(case['classes']):
            bad('instance-reaches-class-mutable|%s' % _attr_of(l[0][0]), 'root %d (instance) and its class share a mutable object (class path %s, instance path %s)' % (j, l[0][0], l[0][1]))
        elif is_class_i and j < len(case['classes']):
            bad('classes-share', 'two classes share a mutable object')
        else:
            bad('shared-object|%s' % (dj[1] if dj else '?'), 'roots %d and %d share %d mutable object(s), e.g. %s / %s' % (i, j, len(l), l[0][0], l[0][1]))
    # 2b. the same scan after every event: a pair of roots that shared an object at ANY time
    final_pairs = {(i, j) for i, j, _ in obs['sharing']}
    for key, (step, pq) in sorted(obs.get('ever_shared', {}).items()):
        i, j = map(int, key.split(','))
        if (i, j) in allowed or (i, j) in final_pairs:
            continue
        if any(pq[1][:len(p)] == p for p in leak_paths.get(j, [])) or any(pq[0][:len(p)] == p for p in leak_paths.get(i, [])):
            continue
        bad('shared-object|transient', 'roots %d and %d shared a mutable object after event %d (%s / %s) although they share nothing at the end'
            % (i, j, step, pq[0], pq[1]))
    # 3. class-level mutables reachable from an instance
    seen_leak = set()
    for i, attr, p in obs['class_leaks']:
        if attr not in seen_leak:
            seen_leak.add(attr)
            bad('instance-holds-class-object|%s' % attr.split('.')[-1], 'instance root %d reaches the class-level object %s at path %s: the class and every instance that stores it observe each other' % (i, attr, p))
    # 4. mutation battery
    reported = set()
    leaky = set(leak_paths)
    share_of = {}
    for i, j, l in obs['sharing']:
        share_of[(i, j)] = l
    for i, j, where in obs['probes']:
        a, b = min(i, j), max(i, j)
        if (a, b) in allowed:
            continue
        di, dj = derived.get(i), derived.get(j)
        if (a in leaky or a < ncls) and (b in leaky) and all(
                any(pq[1][:len(p)] == p for p in leak_paths.get(b, [])) for pq in share_of.get((a, b), [])) and share_of.get((a, b)):
            continue          # visible only through the leaked class-level object: reported under 3.
        if i < len(case['classes']) or j < len(case['classes']):
            sig = 'class-instance|mutation-visible'
        else:
            sig = 'mutation-visible|%s' % ((dj or di or [0, '?'])[1])
        if sig not in reported:
            reported.add(sig)
            bad(sig, 'mutating root %d changed root %d at %s' % (i, j, where))
    return fails


def _attr_of(path):
    if path and path[0] % 2 == 0:
        c = path[0] // 2
        if c % 2 == 1 and (c - 1) // 2 < len(WK):
            return WK[(c - 1) // 2]
    return '?'


def guard(case, obs):
    return False


def nontrivial(case, obs):
    if not isinstance(obs, dict) or 'outcomes' not in obs:
        return False
    created = 0
    for ev, out in zip(case['events'], obs.get('outcomes', [])):
        if ev[0] != 'op':
            created += 1
        elif created >= 2 and 'exc' not in out:
            return True
    return False


def bucket(case, obs):
    ks = sorted({('parsed-' if d.get('parsed') else '') + d['kind'] + ('+alias' if d['alias'] is not None else '') + ('+tracer' if d['tracer'] else '')
                 + ('+pandas' if d.get('pandas') else '')
                 for d in case['classes']})
    routes = sorted({ev[2] for ev in case['events'] if ev[0] == 'copy'})
    return ','.join(ks) + '/' + ','.join(routes)


def shrink_candidates(case):
    evs = case['events']
    for i in range(len(evs) - 1, -1, -1):
        if evs[i][0] == 'op':
            c = _copy.deepcopy(case)
            del c['events'][i]
            yield c


# --------------------------------------------------------------------------- generator
FLOATS = [0.0, 1.0, 2.5, -3.0, 4.25, 10.0]
# ad hoc attribute names: ordinary ones, and ones that are fragments of the built-in __dict__ keys (a filter written as a substring
# test, a prefix test on '_', ... must not lose or share them)
ATTR_NAMES = ['foo', 'bar', 'baz', 'mode', 'model', 'sub', 'els', 's', 'nam', 'ind', 'spa', 'strict_', 'x_']
# parser-built classes: (script, ENDOGENOUS, EXOGENOUS, LAGS, LEADS) as fsic.parse_model / build_model produce them (asserted in impl)
PARSED = [('Y = C + G\nC = 0.5 * Y[-1] + W', ['Y', 'C'], ['G', 'W'], 1, 0),
          ('C = 0.25 * K\nY = C + G', ['C', 'Y'], ['K', 'G'], 0, 0),
          ('Y = 0.5 * Y[-1] + G[1]', ['Y'], ['G'], 1, 1)]


class Shadow:
    """what the generator remembers about a root in order to produce applicable operations"""
    def __init__(self, kind, ci, desc, n, fvars, allvars, subs=None):
        self.kind, self.ci, self.desc, self.n = kind, ci, desc, n
        self.fvars, self.allvars, self.subs = list(fvars), list(allvars), dict(subs or {})
        self.strict = False
        self.has_names_attr = kind in ('model', 'linker')

    def clone(self):
        s = Shadow(self.kind, self.ci, self.desc, self.n, self.fvars, self.allvars, self.subs)
        s.strict = self.strict
        s.desc_sub_endo = getattr(self, 'desc_sub_endo', None)
        return s


def gen_case(rng, flavour, uniq):
    def fresh_float():
        uniq[0] += 1
        return 100.0 + 0.5 * uniq[0]
    classes = []
    names = rng.sample(['Y', 'C', 'G', 'K', 'W'], rng.randint(2, 3))
    endo = names[:rng.randint(1, len(names) - 1)]
    exo = names[len(endo):]
    parsed = None
    if flavour == 'parsed':
        parsed, endo, exo, plags, pleads = rng.choice(PARSED)
        endo, exo = list(endo), list(exo)
        names = endo + exo
    alias = None
    sub_mix = flavour == 'linker' and rng.random() < 0.4          # a linker whose submodels carry the mixins
    if flavour in ('alias', 'both') or (parsed and rng.random() < 0.3) or (sub_mix and rng.random() < 0.6):
        alias = {'GDP': names[0]}
        if rng.random() < 0.5:
            alias['AL2'] = names[-1]
    tracer = flavour in ('tracer', 'both') or (sub_mix and rng.random() < 0.6)
    desc = {'kind': 'container' if flavour == 'container' else 'model', 'endo': endo, 'exo': exo,
            'check': None if rng.random() < 0.6 else list(endo[:1]), 'lags': rng.choice([0, 1]), 'leads': rng.choice([0, 0, 1]),
            'alias': alias, 'preferred': ([rng.choice(list(alias))] if alias and rng.random() < 0.5 else []),
            'tracer': tracer, 'trace_vars': (None if rng.random() < 0.55 else list(endo)) if tracer else None}
    if flavour in ('alias', 'parsed', 'linker') and rng.random() < 0.5:     # (flavours without reindex events)
        desc['pandas'] = True
    if flavour == 'container':
        desc.update(endo=[], exo=[], check=None, lags=0, leads=0)
    if parsed:
        desc.update(parsed=parsed, check=None, lags=plags, leads=pleads)
    classes.append(desc)
    if flavour == 'linker':
        classes.append({'kind': 'linker', 'endo': ['LV'], 'exo': [], 'check': None if rng.random() < 0.5 else [], 'lags': 0, 'leads': 0,
                        'alias': None, 'preferred': [], 'tracer': False, 'trace_vars': None})
    n = 3
    shared_spans = [{'kind': 'list', 'start': 2000, 'n': n}] if rng.random() < 0.12 else []
    events = []
    shadows = [None] * len(classes)      # index = root index

    def new_instance(shared=False):
        sd = {'kind': 'shared', 'id': 0} if shared else {'kind': rng.choice(['range', 'range', 'list', 'tuple', 'ndarray', 'pdindex'] + ([] if flavour in ('tracer', 'both', 'model') else ['pdperiod'])),
                                                          'start': rng.choice([0, 2000]), 'n': n}
        init = {}
        if desc['kind'] == 'model' and rng.random() < 0.5:
            init[rng.choice(desc['endo'] + desc['exo'])] = [lib.fhex(rng.choice(FLOATS)) for _ in range(n)]
        events.append(['init', 0, {'span': sd, 'strict': rng.random() < 0.15, 'initial': init}])
        # a sibling seeded from an existing instance: an initial value that is that instance's array
        donors = [k for k, sh in enumerate(shadows) if sh is not None and sh.kind == 'model' and sh.n == n and set(sh.fvars) & set(desc['endo'] + desc['exo'])]
        if desc['kind'] == 'model' and donors and not shared and rng.random() < 0.3:
            j = rng.choice(donors)
            src = rng.choice(sorted(set(shadows[j].fvars) & set(desc['endo'] + desc['exo'])))
            dst = rng.choice(desc['endo'] + desc['exo'])
            events[-1][2]['initial'].pop(dst, None)
            events[-1][2]['initial_from'] = {'name': dst, 'j': j, 'src': src}
        vs = list(desc['endo'] + desc['exo'])
        sh = Shadow(desc['kind'], 0, desc, n, vs, vs + (['status', 'iterations'] if desc['kind'] == 'model' else []))
        sh.strict = events[-1][2]['strict']
        shadows.append(sh)
        return len(shadows) - 1

    a = new_instance(shared=bool(shared_spans))
    if flavour == 'linker':
        b = new_instance()
        events[-1][2]['span'] = dict(events[-2][2]['span'])      # submodels of one linker need identical spans
        if rng.random() < 0.06 and events[-1][2]['span'].get('kind') != 'shared':
            # malformed: the second submodel's span differs -> BaseLinker.__init__ raises InitialisationError (the span-equality check
            # is not modelled: the history ends here on both sides, nothing may have been shared or changed)
            events[-1][2]['span'] = dict(events[-1][2]['span'], start=events[-1][2]['span']['start'] + 1)
        # 1, 2 or 3 submodels; identifiers incl. the DEFAULT linker name '_'; the linker's own name default / explicit / (malformed) equal
        # to one of the identifiers (BaseLinker.__init__ refuses: DuplicateNameError, modelled)
        members = [a, b]
        r3 = rng.random()
        if r3 < 0.2:
            members = [a]
        elif r3 < 0.4:
            c3 = new_instance()
            events[-1][2]['span'] = dict(events[-3][2]['span'] if False else events[-2][2]['span'])
            members = [a, b, c3]
        keys = rng.sample(['A', 'B', 'C', '_'], len(members)) if rng.random() < 0.35 else ['A', 'B', 'C'][:len(members)]
        subs = [[k, m] for k, m in zip(keys, members)]
        ev = ['linker_init', 1, subs]
        rn = rng.random()
        if '_' in keys or rn < 0.35:
            ev.append(rng.choice(['L', 'L', 'linker', 7]))
        if rn > 0.93:
            ev = ['linker_init', 1, subs, rng.choice(keys)]          # malformed
        events.append(ev)
        shadows.append(Shadow('linker', 1, classes[1], n, ['LV'], ['LV', 'status', 'iterations'], {k: m for k, m in subs}))
        shadows[-1].desc_sub_endo = desc['endo'][0]
    elif rng.random() < 0.5 or shared_spans:
        new_instance(shared=bool(shared_spans))
    reindex_old = {}
    L = rng.randint(4, 12)
    for _ in range(L):
        live = [i for i, s in enumerate(shadows) if s is not None]
        q = rng.random()
        if q < 0.2:
            i = rng.choice(live)
            if shadows[i].kind == 'linker' or not any(i in s.subs.values() for s in shadows if s is not None) or True:
                events.append(['copy', i, rng.choice(['copy', 'copy.copy', 'copy.deepcopy'])])
                s = shadows[i].clone()
                if s.kind == 'linker':
                    s.subs = {k: None for k in s.subs}
                shadows.append(s)
            continue
        if q < 0.26 and flavour != 'linker':
            new_instance()
            continue
        if q < 0.31 and flavour in ('tracer', 'both', 'model'):
            i = rng.choice([k for k in live if shadows[k].kind == 'model'])
            sd = {'kind': 'list', 'start': rng.choice([0, 1, 2000, 2001, 1999]), 'n': rng.choice([2, 3, 4])}
            src = shadows[i]
            if rng.random() < 0.25:
                sd = {'kind': 'own', 'n': src.n}          # obj.reindex(obj.span): resolved in finish()
            # the old span (labels) is needed for the position map: recomputed from the history in finish()
            events.append(['reindex', i, sd, None])
            s = src.clone()
            s.n = sd['n']
            shadows.append(s)
            continue
        if q < 0.36:
            # class mutation
            attr = rng.choice(['NAMES', 'ENDOGENOUS', 'CHECK', 'EXOGENOUS'] + (['PREFERRED_NAMES'] if alias else []) + (['TRACE_VARIABLES'] if tracer and desc['trace_vars'] is not None else []))
            if desc['kind'] == 'container':
                continue
            uniq[0] += 1
            if rng.random() < 0.06:
                # a class mutated into a state in which its constructor raises (a duplicate in NAMES; an alias that maps a variable's
                # own name): M(span) raises, and so does the copy of every older instance - excused by the oracle exactly then
                if alias and rng.random() < 0.5:
                    events.append(['op', 0, ['dictset', 'ALIASES', desc['endo'][0], (desc['exo'] or desc['endo'])[-1]]])
                else:
                    events.append(['op', 0, ['lappend', 'NAMES', desc['endo'][0]]])
                continue
            if attr == 'TRACE_VARIABLES':
                events.append(['op', 0, ['lappend', attr, rng.choice(desc['endo'] + desc['exo'])]])
            elif rng.random() < 0.25 and alias:
                events.append(['op', 0, ['dictset', 'ALIASES', 'NEWAL%d' % uniq[0], desc['endo'][0]]])
            elif attr in ('NAMES', 'PREFERRED_NAMES'):
                events.append(['op', 0, ['lappend', attr, 'Q%d' % uniq[0]]])
            else:
                events.append(['op', 0, ['lappend', attr, rng.choice(['ZZ%d' % uniq[0], desc['endo'][0]])]])
            continue
        i = rng.choice([k for k in live if k >= len(classes)])
        s = shadows[i]
        if rng.random() < 0.09:
            # cross-object assignment: a whole series of root i is assigned from ANOTHER root's array of the same dtype (b.X = a.X,
            # b['X'] = a.X, b.replace_values(X=a.X)): the values must be copied, the array must not become i's storage
            others = [k for k in live if k >= len(classes) and k != i and shadows[k].kind == s.kind and set(shadows[k].fvars) & set(s.fvars)]
            if others:
                j = rng.choice(others)
                common = sorted(set(shadows[j].fvars) & set(s.fvars))
                name = rng.choice(common)
                if rng.random() < 0.25 and shadows[j].n == s.n:
                    new = rng.choice(['V1', 'V2', 'W9'])
                    events.append(['op', i, ['addvar_from', new, j, name]])
                    if new not in s.allvars:
                        s.allvars.append(new)
                        s.fvars.append(new)
                    continue
                events.append(['op', i, ['setfrom', name, j, rng.choice(common) if rng.random() < 0.3 else name, rng.choice(['attr', 'item', 'replace'])]])
                continue
        events.append(['op', i, gen_op(rng, s, fresh_float, alias, tracer)])
        o = events[-1][2]
        if o[0] == 'addvar' and o[1] not in s.allvars:
            s.allvars.append(o[1])
            if o[3] == 'float':
                s.fvars.append(o[1])
        if o[0] == 'strict':
            s.strict = o[1]
    case = {'classes': classes, 'shared_spans': shared_spans, 'events': events, 'flavour': flavour}
    return finish(case)


def gen_op(rng, s, fresh_float, alias, tracer):
    n = s.n
    if s.kind == 'linker':
        q = rng.random()
        key = rng.choice(list(s.subs))
        if q < 0.12:
            return ['sub_setitem', key, s.desc_sub_endo, rng.randrange(n), lib.fhex(fresh_float())]
        if q < 0.27:
            return ['sub_lappend', key, rng.choice(['check', 'names', 'endogenous']), s.desc_sub_endo]
        if q < 0.42:
            return ['lsolve', 1, [[k, []] for k in s.subs]]
        if q < 0.58:
            return ['setitem', 'LV', rng.randrange(n), lib.fhex(fresh_float()), 'attr']
        if q < 0.72:
            return ['lappend', rng.choice(['check', 'endogenous', 'names']), rng.choice(['LV', 'LW'])]
        if q < 0.76:
            return ['setattr', rng.choice(['lags', 'leads']), rng.randint(0, 1)]
        if q < 0.80:
            # l.name = ... (the copy must keep it); rarely one of the submodel identifiers: a state construction refuses, so does copy()
            return ['setattr', 'name', rng.choice(['L2', 'L3', 9]) if rng.random() < 0.85 else key]
        return rng.choice([['setattr', rng.choice(ATTR_NAMES), rng.randint(0, 5)], ['setattrlist', rng.choice(ATTR_NAMES), [1, 2]]])
    fv = s.fvars
    names_for_access = list(fv) + ([a for a in (alias or {})] if alias and s.kind == 'model' else [])
    q = rng.random()
    if s.kind == 'container' and not fv:
        q = 0.35     # first add a variable
    if q < 0.14 and fv:
        if rng.random() < 0.06:      # malformed: position outside the span (IndexError, nothing may change)
            return ['setitem', rng.choice(names_for_access), n + rng.randrange(2), lib.fhex(fresh_float()), 'attr']
        return ['setitem', rng.choice(names_for_access), rng.randrange(n), lib.fhex(fresh_float()), rng.choice(['attr', 'label'])]
    if q < 0.24 and fv:
        return ['setseq', rng.choice(names_for_access), [lib.fhex(fresh_float()) for _ in range(n if rng.random() < 0.9 else n + 1)], rng.choice(['attr', 'item', 'replace'])]
    if q < 0.31 and fv:
        return ['setscalar', rng.choice(names_for_access), lib.fhex(fresh_float())]
    if q < 0.42:
        # (with a tracer every variable of `names` goes through one np.array([...]) per trace: NumPy's dtype coercion of mixed
        # columns is not modelled, so traced models only get float variables)
        dtype = 'float' if tracer else rng.choice(['float', 'float', 'int', 'bool', 'str', 'object'])
        name = rng.choice(['V1', 'V2', '_h', s.fvars[0] if s.fvars and rng.random() < 0.2 else 'V3'])
        if dtype == 'float':
            vals = [lib.fhex(fresh_float()) for _ in range(n)] if rng.random() < 0.6 else [lib.fhex(fresh_float())]
        elif dtype == 'int':
            vals = [rng.randint(-3, 9) for _ in range(n)]
        elif dtype == 'bool':
            vals = [rng.random() < 0.5 for _ in range(n)]
        elif dtype == 'str':
            vals = [rng.choice(['a', 'bb', 'c']) for _ in range(n)]
        else:
            vals = [None] * n
        return ['addvar', name, vals, dtype]
    if q < 0.50:
        if s.kind == 'model':
            return ['setattr', rng.choice(['engine'] + ATTR_NAMES), rng.choice([0, 1, 'x'])] if rng.random() < 0.5 else ['setattr', rng.choice(['lags', 'leads']), rng.randint(0, 1)]
        return ['setattr', rng.choice(ATTR_NAMES), rng.choice([0, 1, 'x'])]
    if q < 0.518:
        # unusual but legal: one of the object's own lists stored under a second attribute (aliasing between two __dict__ entries:
        # copy() with a memo per entry separates them in the copy, a single-memo deepcopy would keep them together - both allowed)
        # (not `_attributes`: K views that list as a set under its own key only, its order is no observable)
        own = ['names', 'check', 'endogenous', 'index'] if s.kind == 'model' else ['index', 'names']
        return ['setattr_own', rng.choice(ATTR_NAMES), rng.choice(own)]
    if q < 0.56:
        if s.kind == 'model' and rng.random() < 0.7:
            return ['setattrlist', rng.choice(['check', 'endogenous']), [rng.choice(fv)] if fv else []]
        return rng.choice([['setattrlist', rng.choice(ATTR_NAMES), [1, 2]],
                           ['setattrnested', rng.choice(ATTR_NAMES), [[1, 2], [3], []]],
                           ['setattrset', rng.choice(ATTR_NAMES), [1, 2, 'a']],
                           ['setattrdict', rng.choice(ATTR_NAMES), [['p', 1], ['q', 'x']]],
                           ['setattrdictlists', rng.choice(ATTR_NAMES), [['p', [1, 2]], ['q', []]]]])
    if q < 0.60:
        return ['strict', rng.random() < 0.5]
    if s.kind == 'model':
        if q < 0.72:
            attr = rng.choice(['check', 'endogenous', 'names', 'index', '_attributes'] + (['preferred_names'] if alias else []))
            if attr in ('check', 'endogenous'):
                return ['lappend', attr, rng.choice(fv)]
            if attr == 'names':
                return ['lappend', attr, rng.choice(fv)] if tracer else ['lappend', attr, rng.choice(fv + ['NEWNAME'])]
            if attr == 'index':
                return ['lreplace', 'index', list(s.allvars) + (['trace'] if tracer else [])]
            return ['lappend', attr, 'marker']
        if q < 0.76:
            attr = rng.choice(['check', 'endogenous'])
            if rng.random() < 0.35:  # item assignment in the list (IndexError when the list is shorter)
                return ['lsetitem', rng.choice(['check', 'endogenous', 'names']), rng.choice([0, 0, 1, 5]), rng.choice(fv)]
            return ['lreplace', attr, [rng.choice(fv)] if rng.random() < 0.7 else []]
        if q < 0.80 and alias:
            return ['dictset', 'aliases', rng.choice(['GDP', 'NEWAL']), rng.choice(fv)]
        if q < 0.92:
            writes = [[nm, lib.fhex(fresh_float())] for nm in s.desc['endo']]
            trace = None
            if tracer and rng.random() < 0.75:
                trace = True if rng.random() < 0.7 else [rng.choice(fv)]
            return ['solve', 1, writes, trace]
        if tracer and rng.random() < 0.3:
            return ['tnames_append', rng.randrange(n), rng.choice(fv)]
        if tracer:
            return ['trace_t', rng.randrange(n), rng.choice(['lbl', 7]), True if rng.random() < 0.6 else [rng.choice(fv)], rng.random() < 0.25]
        return ['setitem', 'iterations', rng.randrange(n), rng.randint(0, 9), 'attr']
    return ['lappend', rng.choice(['index', '_attributes']), 'marker'] if rng.random() < 0.3 else ['setattr', rng.choice(ATTR_NAMES), rng.randint(0, 5)]


def finish(case):
    """derive the data the model needs from the history (old spans for reindex, dtype-aware fills) and the vocabulary"""
    n_cls = len(case['classes'])
    spans = [None] * n_cls
    vars_of = [None] * n_cls
    kinds = [None] * n_cls
    reindex_old = {}
    span_sd = [None] * n_cls          # per root: the description of the span object it holds
    class_names = [list(d['endo']) + list(d['exo']) for d in case['classes']]      # the class NAMES lists as the history mutates them
    for ev in case['events']:
        if ev[0] == 'op' and ev[1] < n_cls and ev[2][0] == 'lappend' and ev[2][1] == 'NAMES':
            class_names[ev[1]].append(ev[2][2])
        if ev[0] == 'init':
            sd = ev[2]['span']
            spans.append([int(v) for v in make_span(case['shared_spans'][sd['id']] if sd['kind'] == 'shared' else sd, labels_only=True)])
            d = case['classes'][ev[1]]
            vars_of.append({nm: 'float' for nm in class_names[ev[1]]})
            kinds.append(d)
            span_sd.append(dict(case['shared_spans'][sd['id']]) if sd['kind'] == 'shared' else dict(sd))
        elif ev[0] == 'copy':
            spans.append(list(spans[ev[1]]) if spans[ev[1]] is not None else None)
            vars_of.append(dict(vars_of[ev[1]]) if vars_of[ev[1]] is not None else None)
            kinds.append(kinds[ev[1]])
            span_sd.append(span_sd[ev[1]])
        elif ev[0] == 'linker_init':
            spans.append(list(spans[ev[2][0][1]]))
            vars_of.append({'LV': 'float'})
            kinds.append(case['classes'][ev[1]])
            span_sd.append(span_sd[ev[2][0][1]])
        elif ev[0] == 'reindex':
            if ev[2].get('kind') == 'own' or ev[2].get('own'):
                ev[2] = dict(span_sd[ev[1]], own=True)
            span_sd.append({k: v for k, v in ev[2].items() if k != 'own'})
            reindex_old[str(ev[1])] = list(spans[ev[1]])
            fills = [['status', '-'], ['iterations', -1]]
            for nm, dt in vars_of[ev[1]].items():
                fills.append([nm, {'float': 'nan', 'int': 0, 'bool': False, 'str': '', 'object': None}[dt]])
            if kinds[ev[1]]['tracer']:
                fills.append(['trace', None])
            ev[3] = fills
            spans.append([int(v) for v in make_span(ev[2], labels_only=True)])
            vars_of.append(dict(vars_of[ev[1]]))
            kinds.append(kinds[ev[1]])
        elif ev[0] == 'op' and ev[2][0] == 'addvar' and vars_of[ev[1]] is not None and ev[2][1] not in vars_of[ev[1]]:
            vars_of[ev[1]][ev[2][1]] = ev[2][3]
        elif ev[0] == 'op' and ev[2][0] == 'addvar_from' and vars_of[ev[1]] is not None and ev[2][1] not in vars_of[ev[1]]:
            vars_of[ev[1]][ev[2][1]] = 'float'
    case['reindex_old'] = reindex_old
    enc = Enc(BASE)
    import numpy as np

    def walk(x):
        if isinstance(x, dict):
            for k, v in x.items():
                walk(k)
                walk(v)
        elif isinstance(x, (list, tuple)):
            for v in x:
                walk(v)
        elif isinstance(x, str) and (x.startswith(('0x', '-0x')) or x in ('nan', 'inf')):
            enc.add(lib.unhex(x))
            enc.add(x)
        else:
            enc.add(x)
    walk(case['classes'])
    walk(case['events'])
    for sd in case['shared_spans']:
        enc.add(make_span(sd))
    for ev in case['events']:
        if ev[0] == 'init' and ev[2]['span']['kind'] != 'shared':
            enc.add(make_span(ev[2]['span']))
        if ev[0] == 'reindex':
            enc.add(make_span(ev[2]))
    for dt in ('float64', 'int64', 'bool', 'object', '<U1', '<U2', '<U3'):
        enc.add(np.dtype(dt))
    for v in (float('nan'), '', 'PROBE', 'marker', 1000.0):
        enc.add(v)
    case['vocab'] = enc.vocab
    return case


def corpus_cases():
    """hand-written histories: every mutable component is present and non-empty when each of the three copy routes is taken"""
    h = lib.fhex
    routes = ['copy', 'copy.copy', 'copy.deepcopy']
    model = {'kind': 'model', 'endo': ['Y', 'C'], 'exo': ['G'], 'check': None, 'lags': 1, 'leads': 0, 'alias': None, 'preferred': [],
             'tracer': False, 'trace_vars': None}
    out = []
    # a linker with ad hoc attributes whose names are fragments of 'submodels', solved, then copied by every route; then both sides move
    linker = {'kind': 'linker', 'endo': ['LV'], 'exo': [], 'check': None, 'lags': 0, 'leads': 0, 'alias': None, 'preferred': [],
              'tracer': False, 'trace_vars': None}
    init = lambda kind, strict=False, initial=None: ['init', 0, {'span': {'kind': kind, 'start': 2000, 'n': 3}, 'strict': strict, 'initial': initial or {}}]
    evs = [init('list'), init('list'), ['linker_init', 1, [['A', 2], ['B', 3]]]]
    evs += [['op', 4, ['setattr', nm, i]] for i, nm in enumerate(['mode', 'model', 'sub', 's', 'els', 'foo'])]
    evs += [['op', 4, ['setattrlist', 'mod', [1, 2]]], ['op', 4, ['lsolve', 1, [['A', []], ['B', []]]]], ['op', 4, ['lappend', 'check', 'LV']]]
    evs += [['copy', 4, r] for r in routes]
    evs += [['op', 5, ['sub_setitem', 'A', 'Y', 0, h(7.5)]], ['op', 4, ['sub_lappend', 'B', 'check', 'Y']], ['op', 6, ['setitem', 'LV', 1, h(3.5), 'attr']]]
    out.append({'classes': [dict(model), linker], 'shared_spans': [], 'events': evs, 'flavour': 'linker'})
    # a traced model (class-level TRACE_VARIABLES list / None / user list), solved with trace, copied by every route, the copy traced on
    for tv, trace in ((None, True), (['Y'], True), (None, ['C', 'Y'])):
        d = dict(model, tracer=True, trace_vars=tv, check=['Y'])
        evs = [init('list', initial={'G': [h(1.0), h(2.0), h(3.0)]}), ['op', 1, ['solve', 1, [['Y', h(4.0)], ['C', h(5.0)]], trace]],
               ['op', 1, ['trace_t', 2, 'lbl', trace, False]]]
        evs += [['copy', 1, r] for r in routes]
        evs += [['op', 2, ['solve', 1, [['Y', h(6.0)], ['C', h(7.0)]], trace]], ['op', 3, ['trace_t', 2, 7, trace, False]],
                ['op', 1, ['trace_t', 2, 'lbl', trace, True]], ['op', 4, ['tnames_append', 1, 'G']]]
        out.append({'classes': [d], 'shared_spans': [], 'events': evs, 'flavour': 'tracer'})
    # aliases, strict, object / str / bool / int variables, user list attributes, every list mutated before the copies
    # (the whole mixin tower in the MRO; the user aliases the object's own `names` and `check` lists under further attributes)
    d = dict(model, alias={'GDP': 'Y', 'AL2': 'G'}, preferred=['GDP'], tracer=True, trace_vars=None, pandas=True)
    evs = [init('list', strict=True), ['op', 1, ['addvar', 'V1', [None, None, None], 'object']], ['op', 1, ['addvar', 'V2', ['a', 'bb', 'c'], 'str']],
           ['op', 1, ['addvar', 'V3', [True, False, True], 'bool']], ['op', 1, ['addvar', '_h', [1, 2, 3], 'int']],
           ['op', 1, ['strict', False]], ['op', 1, ['setattrlist', 'spa', [1, 2]]], ['op', 1, ['setattr', 'x_', 'x']], ['op', 1, ['strict', True]],
           ['op', 1, ['lappend', 'check', 'C']], ['op', 1, ['lappend', 'endogenous', 'G']], ['op', 1, ['lappend', 'names', 'NEWNAME']],
           ['op', 1, ['dictset', 'aliases', 'NEWAL', 'C']], ['op', 1, ['lappend', 'preferred_names', 'AL2']],
           ['op', 1, ['solve', 1, [['Y', h(4.0)], ['C', h(5.0)]], None]], ['op', 1, ['setattr', 'lags', 2]],
           ['op', 1, ['strict', False]], ['op', 1, ['setattr_own', 'mine', 'names']], ['op', 1, ['setattr_own', 'ind', 'check']]]
    evs += [['copy', 1, r] for r in routes]
    evs += [['op', 2, ['lappend', 'mine', 'ZZ']], ['op', 1, ['lappend', 'ind', 'Y']],
            ['op', 2, ['setfrom', 'Y', 1, 'Y', 'attr']], ['op', 3, ['setfrom', 'C', 1, 'Y', 'item']], ['op', 1, ['setfrom', 'G', 4, 'G', 'replace']],
            ['op', 1, ['setitem', 'Y', 0, h(11.5), 'attr']], ['op', 4, ['setscalar', 'G', h(12.5)]]]
    evs += [['init', 0, {'span': {'kind': 'range', 'start': 2000, 'n': 3}, 'strict': False, 'initial': {}}],
            ['op', 2, ['setitem', 'GDP', 0, h(9.5), 'label']], ['op', 3, ['lappend', 'check', 'G']], ['op', 0, ['lappend', 'CHECK', 'G']],
            ['op', 5, ['lappend', 'endogenous', 'C']], ['op', 4, ['setseq', 'AL2', [h(1.5), h(2.5), h(3.5)], 'item']]]
    out.append({'classes': [d], 'shared_spans': [], 'events': evs, 'flavour': 'alias'})
    # a plain container
    cont = {'kind': 'container', 'endo': [], 'exo': [], 'check': None, 'lags': 0, 'leads': 0, 'alias': None, 'preferred': [], 'tracer': False,
            'trace_vars': None}
    evs = [init('list'), ['op', 1, ['addvar', 'V1', [h(1.0), h(2.0), h(3.0)], 'float']], ['op', 1, ['addvar', 'V2', [None, None, None], 'object']],
           ['op', 1, ['setattrlist', 'ind', [1, 2]]], ['op', 1, ['setattr', 'nam', 3]],
           ['op', 1, ['setattrnested', 'els', [[1, 2], [3], []]]], ['op', 1, ['setattrset', 'sub', [1, 2, 'a']]]]
    evs += [['copy', 1, r] for r in routes]
    evs += [['op', 2, ['setscalar', 'V1', h(8.0)]], ['op', 3, ['lappend', 'ind', 5]], ['op', 1, ['setitem', 'V1', 2, h(9.0), 'label']]]
    out.append({'classes': [cont], 'shared_spans': [], 'events': evs, 'flavour': 'container'})
    return [finish(c) for c in out]


def gen(rng, tier):
    cases = corpus_cases()
    uniq = [0]
    n = 2000 if tier == 'quick' else 16000
    flavours = ['model', 'parsed', 'alias', 'tracer', 'tracer', 'both', 'container', 'linker']
    # fixed corpus first: the known sharing situations
    for fl in ('tracer', 'both', 'model', 'parsed', 'linker', 'container', 'alias'):
        for _ in range(6):
            cases.append(gen_case(rng, fl, uniq))
    for _ in range(n):
        cases.append(gen_case(rng, rng.choice(flavours), uniq))
    return cases
