"""C20 — fsic.tools.symbols_to_graph reports exactly the dependencies the equations have.

Cases:  {'k': 'prog', 's': script, 'ref': [{'lhs': id, 'deps': [ids], 'cond': bool}], 'flags': [...], 'seed': n}
            a C01-grammar program rendered from a generated syntax tree under a random layout; `ref` is the dependency set
            read off the tree (independent of fsic)
        {'k': 's', 's': script, 'seed': n}     any script (parser_common generator, mutations, corpus)
Observation (real code only): the Symbol list of fsic.parse_model, nodes (with `equation` attribute) and edges of
fsic.tools.symbols_to_graph in insertion order, and — on the model built by fsic.build_model — for every equation the result of
an isolated execution of its generated code on random data: which (series, offset) perturbations change the assigned
value, and which cells the recording arrays saw read.
K  = extracted Graph.symbols_to_graph_M on the same Symbol list vs the real graph (nodes, attributes, edges, order), and the
     domain of the theorems: the extracted GTokenise.tokenise (the model's own, proved sound and complete reader of well-formed
     normalised equations) accepts every real normalised equation of the generated grammar.
O  = the property's statement on the real observations (see `oracle`)."""
import json
import re

import lib
import parser_common as pc

ID = 'C20'
PROPS_FILE = 'Props/C20.v'
MODEL_FILES = ['Parser/PyStr.v', 'Parser/Lex.v', 'Parser/Symbols.v', 'Parser/ParseEq.v', 'Parser/ParseModel.v', 'Graph/GLex.v', 'Graph/GNorm.v',
               'Graph/Graph.v', 'Extract/Graph/ExtractGraph.v']
K_NAME = ('K_graph (extracted Graph.symbols_to_graph_M on the real Symbol list vs fsic.tools.symbols_to_graph: nodes, equation attributes, '
          'edges, insertion order) + K_domain (extracted GTokenise.tokenise accepts every real normalised equation of the generated grammar)')
RULE = ('fixed corpus (traps: names with keyword prefixes, a name used as variable and function, quoted / backticked period indexes, '
        'verbatim fragments, conditionals, self reference, lead on the left-hand side); programs of 1-4 equations rendered from random '
        'syntax trees (variables / {parameters} / <errors> with offsets in -3..3 and named periods, + - * / ** unary minus, '
        'exp log max min abs np.sqrt, conditional expressions, parentheses; some statements are tuple assignments `Y1,Y2[k] = e1, e2`) under a random layout (blanks, [0], blanks inside brackets, '
        'continuation lines inside parentheses, comments, blank lines; rarely a blank before the index bracket = finding #20); '
        'scripts of the parser_common generator and their mutations.  Every accepted case: graph of the real Symbol list vs the '
        'extracted model; symbols_to_graph called again on the same list and on an equal copy after the caller edited the graph it was given '
        '(the answers must equal the first); every equation executed in isolation on 4 random data vectors with recording arrays (every read cell must have an edge, every written cell must be a left-hand term), and again per '
        '(series, offset) of the model with that cell perturbed.  Non-trivial = accepted, at least one equation with a variable-like '
        'in-edge; distinct by hash of the case.')
TRUSTED = ['extraction of Graph.symbols_to_graph_M / Graph.nx_edges / GTokenise.tokenise to OCaml (ExtrOcamlBasic + ExtrOcamlString only) and coq/Extract/Graph/driver.ml',
           'harness/parser_common.py encoders; harness/evalmodel.py recording ndarray',
           "CPython's exec of one generated statement as 'an isolated evaluation of the equation'; networkx DiGraph node / edge iteration order"]
ASSUMPTIONS = ['input strings are Latin-1',
               'K_graph compares node / edge insertion order and the non-variable nodes (functions, keywords) with the model: stricter than the '
               'property, which speaks of variable-like nodes and sets of edges (the oracle compares only those); a harmless change of order '
               'shows up as a K disagreement with no failing input',
               'parser-side theorems are about parse_model_nocheck (check_syntax=False); for parser output the link between Symbol.equation (graph '
               'input) and Symbol.code (what runs) is C20_equation_and_code_same_tokens (same token list) plus this oracle: every equation executed '
               'alone on 4 data vectors with every cell perturbed by +-0.4 and +-7.3 (tuple targets and named periods included)',
               'theorems speak about normalised equations given as token lists (GNorm.neq); that the equations fsic produces are such '
               'texts is checked per case by K_domain (the extracted GTokenise.tokenise — proved sound and complete for neq_wf — accepts the real equation); it is '
               'proved inside the model for statements written in de-normalised form (C20_reparsed_graph), for whole scripts of such '
               'statements through splitter, per-statement parse and cross-equation merge (C20_script_graph_edges); for source statements '
               'with { } / < > terms under source-side conditions only (C20_source_statement_wf, C20_source_script_graph: dq_ok + sep_ok, '
               'normal spacing between tokens; C20_source_any_blanks_wf / _statement_graph / _script_graph: dq_ok_ws + sep_ok, any runs of '
               'blanks and continuation lines); and for the renderings of all Eval statements (C20_rendered_statements_wf)',
               'the link to the evaluation semantics (Eval.eval_expr) is proved for statements rendered by GNorm.rstmt (fully parenthesised)',
               'conditional expressions read only the selected branch: "every in-edge is read" is proved / observed for conditional-free '
               'equations, and observed on at least one of four data vectors otherwise',
               'for scripts outside the generator (corpus, parser_common scripts, mutations) edges-exact is checked for the statements of a small '
               'sub-grammar read independently by the oracle (_subset_reference); a left-hand side with a named period (Y[\'2000\'] = X) is not evaluated']
EXHAUSTIVE = {'quick': False, 'thorough': False}
CASE_TIMEOUT = 60
SOURCES = ['tools.py', 'parser.py']

EXDIR_NAME = ('Extract', 'Graph')


# --------------------------------------------------------------------------- the extracted driver (coq/Extract/Graph)
def _exdir():
    import os
    return os.path.join(lib.COQ, *EXDIR_NAME)


def ensure_driver():
    import fcntl
    import os
    import subprocess
    ex = _exdir()
    ml, mli, drv, exe = (os.path.join(ex, f) for f in ('graph_model.ml', 'graph_model.mli', 'driver.ml', 'driver'))
    mt = lambda p: os.path.getmtime(p) if os.path.exists(p) else -1.0     # noqa: E731
    vsrc = [os.path.join(lib.COQ, f) for f in MODEL_FILES + ['Layout/Denorm.v', 'Layout/LayoutNorm.v', 'Parser/Format.v', 'Parser/Split.v', 'Parser/Merge.v']]
    vsrc += [os.path.join(lib.COQ, 'Gen', 'Generated.v')]
    if mt(ml) < max(mt(p) for p in vsrc) or mt(mli) < 0:
        # other builders may have rebuilt shared libraries since our .vo files were made: let make bring the dependencies of
        # the extraction file up to date first (build.sh takes the build lock itself), so that coqc sees a consistent set
        try:
            subprocess.run([os.path.join(os.path.dirname(os.path.abspath(lib.__file__)), 'build.sh'), 'Extract/Graph/ExtractGraph.vo'],
                           env=dict(os.environ, VERIF_COQ_DIR=lib.COQ), capture_output=True, text=True, timeout=3000)
        except Exception:      # noqa: BLE001 - the direct coqc call below reports what is wrong
            pass
    with open(os.path.join(lib.COQ, '.build.lock'), 'a') as lk:
        fcntl.flock(lk, fcntl.LOCK_EX)
        try:
            if mt(ml) < max(mt(p) for p in vsrc) or mt(mli) < 0:
                p = subprocess.run(['coqc', '-q', '-R', '.', 'Fsic', '-w', '-notation-overridden,-extraction', 'Extract/Graph/ExtractGraph.v'],
                                   cwd=lib.COQ, capture_output=True, text=True, timeout=600)
                if p.returncode != 0 or mt(ml) < 0:
                    return 'extraction failed: ' + (p.stderr or p.stdout)[-500:]
            if mt(exe) < max(mt(ml), mt(mli), mt(drv)):
                p = subprocess.run(['ocamlfind', 'ocamlopt', '-O2', '-w', '-a', 'graph_model.mli', 'graph_model.ml', 'driver.ml', '-o', 'driver'],
                                   cwd=ex, capture_output=True, text=True, timeout=600)
                if p.returncode != 0:
                    p = subprocess.run(['ocamlfind', 'ocamlopt', '-w', '-a', 'graph_model.mli', 'graph_model.ml', 'driver.ml', '-o', 'driver'],
                                       cwd=ex, capture_output=True, text=True, timeout=600)
                if p.returncode != 0:
                    return 'ocamlopt failed: ' + (p.stderr or p.stdout)[-500:]
        finally:
            fcntl.flock(lk, fcntl.LOCK_UN)
    return None


def run_driver(requests, timeout=1200):
    """one answer line per request line -> (answers, errors)"""
    import os
    import subprocess
    err = ensure_driver()
    if err:
        return None, [err]
    if not requests:
        return [], []
    n = len(requests)
    nshard = max(1, min(lib.NPROC, (n + 63) // 64))
    bounds = [(n * i // nshard, n * (i + 1) // nshard) for i in range(nshard)]
    procs = []
    exe = os.path.join(_exdir(), 'driver')
    for a, b in bounds:
        procs.append((a, b, subprocess.Popen([exe], stdin=subprocess.PIPE, stdout=subprocess.PIPE, stderr=subprocess.PIPE, text=True,
                                             preexec_fn=pc._big_stack)))
    answers, errors = [None] * n, []
    import threading

    def work(a, b, p):
        try:
            out, er = p.communicate('\n'.join(requests[a:b]) + '\n', timeout=timeout)
        except subprocess.TimeoutExpired:
            p.kill()
            errors.append('graph driver timeout on shard %d..%d' % (a, b))
            return
        lines = out.split('\n')
        if lines and lines[-1] == '':
            lines.pop()
        if p.returncode != 0 or len(lines) != b - a:
            errors.append('graph driver failed on shard %d..%d: rc=%s, %d answers for %d requests, stderr=%s' % (a, b, p.returncode, len(lines), b - a, er[-300:]))
            return
        answers[a:b] = lines
    ths = [threading.Thread(target=work, args=x) for x in procs]
    for t in ths:
        t.start()
    for t in ths:
        t.join()
    if not errors:
        for i, x in enumerate(answers):
            if x is None or x.startswith('!') or x == '?':
                errors.append('graph driver answer %r for request %r' % (x, requests[i][:200]))
                break
    return answers, errors


# --------------------------------------------------------------------------- syntax trees, rendering, reference dependencies
VARS = ['X', 'C', 'W', 'Z', 'Yd', 'is_open', 'Pin', 'not_X', 'in_', 'n', 'i_f', 'b1', 'ifx', 'or_']
PARAMS = ['alpha_1', 'a', 's', 'beta']
ERRS = ['e', 'eps']
LHSS = ['Y', 'H', 'K', 'V', 'G', 'Tx', 'as_', 'lambda_']
FUNCS1 = ['exp', 'log', 'abs', 'np.sqrt']
FUNCS2 = ['max', 'min']
BINOPS = ['+', '-', '*', '/', '**']
CMPOPS = ['<', '<=', '==', '!=', '>', '>=']
NUMS = ['1', '2', '0.5', '10', '3', '1.', '.5']
PERIODS = ["'2000'", '"a"', '`2001`', "'2000Q1'", "'a  b'"]
VERBS = ['np.pi', '(1  +  2)', 'np.pi *  2', '3']


def term_id(name, idx):
    if isinstance(idx, int):
        return name + ('[t+%d]' % idx if idx > 0 else '[t]' if idx == 0 else '[t%d]' % idx)
    if idx.startswith('`'):
        return name + '[' + idx[1:-1] + ']'
    return name + '[' + idx + ']'


def gen_tree(rng, names, depth=0):
    r = rng.random()
    if depth >= 3 or r < 0.42:
        kind, nm = rng.choice(names)
        if rng.random() < 0.06:
            idx = rng.choice(PERIODS)
        else:
            idx = rng.choice([0, 0, 0, 0, -1, -1, -2, 1, 1, 2, -3, 3]) if rng.random() < 0.97 else rng.choice([-10, 12, -12, 10])
        return ['var', kind, nm, idx]
    if r < 0.5:
        return ['num', rng.choice(NUMS)]
    if r < 0.52:
        return ['verb', rng.choice(VERBS)]
    if r < 0.58:
        return ['neg', gen_tree(rng, names, depth + 1)]
    if r < 0.78:
        return ['bin', rng.choice(BINOPS), gen_tree(rng, names, depth + 1), gen_tree(rng, names, depth + 1)]
    if r < 0.85:
        return ['call', rng.choice(FUNCS1), [gen_tree(rng, names, depth + 1)]]
    if r < 0.9:
        return ['call', rng.choice(FUNCS2), [gen_tree(rng, names, depth + 1), gen_tree(rng, names, depth + 1)]]
    if r < 0.95:
        return ['if', gen_tree(rng, names, depth + 1), gen_tree(rng, names, depth + 1), rng.choice(CMPOPS), gen_tree(rng, names, depth + 1),
                gen_tree(rng, names, depth + 1)]
    return ['par', gen_tree(rng, names, depth + 1)]


def tree_deps(t, out):
    k = t[0]
    if k == 'var':
        out.append(term_id(t[2], t[3]))
    elif k in ('neg', 'par'):
        tree_deps(t[1], out)
    elif k == 'bin':
        tree_deps(t[2], out)
        tree_deps(t[3], out)
    elif k == 'call':
        for a in t[2]:
            tree_deps(a, out)
    elif k == 'if':
        for a in (t[1], t[2], t[4], t[5]):
            tree_deps(a, out)
    return out


def tree_has_if(t):
    k = t[0]
    if k == 'if':
        return True
    if k in ('neg', 'par'):
        return tree_has_if(t[1])
    if k == 'bin':
        return tree_has_if(t[2]) or tree_has_if(t[3])
    if k == 'call':
        return any(tree_has_if(a) for a in t[2])
    return False


class Layout:
    """random layout choices; `flags` collects the choices that fall into the guard class of a kept finding"""

    def __init__(self, rng, plain=False):
        self.rng = rng
        self.plain = plain
        self.flags = set()
        self.depth = 0

    def gap(self, must=False):
        if self.plain:
            return ' ' if must else ''
        r = self.rng.random()
        if self.depth > 0 and r < 0.08:
            return '\n    '
        opts = [' ', ' ', '  ', '\t'] if must else ['', '', ' ', ' ', '  ']
        return self.rng.choice(opts)

    def index(self, idx, lhs=False):
        rng = self.rng
        if isinstance(idx, int):
            if idx == 0 and (self.plain or rng.random() < 0.7):
                return ''
            body = ('+%d' % idx) if (idx > 0 and not self.plain and rng.random() < 0.4) else '%d' % idx
        else:
            body = idx
        if not self.plain and not lhs and rng.random() < 0.3:
            body = rng.choice([' ', '  ']) + body + rng.choice([' ', '', '  '])
        pre = ''
        if not self.plain and not lhs and rng.random() < 0.012:
            pre = ' '
            self.flags.add('space-before-index')
        return pre + '[' + body + ']'

    def var(self, kind, nm, idx, lhs=False):
        rng = self.rng
        sp = (lambda: '') if self.plain else (lambda: rng.choice(['', '', ' ']))
        if kind == 'p':
            base = '{' + sp() + nm + sp() + '}'
        elif kind == 'e':
            base = '<' + sp() + nm + sp() + '>'
        else:
            base = nm
        return base + self.index(idx, lhs)

    def expr(self, t, top=False):
        k = t[0]
        if k == 'var':
            return self.var(t[1], t[2], t[3])
        if k == 'num':
            return t[1]
        if k == 'verb':
            return '`' + t[1] + '`'
        if k == 'neg':
            return '-' + self.atom(t[1])
        if k == 'par':
            return self.paren(t[1])
        if k == 'bin':
            return self.atom(t[2]) + self.gap() + t[1] + self.gap() + self.atom(t[3])
        if k == 'call':
            self.depth += 1
            inner = (',' + self.gap()).join(self.expr(a) for a in t[2])
            s = t[1] + '(' + self.gap() + inner + self.gap() + ')'
            self.depth -= 1
            return s
        if k == 'if':
            return (self.atom(t[1]) + self.gap(True) + 'if' + self.gap(True) + self.atom(t[2]) + self.gap(True) + t[3] + self.gap(True) + self.atom(t[4])
                    + self.gap(True) + 'else' + self.gap(True) + self.atom(t[5]))
        raise ValueError(k)

    def paren(self, t):
        self.depth += 1
        s = '(' + self.gap() + self.expr(t) + self.gap() + ')'
        self.depth -= 1
        return s

    def atom(self, t):
        # an operand: parenthesised unless it binds tighter than every operator around it
        if t[0] in ('var', 'num', 'call', 'par', 'verb'):
            return self.expr(t)
        return self.paren(t)


def gen_prog(rng, plain=False):
    n = rng.choice([1, 1, 2, 2, 3, 4])
    pool = [('v', x) for x in rng.sample(VARS, 5)] + [('p', x) for x in rng.sample(PARAMS, 2)] + [('e', rng.choice(ERRS))]
    lhss = rng.sample(LHSS, n)
    names = pool + [('v', y) for y in lhss]
    flags = set()
    if rng.random() < 0.02:
        names.append(('v', 'exp'))
        flags.add('maybe-variable-and-function')
    lay = Layout(rng, plain)
    lines, ref = [], []
    todo = list(lhss)
    while todo:
        y = todo.pop(0)
        if todo and not plain and rng.random() < 0.08:
            # a tuple assignment `Y1,Y2[k] = rhs1, rhs2` (no blank on the left: equation_re wants \S+): every target gets every edge
            y2 = todo.pop(0)
            t1, t2 = gen_tree(rng, names), gen_tree(rng, names)
            l1, l2 = rng.choice([0, 0, 0, 1, -1]), rng.choice([0, 0, 0, 1, -1])
            lhs_txt = ','.join(n + (('[%d]' % k) if (k != 0 or rng.random() < 0.15) else '') for n, k in ((y, l1), (y2, l2)))
            line = lhs_txt + rng.choice([' = ', '=', ' =', '= ']) + lay.expr(t1, top=True).strip(' \t') + rng.choice([', ', ',', ' , ']) + lay.expr(t2, top=True).strip(' \t')
            lines.append(line)
            deps = sorted(set(tree_deps(t1, [])) | set(tree_deps(t2, [])))
            for n, k in ((y, l1), (y2, l2)):
                ref.append({'lhs': term_id(n, k), 'deps': deps, 'cond': tree_has_if(t1) or tree_has_if(t2)})
            continue
        tree = gen_tree(rng, names)
        ly = rng.choice([0, 0, 0, 0, 0, 0, 1, -1])
        lhs_txt = y + (('[%d]' % ly) if (ly != 0 or rng.random() < 0.15) else '')
        whole = (not plain) and rng.random() < 0.15
        if whole:
            rhs = lay.paren(tree)
        else:
            rhs = lay.expr(tree, top=True)
        eq = rng.choice([' = ', '=', ' =', '= ', '  =  ']) if not plain else ' = '
        line = lhs_txt + eq + rhs.lstrip(' \t')
        if not plain and rng.random() < 0.1:
            line += rng.choice(['  # trailing', '#c', ' #'])
        if not plain and rng.random() < 0.1:
            lines.append(rng.choice(['# comment', '', '   ', '\t# indented']))
        lines.append(line)
        deps = sorted(set(tree_deps(tree, [])))
        ref.append({'lhs': term_id(y, ly), 'deps': deps, 'cond': tree_has_if(tree)})
    flags |= lay.flags
    if 'maybe-variable-and-function' in flags:
        flags.discard('maybe-variable-and-function')
        s_all = '\n'.join(lines)
        if re.search(r'(?<![A-Za-z_0-9.])exp\s*\(', s_all) and re.search(r'(?<![A-Za-z_0-9.])exp(?!\s*\(|[A-Za-z_0-9.])', s_all):
            flags.add('variable-and-function')
    return {'k': 'prog', 's': '\n'.join(lines), 'ref': ref, 'flags': sorted(flags), 'seed': rng.randrange(1 << 30)}


CORPUS = [
    'Y = C + I + G', 'C = {alpha_1} * YD + {alpha_2} * H[-1]', 'C = ({alpha_1} * YD +\n     {alpha_2} * H[-1])',
    'Y = exp + exp(X)', 'Y = X [-1]', 'Y = Y[-1] + X', 'Y = Y + 1', 'Y[1] = X + Y', 'Y = X[1] + X[-1] + X + X[0]',
    "Y = X['2000'] + X[`2001`] + X[\"a\"]", 'Y = `self.k` * X', 'Y = X if Z > 0 else W[-1]', 'Y = not_X + is_open + Pin + in_',
    'Y = max(X, Z[-2]) + min (W, 1)', 'Y = np.sqrt(X) + abs(-Z)', 'Y = <e> + {a}[-1] + < eps >[ 2 ]', 'Y = 2e5 * X', 'Y = X.T',
    'Y = X\nZ = Y[-1]\nW = Z + Y', 'Y = X\n```\nfoo = 1\n```\nZ = W', '`x = 1`', '', 'Y = a < b > c', 'Y = 1 if{a}else 2', 'Y = X==Z',
    'Y = X\nY = X', 'Y = f(X) + g.h(Z)', '```\npass\n```\nY = X', 'Y = X\n`k = 1`', '```\nx = Y[t] + 1\nz = 2\n```\nY = X + Z', '`pass`', '```\npass\n```', 'Z==()', 'Y[=1]', 'Y = (X +\n  Z)', '(Y =\n X)', 'Y = X[ -1 ]+X[+1]',
    'S,D = X, Y[-1]', 'S,D = X, Y[-1]\nQ = S + D[-1]', 'A,B[1],C = X, Y, Z[1] + A[-1]', 'S,D = D[-1], S[-1]',     # tuple targets: every target is a node with all edges
    'Y = X; Z = Y', 'Y = Z = C + 1', "Y = X if S == 'W' else Z", 'Y = X if Z > 10 else W[-1]', 'Y = max(X, 3) + (W if Z < 1.5 else C[-2])',
    'b = {as} * X\nY = <if> + b[-1]',     # terms named like reserved words (C14|fixed-point|reserved-word-name): the graph is still exact
]


FIXED_PROGS = [
    {'k': 'prog', 's': 'Y = X [-1]', 'ref': [{'lhs': 'Y[t]', 'deps': ['X[t-1]'], 'cond': False}], 'flags': ['space-before-index'], 'seed': 1},
    {'k': 'prog', 's': 'Y = exp + exp(X)', 'ref': [{'lhs': 'Y[t]', 'deps': ['X[t]', 'exp[t]'], 'cond': False}], 'flags': ['variable-and-function'], 'seed': 1},
    {'k': 'prog', 's': 'Y = Y[-1] + {a} * X\nZ = Y + Z[-1] + <e>', 'ref': [{'lhs': 'Y[t]', 'deps': ['X[t]', 'Y[t-1]', 'a[t]'], 'cond': False},
                                                                        {'lhs': 'Z[t]', 'deps': ['Y[t]', 'Z[t-1]', 'e[t]'], 'cond': False}], 'flags': [], 'seed': 2},
    {'k': 'prog', 's': 'Y = Y + 1', 'ref': [{'lhs': 'Y[t]', 'deps': ['Y[t]'], 'cond': False}], 'flags': [], 'seed': 3},
    {'k': 'prog', 's': 'Y[1] = X[2] if X > Z[-1] else W', 'ref': [{'lhs': 'Y[t+1]', 'deps': ['W[t]', 'X[t+2]', 'X[t]', 'Z[t-1]'], 'cond': True}], 'flags': [], 'seed': 4},
]


def gen(rng, tier):
    cases = [{'k': 's', 's': s, 'seed': 1 + i} for i, s in enumerate(CORPUS)] + [dict(c) for c in FIXED_PROGS]
    n = 1800 if tier == 'quick' else 14000
    for i in range(n):
        cases.append(gen_prog(rng, plain=(i % 10 == 0)))
    m = 500 if tier == 'quick' else 4000
    for _ in range(m):
        s = pc.gen_script(rng)
        cases.append({'k': 's', 's': s, 'seed': rng.randrange(1 << 30)})
        if rng.random() < 0.5:
            t = pc.mutate(rng, s)
            if t != s:
                cases.append({'k': 's', 's': t, 'seed': rng.randrange(1 << 30)})
    return cases


# --------------------------------------------------------------------------- observation (worker; real fsic)
class _NoAssignment(Exception):
    pass


def _label_reads(code):
    """the period labels read as self['NAME', label] in `code` (label a literal), or None when a label is no literal"""
    import ast
    out = []
    try:
        tree = ast.parse(code)
    except SyntaxError:
        return None
    for node in ast.walk(tree):
        if isinstance(node, ast.Subscript) and isinstance(node.value, ast.Name) and node.value.id == 'self':
            sl = node.slice
            if isinstance(sl, ast.Tuple) and len(sl.elts) == 2 and isinstance(sl.elts[0], ast.Constant) and isinstance(sl.elts[1], ast.Constant):
                if sl.elts[1].value not in out:
                    out.append(sl.elts[1].value)
            else:
                return None
    return out


N_VECTORS = 4
DELTAS = (0.37, -0.41, 7.3, -7.3)        # small ones, and ones large enough to make a term under max / min / a comparison win or lose


def _isolated(symbols, seed):
    """every equation executed alone on the built model: perturbation effects and recorded reads.  One entry per assigned term
    (a tuple assignment `S,D = …` gives one per target).  Named periods (`X['2000']`) are positions appended to the span."""
    import random
    import warnings

    import numpy as np

    import evalmodel as em
    import fsic
    Model = fsic.build_model(symbols)
    lags, leads = int(Model.LAGS), int(Model.LEADS)
    n0 = lags + leads + 5
    t = lags + 2
    names = [x for x in Model.NAMES]
    rng = random.Random(seed)
    res = []
    endo = [s for s in symbols if s.type.name == 'ENDOGENOUS' and s.code is not None]

    def run(m, code):
        env = {'np': np, 'self': m, 't': t}
        with warnings.catch_warnings():
            warnings.simplefilter('ignore')
            exec(compile(code, '<equation>', 'exec'), env)      # the real generated statement, alone

    one = r'[A-Za-z_][A-Za-z_0-9]*\[t(?:[+-][0-9]+)?\]'
    for s in endo:
        lhs_all = s.equation.split('=', 1)[0].strip()
        if not re.fullmatch(one + r'(?:\s*,\s*' + one + r')*', lhs_all):
            res.append({'lhs': lhs_all, 'skip': 'lhs'})
            continue
        mine = [m for m in TERM_ID.finditer(lhs_all) if m.group(1) == s.name]
        if not mine:
            res.append({'lhs': lhs_all, 'skip': 'lhs'})
            continue
        mm = mine[0]
        lhs = mm.group(0)
        y, ky = mm.group(1), int(mm.group(2) or 0)
        if not (0 <= t + ky < n0):
            res.append({'lhs': lhs, 'skip': 'range'})
            continue
        labels = _label_reads(s.code)
        if labels is None or any(isinstance(lb, int) and 0 <= lb < n0 for lb in labels):
            res.append({'lhs': lhs, 'skip': 'named-period'})      # a label that is no literal, or collides with the integer test span
            continue
        span = list(range(n0)) + labels
        n = len(span)
        datas = [{nm: [rng.uniform(0.5, 2.0) for _ in range(n)] for nm in names} for _ in range(N_VECTORS)]

        def fresh(data):
            m = Model(span)
            for nm in names:
                m.__dict__['_' + nm][:] = data[nm]
            return m

        shared = Model(span)       # one instance re-loaded for every perturbation run (construction dominates the cost)

        def load(data):
            for nm in names:
                shared.__dict__['_' + nm][:] = data[nm]
            return shared

        # large steps only where a term can be masked by max / min / abs / a comparison / a conditional
        rough = re.search(r'max|min|abs|if|<|>|==|!=|\band\b|\bor\b|\bnot\b|sign|where|clip', s.code) is not None
        deltas = DELTAS if rough else DELTAS[:1]
        # values just above / below the numeric literals of the code, so that a comparison with such a literal can flip
        lits = []
        for w in re.findall(r'(?<![\w.])(\d+\.?\d*|\.\d+)(?![\w.])', re.sub(r'\[[^\]]*\]', '', s.code)):
            try:
                v = float(w)
            except ValueError:
                continue
            if v not in lits and len(lits) < 4:
                lits.append(v)
        entry = {'lhs': lhs, 'reads': [], 'writes': [], 'infl': [], 'labels': [repr(lb) for lb in labels], 'tuple': ',' in lhs_all,
                 'targets': [m.group(0) for m in TERM_ID.finditer(lhs_all)], 'eq': s.equation}
        try:
            base = []
            for d in datas:
                m = fresh(d)
                log = []
                em.install_recorders(m, names, log)
                run(m, s.code)
                base.append(float(np.asarray(m.__dict__['_' + y])[t + ky]))
                if not any(r[0] == 'W' and r[1] == y and r[2] == t + ky for r in log):
                    raise _NoAssignment()
                # offsets relative to t; a named period is reported as ['NAME', 'L', j] (j-th label)
                entry['reads'].append(sorted({(r[1], r[2] - t) if r[2] < n0 else (r[1], 'L%d' % (r[2] - n0))
                                              for r in log if r[0] == 'R' and isinstance(r[2], int)}, key=repr))
                for r in log:
                    if r[0] == 'W' and isinstance(r[2], int) and r[2] < n0 and [r[1], r[2] - t] not in entry['writes']:
                        entry['writes'].append([r[1], r[2] - t])
            cells = [(nm, t + k, k) for nm in names for k in range(-lags, leads + 1)] + [(nm, n0 + j, 'L%d' % j) for nm in names for j in range(len(labels))]
            for nm, pos, key in cells:
                hit = False
                for d, b in zip(datas, base):
                    for kind, dl in [('add', x) for x in deltas] + ([('set', c + sg) for c in lits for sg in (0.5, -0.5)] if rough else []):
                        m = load(d)
                        if kind == 'add':
                            m.__dict__['_' + nm][pos] += dl
                        else:
                            m.__dict__['_' + nm][pos] = dl
                        run(m, s.code)
                        v = float(np.asarray(m.__dict__['_' + y])[t + ky])
                        if not (v == b or (v != v and b != b)):
                            hit = True
                            break
                    if hit:
                        break
                if hit:
                    entry['infl'].append([nm, key])
            entry['reads'] = [[list(x) for x in r] for r in entry['reads']]
        except _NoAssignment:
            entry = {'lhs': lhs, 'skip': 'no-assignment'}      # e.g. `Z==()`: accepted as an equation, but the code is a comparison
        except Exception as e:      # noqa: BLE001 - the class is the observation
            if isinstance(e, (ZeroDivisionError, OverflowError)) or (isinstance(e, TypeError) and 'complex' in str(e)):
                entry = {'lhs': lhs, 'skip': 'arithmetic'}      # e.g. `(-0.5)**0.5` is complex: nothing to do with the graph
            else:
                entry = {'lhs': lhs, 'exc': type(e).__name__}
        res.append(entry)
    return res


def impl(case):
    import warnings

    import fsic
    import fsic.tools
    s = case['s']
    try:
        with warnings.catch_warnings():
            warnings.simplefilter('ignore')
            symbols = fsic.parse_model(s)
    except BaseException as e:      # noqa: BLE001
        return {'parse': type(e).__name__}
    out = {'parse': 'ok', 'sym': pc.enc_symbols(symbols)}
    try:
        G = fsic.tools.symbols_to_graph(symbols)
    except BaseException as e:      # noqa: BLE001
        out['graph'] = type(e).__name__
        return out
    out['graph'] = 'ok'
    out['nodes'] = [[n, d.get('equation')] for n, d in G.nodes(data=True)]
    out['extra_attrs'] = sorted({k for _n, d in G.nodes(data=True) for k in d if k != 'equation'})
    out['edges'] = [[a, b] for a, b in G.edges()]
    out['eqs'] = [[x.name, x.equation] for x in symbols if x.type.name == 'ENDOGENOUS']
    # history inside one process: the caller edits the graph it was given, then asks again (same list, and an equal copy of it)
    try:
        first = (out['nodes'], out['edges'])
        G.add_edge('__canary__', out['nodes'][0][0] if out['nodes'] else '__other__')
        if len(out['nodes']) > 1:
            G.remove_node(out['nodes'][-1][0])
        again = []
        for sy in (symbols, list(symbols)):
            G2 = fsic.tools.symbols_to_graph(sy)
            snap = ([[n, d.get('equation')] for n, d in G2.nodes(data=True)], [[a, b] for a, b in G2.edges()])
            again.append('same' if snap == first else snap)
            G2.add_node('__canary2__')
        out['again'] = again
    except BaseException as e:      # noqa: BLE001
        out['again'] = ['raised ' + type(e).__name__]
    try:
        out['names'] = [str(x) for x in fsic.build_model(symbols).NAMES]
    except BaseException as e:      # noqa: BLE001
        out['names_exc'] = type(e).__name__
    try:
        out['iso'] = _isolated(symbols, case.get('seed', 0))
    except BaseException as e:      # noqa: BLE001
        out['iso_exc'] = type(e).__name__
    return out


# --------------------------------------------------------------------------- correspondence
_K_DETAIL = {}
_K_STATS = {'graphs': 0, 'equations': 0, 'in_domain': 0}


def _graph_line(o):
    return ('O:' + ','.join(pc.hx(n) + '=' + pc.enc_opt(a) for n, a in o['nodes']) + '|' + ','.join(pc.hx(a) + '>' + pc.hx(b) for a, b in o['edges']) + '|%d' % len(o['edges']))


def correspond(cases, obs, tag, tier):
    bad, errors = [], []
    _K_DETAIL.clear()
    idx = [i for i, o in enumerate(obs) if o is not None and o.get('parse') == 'ok' and 'graph' in o]
    ans, errs = run_driver([('G ' + obs[i]['sym']).rstrip() for i in idx])
    if errs:
        return [], errs
    for i, a in zip(idx, ans):
        o = obs[i]
        real = _graph_line(o) if o['graph'] == 'ok' else 'E:' + o['graph']
        _K_STATS['graphs'] += 1
        if a != real:
            bad.append(i)
            _K_DETAIL[lib.jhash(cases[i])] = {'model': a[:400], 'impl': real[:400]}
    # domain of the theorems: real normalised equations are well-formed token lists
    reqs, where = [], []
    for i in idx:
        o = obs[i]
        if o['graph'] != 'ok':
            continue
        eqs = [e for _n, e in o['eqs'] if e is not None]
        for e in eqs:
            _K_STATS['equations'] += 1
            reqs.append('Z ' + pc.hx(e))            # the model's own reader GTokenise.tokenise (sound and complete for neq_wf)
            where.append(i)
    ans, errs = run_driver(reqs)
    if errs:
        return [], errs
    for i, a, r in zip(where, ans, reqs):
        if a == '1':
            _K_STATS['in_domain'] += 1
        elif cases[i]['k'] == 'prog' and not cases[i]['flags']:
            # an equation of the generated grammar that the theorems' hypothesis does not cover
            if i not in bad:
                bad.append(i)
                _K_DETAIL[lib.jhash(cases[i])] = {'GTokenise.tokenise rejects the real equation': pc.unhx(r[2:])[:300]}
    return sorted(set(bad)), errors


def explain(case, obs):
    d = _K_DETAIL.get(lib.jhash(case))
    out = {'k_stats': dict(_K_STATS)}
    if d is not None:
        out['disagreement'] = d
    return out


def guard(case, obs):
    return False


# --------------------------------------------------------------------------- oracle: the property on the real observations
def varlike(x):
    return not x.startswith('`') and '[' in x


TERM_ID = re.compile(r'([A-Za-z_][A-Za-z_0-9]*)\[t([+-][0-9]+)?\]')


def _label_of(idx_text):
    import ast
    try:
        return repr(ast.literal_eval(idx_text))
    except (ValueError, SyntaxError):
        return None


def _node_cell(node, labels):
    """(name, offset) of a node NAME[t+k]; (name, 'Lj') of a node NAME[label] whose label is the j-th one read by the code; else None"""
    m = TERM_ID.fullmatch(node)
    if m:
        return (m.group(1), int(m.group(2) or 0))
    m = re.fullmatch(r'([A-Za-z_][A-Za-z_0-9]*)\[(.*)\]', node, re.S)
    if m:
        lb = _label_of(m.group(2))
        if lb is not None and lb in labels:
            return (m.group(1), 'L%d' % labels.index(lb))
    return None


def _cell_node(nm, key, labels, nodes):
    if isinstance(key, int):
        return term_id(nm, key)
    for n in nodes:
        if _node_cell(n, labels) == (nm, key):
            return n
    j = int(key[1:])
    return '%s[%s]' % (nm, labels[j] if j < len(labels) else '?')


_KW = None


def _subset_reference(script):
    """an independent reading of the statements of `script` that lie in a small sub-grammar (single line NAME[k] = rhs; rhs made of
    names, NAME[+-k], {NAME}, numbers, + - * / ** ( ) , and calls of plain or np.-dotted functions; no keyword, quote, backtick, '<', '>',
    ';', blank before '['): {lhs id: set of dependencies}, only for left-hand sides ALL of whose statements are in the sub-grammar"""
    global _KW
    import keyword
    if _KW is None:
        _KW = set(keyword.kwlist)
    ref, spoiled = {}, set()
    for line in script.split('\n'):
        body = line.split('#', 1)[0].rstrip()
        if not body.strip():
            continue
        m = re.fullmatch(r'([A-Za-z_]\w*)(?:\[([+-]?\d+)\])?\s*=(?!=)\s*([A-Za-z0-9_ \t\[\]+\-*/(),.{}]+)', body)
        lhs_name = re.match(r'\s*\(?\s*([A-Za-z_]\w*)', body)
        if not m:
            if lhs_name:
                spoiled.add(lhs_name.group(1))
            else:
                return {}
            continue
        y, ky, rhs = m.group(1), int(m.group(2) or 0), m.group(3)
        ok = (not re.search(r'\s\[|\[\s*[+-]\s|[A-Za-z_]\s*\.\s|\.\s*[A-Za-z_]|\d[A-Za-z_]|\{\{|\}\}|\[[^\]]*[^\d+\-\s][^\]]*\]', rhs.replace('np.', 'np_'))
              and rhs.count('(') == rhs.count(')') and rhs.count('{') == rhs.count('}') and y not in _KW)
        deps = set()
        if ok:
            for t in re.finditer(r'(\{\s*)?(?<![\w.])([A-Za-z_][\w.]*)(\s*\})?(\s*\()?(?:\[\s*([+-]?\d+)\s*\])?', rhs):
                name = t.group(2)
                if name.split('.')[0] in _KW or (bool(t.group(1)) != bool(t.group(3))):
                    ok = False
                    break
                if t.group(4):
                    if t.group(1) or t.group(5):
                        ok = False
                        break
                    continue                      # a function name
                if '.' in name:
                    ok = False
                    break
                deps.add(term_id(name, int(t.group(5) or 0)))
        if not ok:
            spoiled.add(y)
            continue
        ref.setdefault(term_id(y, ky), set()).update(deps)
    return {k: v for k, v in ref.items() if k.split('[')[0] not in spoiled}


def _second_assignment(script):
    """input shape of the finding assignment-without-lhs-node: a statement holding a second assignment — after ";" or chained (`Y = Z = C`)"""
    bare = re.sub(r'\'[^\'\n]*\'|"[^"\n]*"|`[^`\n]*`', '', script)
    bare = re.sub(r'<\s*([A-Za-z_]\w*)\s*>', r'\1', bare)          # an error term <NAME> is no comparison
    if ';' in bare:
        return True
    for line in bare.split('\n'):
        line = re.sub(r'\[[^\]]*\]', '', line.split('#', 1)[0])
        if len(re.findall(r'(?<![=!<>])=(?!=)', line)) >= 2:
            return True
    return False


def _in_string_literal(script, name):
    """does `name` occur inside a quoted string of the script that is no index label (not directly after '[')?"""
    for m in re.finditer(r'(?<!\[)(?<!\[ )(\'[^\'\n]*\'|"[^"\n]*")', script):
        if re.search(r'(?<![\w.])' + re.escape(name) + r'(?![\w])', m.group(1)):
            return True
    return False


def oracle(case, obs):
    fails = []
    flags = set(case.get('flags', []))

    def add(clause, what):
        cls = clause
        if 'space-before-index' in flags and clause in ('edges-exact', 'isolated-evaluation-raises', 'influence-without-edge', 'edge-not-read'):
            cls = clause + '|space-before-index-bracket'
        fails.append({'sig': 'C20|' + cls, 'what': what + ' — script ' + json.dumps(case['s'])[:200]})

    if obs.get('parse') != 'ok':
        if case['k'] == 'prog' and not flags:
            add('grammar-program-rejected', 'a program of the grammar was rejected with ' + str(obs.get('parse')))
        return fails
    if obs.get('graph') != 'ok':
        verb = [x.split('|') for x in obs['sym'].split(';') if x]
        if (obs['graph'] == 'ValueError' and case['k'] == 's'
              and any(f[1] == 'ENDOGENOUS' and f[4] != '-' and '=' not in pc.unhx(f[4][1:]) for f in verb)):
            add('graph-raises|equation-without-equals', 'symbols_to_graph raised ValueError: the parser produced a normalised equation without "=" '
                '(an index bracket that spans the "=" of the statement)')
        else:
            add('graph-raises', 'symbols_to_graph raised ' + str(obs.get('graph')) + ' on the symbols of an accepted script')
        return fails
    for j, a in enumerate(obs.get('again', [])):
        if a != 'same':
            add('graph-not-fresh', 'after the caller edited the returned graph, call %d of symbols_to_graph on the same symbols gives %s, the first call gave %s'
                % (j + 2, json.dumps(a)[:160], json.dumps([obs['nodes'], obs['edges']])[:160]))
    nodes = {n: a for n, a in obs['nodes']}
    edges = {(a, b) for a, b in obs['edges']}
    if len(obs['edges']) != len(edges) or len(obs['nodes']) != len(nodes):
        add('duplicates', 'a node or edge is listed twice')
    # one node per left-hand-side term, carrying its normalised equation
    lhs_of = {}
    for name, e in obs['eqs']:
        if e is None or '=' not in e:
            continue
        for m in TERM_ID.finditer(e.split('=', 1)[0]):
            lhs_of.setdefault(m.group(0), []).append(e)
    for lhs, es in lhs_of.items():
        if len(set(es)) == 1 and nodes.get(lhs, None) != es[0]:
            add('lhs-node', 'left-hand side %s does not carry its equation %r (node attribute %r)' % (lhs, es[0], nodes.get(lhs)))
    for n, a in nodes.items():
        if a is not None and varlike(n) and TERM_ID.fullmatch(n) and n not in lhs_of:
            add('attribute-on-non-lhs', 'node %s carries an equation but is on no left-hand side' % n)
    # only the equations of endogenous variables define terms: a verbatim block (its code sits in the same Symbol field) adds nothing
    endo_eqs = [e for _n, e in obs['eqs'] if e is not None]
    for n in nodes:
        if not any(n in e for e in endo_eqs):
            add('node-from-non-equation', 'node %r occurs in no equation of an endogenous variable' % n)
    for a, b in edges:
        if a not in nodes or b not in nodes:
            add('dangling-edge', 'edge %s -> %s has an endpoint that is not a node' % (a, b))
    # every variable-like term of the graph is a series of the model built from the same symbols (finding #19, fixed by b45daa1)
    if 'names' in obs:
        for n in nodes:
            m = re.fullmatch(r'([A-Za-z_][A-Za-z_0-9]*)\[.*\]', n, re.S)
            if m and m.group(1) not in obs['names']:
                add('edge-term-is-no-series-of-the-model', 'node %s of the graph: the model has no series %r (NAMES = %s)' % (n, m.group(1), obs['names'][:12]))
    # exact edge set against the syntax tree
    if case['k'] == 'prog':
        if {r['lhs'] for r in case['ref']} != {n for n, a in nodes.items() if a is not None}:
            add('lhs-nodes-exact', 'nodes with an equation %s, left-hand sides written %s'
                % (sorted(n for n, a in nodes.items() if a is not None), sorted(r['lhs'] for r in case['ref'])))
        for r in case['ref']:
            got = sorted(a for a, b in edges if b == r['lhs'] and varlike(a))
            if got != sorted(r['deps']):
                add('edges-exact', 'variable-like edges into %s are %s, terms written on its right-hand side %s' % (r['lhs'], got, sorted(r['deps'])))
    # scripts outside the generator: the statements that lie in a small sub-grammar are read independently
    if case['k'] == 's':
        for lhs, deps in _subset_reference(case['s']).items():
            if lhs in nodes and nodes[lhs] is not None:
                got = sorted(a for a, b in edges if b == lhs and varlike(a))
                if got != sorted(deps):
                    add('edges-exact', 'variable-like edges into %s are %s, terms written on its right-hand side %s' % (lhs, got, sorted(deps)))
    # data flow
    if 'iso_exc' in obs:
        if case['k'] == 'prog' and not flags:
            add('model-not-built', 'the model of a grammar program could not be built / instantiated: ' + obs['iso_exc'])
        return fails
    cond = {r['lhs']: r['cond'] for r in case.get('ref', [])}
    for ent in obs.get('iso', []):
        lhs = ent['lhs']
        if 'skip' in ent:
            continue
        if 'exc' in ent:
            if case['k'] == 'prog':
                add('isolated-evaluation-raises', 'executing the equation of %s alone raised %s' % (lhs, ent['exc']))
            continue
        into = {a for a, b in edges if b == lhs}
        labels = ent.get('labels', [])
        # every cell of a series that the code READS has an edge (the converse of edge-not-read; soundness without perturbation)
        for r in ent['reads']:
            for nm, k in r:
                node = _cell_node(nm, k, labels, into)
                if node not in into:
                    add('read-without-edge', 'executing the equation of %s reads %s but there is no edge' % (lhs, node))
        # every cell the code WRITES is a left-hand term of the equation ("one node per left-hand term")
        semicolon = False
        for nm, k in ent.get('writes', []):
            if term_id(nm, k) not in ent.get('targets', [lhs]):
                semicolon = semicolon or _second_assignment(case['s'])
                if _second_assignment(case['s']):
                    fails.append({'sig': 'C20|assignment-without-lhs-node|second-assignment',
                                  'what': 'the code of %s also assigns %s, which is no left-hand term of the equation %r (a second assignment after ";" or chained "=") — script %s'
                                          % (lhs, term_id(nm, k), ent.get('eq'), json.dumps(case['s'])[:160])})
                else:
                    add('assignment-without-lhs-node', 'the code of %s also assigns %s, which is no left-hand term of its equation' % (lhs, term_id(nm, k)))
        for nm, k in ent['infl']:
            node = _cell_node(nm, k, labels, into)
            if node not in into:
                add('influence-without-edge', 'perturbing %s changes %s but there is no edge' % (node, lhs))
        runs = [{(x[0], x[1]) for x in r} for r in ent['reads']]
        for a in sorted(into):
            key = _node_cell(a, labels)
            if key is None:
                continue
            seen = [key in r for r in runs]
            if case['k'] == 'prog':
                is_cond = cond.get(lhs, True)
            else:
                # outside the generator: a conditional expression, and / or short-circuit, a verbatim fragment need not read every term
                is_cond = re.search(r'\b(?:if|else|and|or|not|lambda|for|in|is)\b|`|[<>]|[=!]=', (ent.get('eq') or 'if').split('=', 1)[-1]) is not None      # chained comparisons short-circuit too
            if (not any(seen)) if is_cond else (not all(seen)):
                if is_cond and _in_string_literal(case['s'], key[0]) and not any(seen):
                    fails.append({'sig': 'C20|edge-not-read|term-inside-string-literal',
                                  'what': 'edge %s -> %s, but %s stands inside a string literal of the script: the code compares with / uses the '
                                          'rewritten text, the cell is never read — script %s' % (a, lhs, key[0], json.dumps(case['s'])[:160])})
                    continue
                if is_cond:
                    continue        # a branch none of the data vectors selects: nothing is claimed
                if semicolon:
                    continue        # the term is ASSIGNED by a second statement after ";": reported above as assignment-without-lhs-node|second-assignment
                add('edge-not-read', 'edge %s -> %s but the cell is not read when the equation is executed' % (a, lhs))
    return fails


def nontrivial(case, obs):
    return obs.get('parse') == 'ok' and obs.get('graph') == 'ok' and any(varlike(a) for a, _b in obs.get('edges', []))


def bucket(case, obs):
    if obs.get('parse') != 'ok':
        return case['k'] + '/rejected/' + str(obs.get('parse'))
    if obs.get('graph') != 'ok':
        return case['k'] + '/graph-raises'
    ne = sum(1 for _n, a in obs['nodes'] if a is not None)
    iso = 'iso-ok' if ('iso' in obs and all('exc' not in e for e in obs['iso'])) else 'iso-exc'
    return '%s/%d-eq/%s' % (case['k'], min(ne, 4), iso)


def shrink_candidates(case):
    s = case['s']
    lines_ = s.split('\n')
    if case['k'] == 'prog':
        # drop whole statements (only those that are single lines keep `ref` aligned: re-derive by left-hand side)
        for i in range(len(lines_)):
            rest = lines_[:i] + lines_[i + 1:]
            t = '\n'.join(rest)
            lhs_left = set()
            for ln in rest:
                m = re.match(r'\s*\(?\s*([A-Za-z_][A-Za-z_0-9]*)', ln)
                if m:
                    lhs_left.add(m.group(1))
            ref = [r for r in case['ref'] if r['lhs'].split('[')[0] in lhs_left]
            if len(ref) < len(case['ref']) and ref:
                yield dict(case, s=t, ref=ref)
        return
    if len(lines_) > 1:
        for i in range(len(lines_)):
            yield dict(case, s='\n'.join(lines_[:i] + lines_[i + 1:]))
    toks = pc.TOKEN_RE.findall(s)
    if len(toks) > 1:
        step = max(1, len(toks) // 24)
        for i in range(0, len(toks), step):
            yield dict(case, s=''.join(toks[:i] + toks[i + step:]))
