"""C05 — solve() equals the ordered sequence of single-period solves; failures contained; solve_period = solve_t o locate."""
import copy

import lib
from props import solver_common as sc

ID = 'C05'
PROPS_FILE = 'Props/C05.v'
MODEL_FILES = ['Solver/Solver.v', 'Solver/SolverF.v', 'Solver/SolveAll.v', 'Solver/SolveAllSpan.v', 'Solver/SolveAllPeriod.v', 'Solver/SolveAllF.v',
               'Solver/SolveAllHistF.v']
K_NAME = ('K_solve (SolveAll.solve_M / solve_period_M over Solver.solve_t_M, instantiated with PrimFloat, with SolveAllSpan.locate_span = '
          'the dispatch of _locate_period_in_span over the regenerated _VALID_INDEX_METHODS (list.index / NumPy fallback / modelled '
          'pandas get_loc), vs SolverMixin.solve / solve_period / iter_periods of scripted and parser-built models over range, list, '
          'tuple, NumPy and pandas spans)')
RULE = ('scripted models over span types {range, list / tuple of str, NumPy int / str array, pandas Index int / str, quarterly PeriodIndex, '
        'list / NumPy / pandas spans with a repeated label (adjacent and non-monotonic repeats, at the ends and INNER repeats with unambiguous '
        'end labels), range / list / NumPy / pandas spans holding a FALSY label (integer 0, empty string) at position 1, quarterly PeriodIndex '
        'starting 2000Q1 / 2000Q3} x span length 0..4 (5 at the thorough tier) x (start, end) pairs (every pair up to length 3, sampled beyond) over '
        '{default, each label, an unknown label; PeriodIndex also: the label written as a string, year strings matching several / one / no quarter} '
        '(so reversed, equal, boundary and unknown pairs are all present) x a fault (exception in a pass, exception in the pre-hook, '
        'NaN, +inf, non-convergence, warning) at each position in turn (thorough tier: every kind at every position up to length 3) x errors / failures / catch_first_error / min_iter / max_iter / '
        'offset / tol sampled; offsets -2..2 over whole spans and ranges touching either end (IndexError containment); lags and leads 0..2 incl. spans too short for them and explicit starts before the first feasible period; '
        'histories of 2..7 steps on ONE instance (solve_t / solve_period / solve with their own options and offsets, copy(), reindex(same span), whole-series list and direct cell assignments incl. NaN; re-solved periods) compared step by step with single-period calls on a twin; solve_period(label) for every label spec; iter_periods(start, end) itself for every pair (pairs and len() compared) and the protocol of the object it returns (next, next, list, list, len); parser-built models (recursive, simultaneous, lagged and leading equations, 1/X[-1], '
        'log) whose class-level LAGS / LEADS come from the real parser, the recorded per-pass columns being the model\'s script. Each case runs solve() (or solve_period) and, on a twin instance, the plain loop of '
        'solve_t over the positions the statement names. Non-trivial = at least two periods visited, or a fault / label error / '
        'infeasible period was met; distinct by hash of the whole case.')
TRUSTED = ['scripted-model subclass harness/scripted.py (same script is the Coq oracle)',
           'labels are compared as integer ids (id of a label = first position holding an equal label, computed by the harness with ==)',
           'span type period_q only: the model\'s `locate` is the table of get_loc answers recorded from the run (kept as a cross-check of '
           'the modelled PeriodIndex lookup SolveAllPeriod.locate_qindex used for period_qm / period_qm_late: Period objects, full strings, '
           'year strings matching several / one / no quarter); plain pandas Index, NumPy, list, tuple and range spans use the modelled lookup']
ASSUMPTIONS = ['_evaluate and the hooks write only the column of the period they are called for (frame premise of C05_failure_containment; '
               'true of the scripted models used here, C05_scripted_oracles_frame)',
               'a label GIVEN by the caller that is carried by several periods of a list / tuple span is outside the statement (list.index '
               'silently takes the first one; compared with the model only); on NumPy / pandas spans it must raise KeyError; default start / '
               'end carry no condition on the labels (fix 7cd6323)']
EXHAUSTIVE = {'quick': False, 'thorough': False}
CASE_TIMEOUT = 30

FAULTS = ['exc', 'hookexc', 'nan', 'inf', 'noconv', 'warn']


def impl(case):
    if case.get('kind') == 'hist':
        return sc.impl_hist(case)
    if case.get('kind') == 'parsed':
        return sc.impl_solve_parsed(case)
    return sc.impl_solve(case)


def view(case, obs):
    """the scripted-format case the observation is about (parser-built models: derived from the recorded run)"""
    return obs['as_scripted'] if case.get('kind') == 'parsed' else case


# --------------------------------------------------------------------------- generator
def good_script(p):
    v = 1.5 + p
    return {'passes': sc.settle_passes(0, [1.0 + p, v, v, v, v, v])}


def faulty_script(rng, p, kind):
    k = rng.randint(1, 3)
    v = 1.5 + p
    vals = [1.0 + p, 2.0 + p, v, v, v, v]
    passes = sc.settle_passes(0, vals)
    ps = {'passes': passes}
    if kind == 'exc':
        passes[k - 1] = [['set', 1, lib.fhex(9.0)], ['raise', rng.choice([10, 11, 12, 20, 21, 22])]]
    elif kind == 'hookexc':
        ps['before' if rng.random() < 0.6 else 'after'] = [['raise', 13]]
    elif kind == 'nan':
        passes[k - 1] = [['set', 0, 'nan']]
    elif kind == 'inf':
        passes[k - 1] = [['set', 0, rng.choice(['inf', '-inf'])]]
    elif kind == 'noconv':
        ps['passes'] = sc.settle_passes(0, [1.0 + p, 2.0 + p] * 4)
    elif kind == 'warn':
        passes[k - 1] = [['set', 1, lib.fhex(9.0)], ['warnset', 0, rng.choice(['inf', lib.fhex(4.0)])]]
    return ps


def rand_opts(rng):
    mx = rng.choice([3, 4, 5, 6])
    # tol = 0.75: the good script then converges at pass 2 instead of 3 (|1.5 - 1.0| < 0.75, while pass 1 moves by >= 0.75)
    return dict(min_iter=rng.choice([0, 0, 1, 2]), max_iter=mx, failures=rng.choice(['raise', 'ignore']),
                errors=rng.choice(['raise', 'raise', 'skip', 'ignore', 'replace']), catch_first_error=rng.random() < 0.5,
                tol=lib.fhex(rng.choice([1e-10, 1e-10, 0.75])))


def specs_for(span_type, n):
    return sc.label_specs(span_type, n)


def build(rng, span_type, n, start, end, entry='solve', fault=None, lags=0, leads=0, **opts):
    o = rand_opts(rng)
    o.update(opts)
    c = sc.solve_case(span_type=span_type, n=n, start=start, end=end, entry=entry, nvars=2, check=(0,), endo=(0,), lags=lags, leads=leads, **o)
    scripts = {str(p): good_script(p) for p in range(n)}
    if fault is not None and n:
        p, kind = fault
        scripts[str(p)] = faulty_script(rng, p, kind)
    scripts = sc.with_list_assignments(rng, scripts, 0.1)          # some stores as whole-series list assignments (array rebound)
    c['scripts'] = scripts
    c['opts'] = sc.random_omit(rng, c['opts'], 0.12)             # some calls leave keywords to their defaults
    if rng.random() < 0.08 and n and entry not in ('iter_periods', 'iter_next', 'iter_protocol'):
        # an extra keyword argument that _evaluate uses: solve() / solve_period() must hand **kwargs down (and on to iter_periods)
        q = rng.randrange(n)
        a = scripts[str(q)]['passes'][0][0]
        if a[0] == 'set':
            c['kwargs'] = {'shift': lib.fhex(rng.choice([0.5, -1.0, 1e-11]))}
            scripts[str(q)]['passes'][0][0] = ['setkw', a[1], a[2], 'shift']
    if rng.random() < 0.1 and n:
        q = rng.randrange(n)
        c['status'][q] = rng.choice(['.', 'F', 'E', 'S'])
        c['iters'][q] = rng.randint(0, 9)
    return c


PARSED = [
    # equations (class-level LAGS / LEADS come from the parser), start-value palette per variable
    ('Y = 0.5 * Y[-1] + X', {'X': [1.0, 0.0, 2.0], 'Y': [0.0, 1.0]}),
    ('Y = X[1] + X[-1]', {'X': [1.0, 0.5, -1.0], 'Y': [0.0]}),
    ('K = K[-1] + I[-2]\nI = 0.25 * K', {'K': [1.0, 2.0], 'I': [0.0, 1.0]}),
    ('C = 0.5 * Y\nY = C + G', {'G': [1.0, 2.0, 0.0], 'C': [0.0], 'Y': [0.0]}),
    ('Y = 1 / X[-1]', {'X': [1.0, 0.0, 2.0, -0.5], 'Y': [0.0]}),
    ('Y = Y[-1] * 2 + X[2]', {'X': [1.0, 0.0], 'Y': [0.0, 1.0]}),
    ('A = log(B)\nB = B[-1] - 1', {'B': [3.0, 2.0, 1.0, 0.0], 'A': [0.0]}),
    ('Y = X', {'X': [1.0, 2.0], 'Y': [0.0]}),
]


def parsed_case(rng, nmax):
    eqs, init = PARSED[rng.randrange(len(PARSED))]
    st = rng.choice([t for t in sc.SPAN_KIND if t not in sc.RX_KIND])
    n = rng.randint(1, nmax + 1)
    sp = specs_for(st, n)
    o = rand_opts(rng)
    o.update(max_iter=rng.choice([3, 6, 12]), tol=lib.fhex(rng.choice([1e-10, 1e-3, 0.75])), offset=rng.choice([0, 0, 0, -1]))
    ini = {nm: [lib.fhex(rng.choice(c)) for _ in range(n)] for nm, c in init.items()}
    entry = 'solve' if rng.random() < 0.8 else 'solve_period'
    start = rng.choice(sp if entry == 'solve' else sp[1:])
    return {'kind': 'parsed', 'equations': eqs, 'n': n, 'span_type': st, 'start': start, 'end': rng.choice(sp) if entry == 'solve' else None,
            'entry': entry, 'opts': dict(sc.base_case()['opts'], **o), 'init': ini}


def gen(rng, tier):
    cases = []
    quick = tier == 'quick'
    nmax = 4 if quick else 5
    types = [t for t in sc.SPAN_KIND if t not in sc.RX_KIND]          # the rx_* types belong to the histories with reindex()
    # every (start, end) pair for every span type and length (quick tier: every pair up to length 3, a sample of pairs at length 4)
    for st in types:
        for n in range(0, nmax + 1):
            sp = specs_for(st, n)
            pairs = [(a, b) for a in sp for b in sp]
            if quick and (n >= 4 or len(pairs) > 49):
                pairs = rng.sample(pairs, 10 if n >= 4 else 36)
            if not quick and (n >= 5 or len(pairs) > 100):
                pairs = rng.sample(pairs, min(len(pairs), 36 if n >= 5 else 100))
            for a, b in pairs:
                cases.append(build(rng, st, n, a, b))
                cases.append(build(rng, st, n, a, b, entry='iter_periods', lags=rng.choice([0, 0, 1]), leads=rng.choice([0, 0, 1])))
                if n == 0:
                    continue
                if quick:
                    faults = [(rng.randrange(n), rng.choice(FAULTS))]
                elif n <= 3:
                    faults = [(p, k) for p in range(n) for k in FAULTS]          # every fault kind at every position
                elif n == 4:
                    faults = [(p, k) for p in range(n) for k in rng.sample(FAULTS, 3)]
                else:
                    faults = [(rng.randrange(n), rng.choice(FAULTS)) for _ in range(8)]
                for f in faults:
                    cases.append(build(rng, st, n, a, b, fault=f))
            # next(iter_periods(...)): the iterator protocol of the returned object
            if n:
                cases.append(build(rng, st, n, rng.choice(sp), rng.choice(sp), entry='iter_next'))
                cases.append(build(rng, st, n, rng.choice(sp), rng.choice(sp), entry='iter_protocol'))
                cases.append(build(rng, st, n, None, None, entry='iter_protocol'))
            # solve_period for every label spec
            for a in sp[1:]:
                cases.append(build(rng, st, n, a, None, entry='solve_period'))
                if n and (not quick or rng.random() < 0.5):
                    cases.append(build(rng, st, n, a, None, entry='solve_period', fault=(rng.randrange(n), rng.choice(FAULTS))))
    # lags / leads: defaults, spans too short, explicit starts before the first feasible period / ends after the last
    for st in types:
        for n in range(1, nmax + 1):
            combos = [(lags, leads) for lags in (0, 1, 2) for leads in (0, 1, 2) if lags or leads]
            if quick:
                combos = rng.sample(combos, 3)
            for lags, leads in combos:
                cases.append(build(rng, st, n, None, None, lags=lags, leads=leads))
                cases.append(build(rng, st, n, None, None, lags=lags, leads=leads, fault=(rng.randrange(n), rng.choice(FAULTS))))
                cases.append(build(rng, st, n, ['pos', rng.randrange(n)], ['pos', rng.randrange(n)], lags=lags, leads=leads))
                cases.append(build(rng, st, n, ['pos', rng.randrange(n)], None, entry='solve_period', lags=lags, leads=leads))
    # the same offset goes to every period: offsets -2..2 over whole spans and over explicit ranges touching either end — the
    # run stops with IndexError at the first period whose source lies outside the span, earlier periods keep their results
    for st in types:
        for n in range(1, nmax + 1):
            for off in (-2, -1, 1, 2):
                cases.append(build(rng, st, n, None, None, offset=off))
                if not quick or rng.random() < 0.5:
                    cases.append(build(rng, st, n, ['pos', rng.randrange(n)], ['pos', n - 1], offset=off,
                                       fault=(rng.randrange(n), rng.choice(FAULTS)) if rng.random() < 0.3 else None))
    # min_iter > max_iter, max_iter = 0, an invalid `errors`, random offsets
    for _ in range(200 if quick else 3000):
        st = rng.choice(types)
        n = rng.randint(1, nmax)
        sp = specs_for(st, n)
        extra = rng.choice([dict(offset=-1), dict(offset=1), dict(offset=-2), dict(min_iter=7, max_iter=3), dict(max_iter=0, min_iter=0),
                            dict(errors='bogus')])
        cases.append(build(rng, st, n, rng.choice(sp), rng.choice(sp), fault=(rng.randrange(n), rng.choice(FAULTS)) if rng.random() < 0.5 else None,
                           **extra))
    # keyword defaults of solve() / solve_period(): every keyword omitted in turn (and all of them) on scripts whose outcome depends on it
    for omit in sc.default_probe_omissions():
        for name, ps in sc.default_probe_scripts(1).items():
            for entry in ('solve', 'solve_period'):
                c = build(rng, rng.choice(['range', 'np_int', 'pd_str']), 3, ['pos', 1], ['pos', 2] if entry == 'solve' else None, entry=entry)
                c['opts'] = sc.with_omitted({k: v for k, v in c['opts'].items() if k != 'omit'}, omit)
                c.pop('kwargs', None)
                c['vals'][0][1] = lib.fhex(1.0)
                c['scripts'] = {'0': good_script(0), '1': ps, '2': good_script(2)}
                cases.append(c)
    # histories on one instance: solver calls interleaved with copy(), reindex(same span), whole-series and cell assignments
    for _ in range(350 if quick else 5000):
        cases.append(sc.hist_case(rng))
    # parser-built models: real LAGS / LEADS, simultaneous and recursive systems, natural faults (1/X[-1], log)
    for _ in range(350 if quick else 6000):
        cases.append(parsed_case(rng, nmax))
    return cases


# --------------------------------------------------------------------------- correspondence
def correspond(cases, obs, tag, tier):
    plain = [(i, view(c, o), o) for i, (c, o) in enumerate(zip(cases, obs)) if c.get('kind') != 'hist' and sc.k_comparable(c)]
    hist = [(i, c, o) for i, (c, o) in enumerate(zip(cases, obs)) if c.get('kind') == 'hist' and sc.k_comparable(c)]
    bad, errs = [], []
    if plain:
        b, e = sc.correspond_solve([x[1] for x in plain], [x[2] for x in plain], tag + 'a')
        bad += [plain[j][0] for j in b]
        errs += e
    if hist:
        b, e = sc.correspond_hist([x[1] for x in hist], [x[2] for x in hist], tag + 'h')
        bad += [hist[j][0] for j in b]
        errs += e
    return sorted(bad), errs


def explain(case, obs):
    if case.get('kind') == 'hist':
        return sc.explain_hist(case, obs)
    return sc.explain_solve(view(case, obs), obs)


def guard(case, obs):
    return False          # no kept finding of C05 (finding #4 repaired by a094259, defaults-looked-up-by-label by 7cd6323)


# --------------------------------------------------------------------------- oracle
def _state(o):
    return (o['vals'], o['status'], o['iters'], o['log'])


def oracle_hist(case, obs):
    """Histories on one instance (solver calls interleaved with copy(), reindex(same span), whole-series and cell assignments): at
    every step solve() must be identical — outcome and model state — to the plain loop of solve_t over the positions the statement
    names, and solve_period(label) to solve_t(position), carried out on a twin instance that went through the same history."""
    if not obs['twin_diff']:
        return []
    k, got, want, st_m, st_t = obs['twin_diff'][0]
    call = case['calls'][k]
    what = ('step %d of the history, %s(%s) on a %s span: outcome %s, status / iterations %s; the single-period calls on the twin give %s, %s'
            % (k, call['api'], {x: call[x] for x in ('t', 'start', 'end') if x in call}, case['span_type'], got, st_m, want, st_t))
    return [{'sig': 'C05|history|vs-single-period-calls', 'what': what}]


KNOWN_INTERVAL_SIG = 'C05|IntervalIndex|label-position-is-numpy-int64'


def interval_label_class(case, obs):
    """exactly the class of the kept finding: a pandas IntervalIndex span, a label of the span GIVEN by the caller (start / end /
    solve_period argument), and the call rejected it with KeyError"""
    given = [s for s in (case.get('start'), case.get('end')) if s is not None and s[0] == 'pos']
    return case.get('span_type') == 'pd_interval' and bool(given) and obs['out'][:2] == ['raise', 'KeyError']


def oracle(case, obs):
    if case.get('kind') == 'hist':
        return oracle_hist(case, obs)
    fails = _oracle(case, obs)
    if fails and interval_label_class(view(case, obs), obs):
        return [{'sig': KNOWN_INTERVAL_SIG, 'what': 'pandas IntervalIndex span: get_loc answers a label with numpy.int64, which is no built-in int, so '
                 'the label is rejected with KeyError; ' + fails[0]['what']}]
    return fails


def _oracle(case, obs):
    fails = []

    def bad(sig, what):
        fails.append({'sig': 'C05|' + sig, 'what': what})
    case = view(case, obs)
    o = case['opts']
    n = case['n']
    out = obs['out']
    unchanged = (obs['vals'] == case['vals'] and obs['status'] == case['status'] and obs['iters'] == case['iters'] and not obs['log'])
    exp = sc.expected_range(case)
    if exp is None:
        return fails
    # every label carried by exactly one period resolves to that position, as a built-in int (all supported span types)
    cnt = [obs['ids'].count(obs['ids'][i]) for i in range(n)]
    for i in range(n):
        if cnt[i] != 1:
            continue
        got = obs['loc'].get(str(obs['ids'][i]))
        if got is None or got[0] not in ('int', 'intlike') or got[1] != i:      # the statement fixes the position, not its Python type
            bad('locate|%s' % case['span_type'], 'the label of period %d of a %s span must resolve to the single position %d; '
                'the lookup gave %s' % (i, case['span_type'], i, got))
            break
    if o['min_iter'] > o['max_iter'] and case['entry'] not in ('iter_periods', 'iter_next', 'iter_protocol'):
        if out[:2] != ['raise', 'ValueError'] or not unchanged:
            bad('min_iter>max_iter', 'min_iter > max_iter must raise ValueError before anything changes; got %s, unchanged=%s' % (out[:3], unchanged))
        return fails
    if case['entry'] == 'iter_protocol':
        # a = next(pi); b = next(pi); list(pi); list(pi); len(pi): next() walks through the pairs in span order, iterating the object
        # yields every pair of the range again (repeatably), len() is the number of periods
        if exp[0] == 'range':
            a, b = exp[1], exp[2]
            positions = list(range(a, b + 1))
            if len(positions) >= 2:
                wantpos = positions[:2] + positions + positions
                want = ['ret', [obs['ids'][q] for q in wantpos], wantpos]
                if out[:3] != want or out[5] != len(positions):
                    bad('iter_periods|protocol', 'next / next / list / list / len on iter_periods(start=%r, end=%r) (%s span, %d periods) must give '
                        'positions %s and length %d; got %s' % (case['start'], case['end'], case['span_type'], n, wantpos, len(positions), out))
            elif out[:2] != ['raise', 'StopIteration']:
                bad('iter_periods|protocol', 'a range of %d period(s) must run out (StopIteration) at the %s next(); got %s'
                    % (len(positions), 'first' if not positions else 'second', out[:3]))
        return fails
    if case['entry'] == 'iter_next':
        # next(iter_periods(start, end)): the first period of the range comes first
        if exp[0] == 'range' and exp[1] > exp[2] and out[:2] != ['raise', 'StopIteration']:
            bad('iter_periods|next-on-empty-range', 'next() on an empty range must raise StopIteration; got %s' % (out[:3],))
        if exp[0] == 'range' and exp[1] <= exp[2]:
            want = ['ret', [obs['ids'][exp[1]]], [exp[1]]]
            if out[:3] != want:
                bad('iter_periods|next-does-not-yield-first-pair', 'next(iter_periods(start=%r, end=%r)) on a %s span of %d periods must yield the first '
                    '(position, label) pair (%d, label of period %d); got %s' % (case['start'], case['end'], case['span_type'], n, exp[1], exp[1], out[:3]))
        return fails
    if case['entry'] == 'iter_periods':
        # iter_periods(start, end): exactly one (position, label) pair per position from start to end inclusive, in span order;
        # len() of the result agrees; nothing is solved.  (Label errors of iter_periods itself are not part of the statement.)
        if not unchanged:
            bad('iter_periods|state', 'iter_periods() changed the model')
        if exp[0] == 'empty':
            if out[:2] != ['raise', 'SolutionError']:
                bad('empty-span', 'iter_periods() on an empty span must raise SolutionError; got %s' % (out[:3],))
        elif exp[0] == 'range':
            a, b = exp[1], exp[2]
            positions = list(range(a, b + 1))
            want = ['ret', [obs['ids'][q] for q in positions], positions]
            if out[:3] != want or out[5] != len(positions):
                bad('iter_periods|pairs', 'iter_periods(start=%r, end=%r) on a %s span of %d periods (lags %d, leads %d) must yield the pairs of '
                    'positions %s with their labels and have that length; got %s' % (case['start'], case['end'], case['span_type'], n,
                                                                                   case.get('lags', 0), case.get('leads', 0), positions, out))
        return fails
    if case.get('kwargs') and case['entry'] == 'solve':
        for seen in obs.get('ipkw', []):
            if any(k not in seen for k in case['kwargs']):
                bad('kwargs|iter_periods', 'solve(..., %s) must pass its further keyword arguments on to iter_periods(); it received %s'
                    % (sorted(case['kwargs']), seen))
                break
    what_call = 'solve_period(%r)' % (case['start'],) if case['entry'] == 'solve_period' else 'solve(start=%r, end=%r)' % (case['start'], case['end'])
    if exp[0] == 'keyerror' and case['entry'] not in ('iter_periods', 'iter_next', 'iter_protocol'):
        if out[:2] != ['raise', 'KeyError'] or not unchanged:
            bad('bad-label', '%s on a %s span: an unknown / non-single label must raise KeyError before anything is solved; got %s, unchanged=%s'
                % (what_call, case['span_type'], out[:3], unchanged))
        return fails
    if exp[0] == 'empty':
        if case['entry'] == 'solve' and (out[:2] != ['raise', 'SolutionError'] or not unchanged):
            bad('empty-span', 'solve() on an empty span must raise SolutionError; got %s' % (out[:3],))
        return fails
    a, b = exp[1], exp[2]
    tw = obs.get('twin')
    if tw is None:
        return fails
    if case['entry'] == 'solve_period':
        want = tw['out'][:3] if tw['out'][0] == 'raise' else ['ret', tw['out'][1][0]]
        if out[:3] != want or _state(obs) != _state(tw):
            bad('solve_period', '%s on a %s span must be identical to solve_t(%d): outcome %s vs %s, states equal=%s'
                % (what_call, case['span_type'], a, out[:3], want, _state(obs) == _state(tw)))
        return fails
    positions = list(range(a, b + 1))
    if tw['out'][0] == 'ret':
        want = ['ret', [obs['ids'][q] for q in positions], positions, tw['out'][1]]
        if out[:4] != want:
            bad('solve-vs-loop|%s' % ('labels' if out[:2] == ['raise', 'KeyError'] else 'result'),
                '%s on a %s span of %d periods must visit exactly positions %s in order and return (labels, positions, flags) = what the loop of '
                'solve_t gives %s; got %s' % (what_call, case['span_type'], n, positions, want[1:], out))
        if _state(obs) != _state(tw):
            bad('solve-vs-loop|state', '%s: model state after solve() differs from the state after the loop of solve_t over positions %s '
                '(values equal=%s, status %s vs %s, iterations %s vs %s)' % (what_call, positions, obs['vals'] == tw['vals'], obs['status'],
                                                                            tw['status'], obs['iters'], tw['iters']))
    else:
        at = tw['out'][3]
        if out[:3] != tw['out'][:3]:
            bad('solve-vs-loop|exception', '%s: the loop of solve_t raises %s at position %d; solve() gave %s' % (what_call, tw['out'][:3], at, out[:3]))
        if _state(obs) != _state(tw):
            bad('containment|earlier', '%s raised at position %d: earlier periods must keep their completed values and status and the failing '
                'period the status its policy prescribes (= the state the loop of solve_t leaves); status %s vs %s, iterations %s vs %s, values equal=%s'
                % (what_call, at, obs['status'], tw['status'], obs['iters'], tw['iters'], obs['vals'] == tw['vals']))
        for q in range(n):
            if q > at or q < a:
                if any(obs['vals'][i][q] != case['vals'][i][q] for i in range(case['nvars'])) or obs['status'][q] != case['status'][q] \
                        or obs['iters'][q] != case['iters'][q] or any(e[1] == q for e in obs['log']):
                    bad('containment|later', '%s raised at position %d: period %d must be untouched' % (what_call, at, q))
                    break
    return fails


def nontrivial(case, obs):
    if case.get('kind') == 'hist':
        return len(set(obs['status'])) >= 2 or any(o[0] == 'raise' for o in obs['outs'])
    if view(case, obs)['entry'] in ('iter_periods', 'iter_next', 'iter_protocol'):
        return obs['out'][0] == 'raise' or len(obs['out'][1]) >= 2
    visited = {e[1] for e in obs['log']}
    return len(visited) >= 2 or obs['out'][0] == 'raise' or any(s in ('F', 'E', 'S') for s in obs['status'])


def bucket(case, obs):
    if case.get('kind') == 'hist':
        return 'hist/%s/%d calls/%s' % (case['span_type'], len(case['calls']), ''.join(sorted(set(obs['status']))))
    out = obs['out']
    kind0 = case.get('kind', 'scripted')
    case = view(case, obs)
    exp = sc.expected_range(case)
    kind = 'outside' if exp is None else exp[0] if exp[0] != 'range' else ('reversed' if exp[1] > exp[2] else 'range')
    return '/'.join([kind0, case['span_type'], case['entry'], kind, out[1] if out[0] == 'raise' else 'ret'])


def shrink_candidates(case):
    if case.get('kind') == 'hist':
        for i in reversed(range(len(case['calls']))):
            if len(case['calls']) > 1:
                c = copy.deepcopy(case)
                del c['calls'][i]
                yield c
        return
    if case.get('kind') == 'parsed':
        for fld in ('start', 'end'):
            if case[fld] is not None and case['entry'] == 'solve':
                c = copy.deepcopy(case)
                c[fld] = None
                yield c
        return
    for key in list(case['scripts']):
        if case['scripts'][key] != good_script(int(key)):
            c = copy.deepcopy(case)
            c['scripts'][key] = good_script(int(key))
            yield c
    for fld in ('lags', 'leads'):
        if case.get(fld, 0) > 0:
            c = copy.deepcopy(case)
            c[fld] -= 1
            yield c
    if case['opts']['offset']:
        c = copy.deepcopy(case)
        c['opts']['offset'] = 0
        yield c
    for fld in ('start', 'end'):
        if case[fld] is not None and case['entry'] == 'solve':
            c = copy.deepcopy(case)
            c[fld] = None
            yield c
    if case['n'] > 1 and all(s is None or s[0] != 'pos' or s[1] < case['n'] - 1 for s in (case['start'], case['end'])):
        c = copy.deepcopy(case)
        c['n'] -= 1
        for row in c['vals']:
            row.pop()
        c['status'].pop()
        c['iters'].pop()
        c['scripts'].pop(str(c['n']), None)
        yield c
