"""C17 — tracing never changes a solution and records it faithfully (fsic/extensions/model.py: Trace, TracerMixin)."""
import copy

import lib
from props import solver_common as sc

ID = 'C17'
PROPS_FILE = 'Props/C17.v'
MODEL_FILES = ['Solver/Solver.v', 'Solver/SolverF.v', 'Solver/SolveAll.v', 'Tracer/Tracer.v', 'Tracer/TracerSolve.v', 'Tracer/TracerNames.v', 'Tracer/TracerLinked.v', 'Tracer/TracerReindex.v', 'Tracer/TracerF.v']
K_NAME = ('K_tracer: (1) Tracer.traced_solve_t, TracerSolve.traced_solve_period_all / traced_solve_all (solve() from its start= / end= LABELS), '
          'the public snapshot methods trace_t / trace_period called directly, and Trace.to_dataframe of every period, with their untraced twins '
          'Solver.solve_t_M, SolveAll.solve_period_M / solve_M, instantiated with PrimFloat, vs TracerMixin over scripted and parser-built models: '
          'state, every Trace object (names, labels, values), its data frame, result lists / exception class + cause after every call of a call '
          'sequence; (2) TracerNames.trace_names (heap model of WHICH list object a new Trace keeps) vs the observed identities (is Trace.names the '
          'model\'s list / TRACE_VARIABLES / the caller\'s object); (3) TracerSolve.tracer_init vs TracerMixin.__init__ (DuplicateNameError, index, '
          'empty Traces); (4) TracerReindex.reindex_cells / copy_cells / trace_t_cells (which cells of the new instance\'s `_trace` array are None, shared '
          'with the original, or own; does the original\'s Trace change; AttributeError on a new period) vs reindex() / copy(); (5) TracerLinked.linked_passes / plain_passes vs traced scripted submodels inside a BaseLinker and an untraced twin linker')
RULE = ('scripted models (1-4 variables, 1-5 periods) run as a sequence of 1-5 calls on ONE traced instance and on an untraced twin: '
        'structured lattice entry point {solve_t, solve_period, solve} x trace in {omitted, None, False, True, one name, list / tuple of '
        'names, [], \'\', a generator, a set} x reset in {omitted, False, True} x C02/C06 scenarios (convergence at k=1..3, min_iter/max_iter '
        'boundaries, max_iter=0, min_iter>max_iter, non-convergence under failures=raise/ignore, NaN/inf at a pass under raise/skip/ignore/replace/'
        'invalid, warnings with and without catch_first_error, exceptions in _evaluate / pre-hook / post-hook, pre-existing NaN, offsets in '
        'and out of the span, infeasible periods (lags/leads), hooks that write), then random call sequences incl. repeated solves of one '
        'period (same names, other names of the same or of another width — the Trace has to start afresh —, reset=True, tracing switched '
        'off in between), direct trace_t / trace_period calls (any label, trace None / False / [] / \'\' / unknown names, t or label outside the span) '
        'before, between and after solves, histories (between two calls the user assigns a whole series `m.V = [...]`, or continues on m.copy() / '
        'm.reindex(<same span>)), reindex to a longer span / copy followed by traced solves of an old and of a new period (exhaustive small lattice; '
        'the original instance is watched too), TRACE_VARIABLES None / subset / empty, unknown names, t outside the span, solve() with unknown start / end '
        'labels, start > end, lags / leads up to and beyond the span length with default start / end; after the last call the model gets a new '
        'variable and every list passed as trace= and the class\'s TRACE_VARIABLES are edited (no Trace may move); TracerMixin.__init__ over '
        'TRACE_NAME in {free names, every variable, status, iterations} x 0-3 variables x 0-3 periods (exhaustive); linkers over 1-3 traced scripted '
        'submodels solved once or twice with trace= / reset= (labels = pass numbers, twin linker without the keywords); finally parser-built '
        '(C01-grammar) models — 12 scripts with lags (1, 2), leads (1, 2), parameters, 1/X, log, exp, sqrt, max (contractive, divergent, faulting), '
        'multi-character names; TracerMixin stacked on AliasMixin with trace= / TRACE_VARIABLES given by alias names (an alias is read as the '
        'variable it denotes); spans held in a list, a NumPy array or a pandas Index; a further user keyword passed to ~25% of the calls and the '
        'keywords every user hook receives recorded on both sides — whose generated _evaluate is the inner oracle: the columns it leaves after every pass (recorded on the untraced '
        'twin) become the action script of the Coq model for that run. Non-trivial = some call ran >= 2 evaluation passes or ended in an '
        'exception; distinct by hash of the whole case.')
TRUSTED = ['scripted-model subclasses harness/scripted.py + harness/scripted_tracer.py (the same scripts are the Coq oracles; the Recorder layer '
           'between the mixin and the scripted hooks gives the oracle its own record of the store after every pass)',
           'Solver/Solver.v and Solver/SolveAll.v (models of BaseModel.solve_t and SolverMixin.solve / iter_periods / solve_period owned by the C02-C06 '
           'checks) are the untraced side of the theorems; K_tracer runs them too, against the untraced twin of every call',
           'the linker loop itself (convergence, statuses: property C08) is not re-modelled here: the number of passes a linker made of a submodel is '
           'read from the run, what each pass does to the submodel and its Trace is the model\'s']
ASSUMPTIONS = ['the user\'s _evaluate / solve_t_before / solve_t_after modify variable values only: they do not add, remove or resize series, '
               'do not touch the `trace` entry and do not look at the trace= / reset= keywords they are handed (shape of the model\'s inner oracles)',
               'names in trace= / TRACE_VARIABLES are model variables or unknown strings (not `status`, `iterations` or the trace entry itself: the '
               'code accepts those and records strings / objects — trace=[\'Y\', \'status\'] gives a <U32 snapshot array — the model answers KeyError)',
               'trace= is None, a bool, one str, a list or a tuple of names (the property\'s quantifier), or a set / generator (not Sequences: the default '
               'names, mirrored); NOT a NumPy array of names: np.array([\'Y\']) silently traces the default names, np.array([\'Y\', \'C\']) makes '
               '`if trace:` raise ValueError only when tracing (reproduced; outside the quantifier; candidate repair in /verif/fixes)',
               'reset=True contents are pinned by K only (the property does not constrain them); the oracle judges reset=False contents',
               't lies inside the span for the twin comparison (outside it trace_t\'s IndexError precedes every check of the base class)',
               'span = int, str or pandas Period labels held in a Python list, a NumPy array, a pandas Index or PeriodIndex (the lookup routes of '
               '_locate_period_in_span); one label may be repeated in list and array spans (not in pandas indexes, where get_loc answers with a slice)',
               'reference semantics of Python lists as in TracerNames.v: list(x) allocates a new object, in-place edits change exactly the object edited']
EXHAUSTIVE = {'quick': False, 'thorough': False}
CASE_TIMEOUT = 30



# --------------------------------------------------------------------------- the trace= argument
def py_trace(a, alias=0):
    """alias = number of variables that have an alias A<i> (AliasMixin stacked under the tracer; 0 = none): those are named by
    their alias, every other variable (e.g. one added later by add_variable) and unknown names by V<i>."""
    k = a[0]

    class _N:
        def __mod__(self, i):
            return ('A%d' if i < alias else 'V%d') % i
    nm = _N()
    if k == 'none':
        return None
    if k == 'flag':
        return bool(a[1])
    if k == 'name':
        return nm % a[1]
    if k == 'list':
        return [nm % i for i in a[1]]
    if k == 'tuple':
        return tuple(nm % i for i in a[1])
    if k == 'empty_str':
        return ''
    if k == 'genexp':                 # a generator: truthy, not a Sequence -> never iterated, the default names are traced
        return ('V%d' % i for i in a[1])
    if k == 'set':                    # likewise a non-empty set
        return {'V%d' % i for i in a[1]}
    raise AssertionError(a)


def truthy(a):
    k = a[0]
    return (k == 'flag' and bool(a[1])) or k == 'name' or (k in ('list', 'tuple', 'set') and len(a[1]) > 0) or k == 'genexp'


def names_of(case, a):
    if a[0] == 'name':
        return [a[1]]
    if a[0] in ('list', 'tuple'):
        return list(a[1])
    tv = case.get('trace_variables')
    return list(range(case['nvars'])) if tv is None else list(tv)


def c_targ(a):
    k = a[0]
    if k in ('omit', 'none'):
        return 'TNone'
    if k == 'flag':
        return '(TFlag %s)' % lib.cbool(a[1])
    if k == 'name':
        return '(TName %s)' % lib.cnat(a[1])
    if k in ('list', 'tuple'):
        return '(TList %s)' % lib.clist(lib.cnat(i) for i in a[1])
    if k == 'empty_str':
        return '(TList [])'          # '' is falsy exactly like []: tracing off, the names are never looked at
    if k in ('genexp', 'set'):
        return '(TFlag true)'        # truthy, not a Sequence: the class defaults, like True
    raise AssertionError(a)


# --------------------------------------------------------------------------- implementation side
def _opts_kw(o):
    return dict(min_iter=o['min_iter'], max_iter=o['max_iter'], tol=lib.unhex(o['tol']), offset=o['offset'],
                failures=o['failures'], errors=o['errors'], catch_first_error=o['catch_first_error'])


def py_label(x):
    return 'u%d' % x[1] if isinstance(x, list) else x          # ['user', n] -> 'u<n>'; 'start' / 'before' / 'end' / int as they are


def _run(m, call, kw, sk='list'):
    e = call['entry']
    try:
        if e in STATE_OPS:
            return ['ret', None]                 # already applied (to both instances) by impl
        if e in ('trace_t', 'trace_period'):
            # the public snapshot methods take trace= / reset= only (solver options would be swallowed by **kwargs)
            tk = {k: v for k, v in kw.items() if k in ('trace', 'reset')}
            if e == 'trace_t':
                m.trace_t(call['t'], py_label(call['label']), **tk)
            else:
                m.trace_period(to_label(sk, call['plabel']), py_label(call['label']), **tk)
            return ['ret', None]
        if e == 'solve_t':
            return ['ret', bool(m.solve_t(call['t'], **kw))]
        if e == 'solve_period':
            return ['ret', bool(m.solve_period(to_label(sk, call['label']), **kw))]
        kws = dict(kw)
        if call.get('start') is not None:
            kws['start'] = to_label(sk, call['start'])
        if call.get('end') is not None:
            kws['end'] = to_label(sk, call['end'])
        labels, indexes, solved = m.solve(**kws)
        return ['ret', [bool(x) for x in solved], [int(i) for i in indexes], [from_label(sk, x) for x in labels]]
    except Exception as ex:  # the observation: class and class of the chained cause
        c = ex.__cause__
        return ['raise', type(ex).__name__, type(c).__name__ if c is not None else None]


def _snapshot(m, nvars):
    nvars = len(m.__dict__['names'])              # add_variable may have added series since the case started
    return {'vals': [[lib.fhex(x) for x in m.__dict__['_V%d' % i]] for i in range(nvars)],
            'status': [str(x) for x in m.__dict__['_status']],
            'iters': [int(x) for x in m.__dict__['_iterations']],
            'log': [list(e) for e in m.__dict__['_evlog']]}


def impl(case):
    import scripted_tracer as st
    if case.get('kind') == 'parsed':
        return impl_parsed(case)
    if case.get('kind') == 'init':
        return impl_init(case)
    if case.get('kind') == 'linker':
        return impl_linker(case)
    if case.get('kind') == 'rx':
        return impl_rx(case)
    if case.get('kind') == 'dtype':
        return impl_dtype(case)
    cls = st.make_classes(case['nvars'], case['check'], case['endo'], case.get('lags', 0), case.get('leads', 0), case.get('trace_variables'),
                          aliases=bool(case.get('aliases')), alias_tv=case.get('aliases') == 'tv')
    n = case['n']
    sk = case.get('span_kind', 'list')
    span = _make_span(sk, _labels(case))
    m = st.instantiate(cls, _make_span(sk, _labels(case)), case['vals'], case['status'], case['iters'], case['scripts'])     # traced instance
    u = st.instantiate(cls, _make_span(sk, _labels(case)), case['vals'], case['status'], case['iters'], case['scripts'])     # untraced twin
    steps = []
    specs = []
    for call in case['calls']:
        kw = _opts_kw(call['opts'])
        if call.get('tag') is not None:
            kw['tag'] = int(call['tag'])            # a further user keyword: must reach every hook, traced or not
        tkw = dict(kw)
        a = call.get('trace', ['omit'])
        spec = None
        if a[0] != 'omit':
            spec = tkw['trace'] = py_trace(a, alias=case['nvars'] if case.get('aliases') else 0)
            specs.append(spec)
        if call.get('reset') is not None:
            tkw['reset'] = bool(call['reset'])
        if call['entry'] in STATE_OPS:
            m, u = _state_op(m, call, span), _state_op(u, call, span)
            if call['entry'] == 'edit_spec':
                for sp in specs:                  # the caller edits, in place, every list it passed as trace= so far
                    if isinstance(sp, list):
                        sp.append('V0')
                        sp.reverse()
        ncol = len(m.__dict__['_columns'])
        nkw_m, nkw_u = len(m.__dict__.get('_kwlog', [])), len(u.__dict__.get('_kwlog', []))
        olds = [(t, len(t.index) == 0) for t in m.__dict__['_trace']]
        out_m = _run(m, call, tkw, sk)
        out_u = _run(u, call, kw, sk) if call['entry'] not in DIRECT else ['ret', None]
        s = _snapshot(m, case['nvars'])
        s['out'] = out_m
        s['kwlog'] = m.__dict__.get('_kwlog', [])[nkw_m:]
        s['twin_kwlog'] = u.__dict__.get('_kwlog', [])[nkw_u:]
        s['traces'] = st.observe_traces(m, lib.fhex)
        s['frames'] = _frames(m, st.name_id)
        s['alias'] = _alias_obs(m, olds, spec)
        s['columns'] = [[c[0], c[1], c[2], [lib.fhex(x) for x in c[3]]] for c in m.__dict__['_columns'][ncol:]]
        tw = _snapshot(u, case['nvars'])
        tw['out'] = out_u
        tw['traces_untouched'] = all(len(t.index) == 0 for t in u.__dict__['_trace'])
        s['twin'] = tw
        steps.append(s)
    return {'steps': steps, 'names_follow_edits': _names_follow_edits(m, specs)}


def _labels(case):
    """The span's labels as ints (what the Coq model sees).  *_dup kinds repeat one label: period `dup_at` carries the label of
    the period before it, so its own label 2000 + dup_at names no period and the repeated one names two."""
    n = case['n']
    labels = list(range(2000, 2000 + n))
    if case.get('span_kind', 'list').endswith('_dup') and n >= 2:
        j = min(max(1, int(case.get('dup_at', 1))), n - 1)
        labels[j] = labels[j - 1]
    return labels


def to_label(kind, x):
    """The label object handed to fsic for the int label x."""
    if kind == 'str':
        return 'L%d' % x
    if kind == 'period':
        import pandas as pd
        # (years outside 1000..9999 are mapped to a year no span uses: such labels only ever stand for "a label that is not there")
        return pd.Period(year=x if 1000 <= x <= 9999 else 1900 + abs(x) % 50, freq='Y')
    return int(x)


def from_label(kind, obj):
    if kind == 'str':
        return int(str(obj)[1:])
    if kind == 'period':
        return int(obj.year)
    return int(obj)


def _make_span(kind, labels):
    """The span object: a Python list (span.index), a NumPy array (fsic's static fallback lookup), a pandas Index / PeriodIndex
    (get_loc); labels are ints, strs ('L2000') or pandas Periods (years); *_dup kinds carry a repeated label."""
    labels = [int(x) for x in labels]
    if kind in ('array', 'array_dup'):
        import numpy as np
        return np.array(labels)
    if kind == 'index':
        import pandas as pd
        return pd.Index(labels)
    if kind == 'period':
        import pandas as pd
        return pd.PeriodIndex([to_label('period', x) for x in labels])
    if kind == 'str':
        return [to_label('str', x) for x in labels]
    return labels


SPAN_KIND = {'list': 0, 'array': 1, 'index': 3, 'list_dup': 0, 'array_dup': 1, 'str': 0, 'period': 3}
DIRECT = ('trace_t', 'trace_period')
STATE_OPS = ('assign', 'copy', 'reindex', 'edit_spec', 'add_variable')          # what a user does between solves


def _state_op(m, call, span):
    e = call['entry']
    if e == 'edit_spec':
        return m                                  # (the caller's lists are edited by impl itself: they belong to the traced side)
    if e == 'add_variable':
        m.add_variable('V%d' % len(m.__dict__['names']), lib.unhex(call['value']))
        return m
    if e == 'assign':
        setattr(m, 'V%d' % call['var'], [lib.unhex(x) for x in call['values']])      # whole-series list assignment
        return m
    if e == 'copy':
        return m.copy()
    return m.reindex(list(span) if isinstance(span, list) else span.copy())             # the same span (a new span object of the same kind)


# --------------------------------------------------------------------------- series that are not float64 (oracle only: the Coq model's cells are numbers)
MIXED_SIG = 'C17|trace_t|mixed-dtype-snapshot'
OBJECT_SIG = 'C17|trace_t|object-cell-ValueError'
EXTRA_KINDS = ['str', 'object_list', 'bigint', 'int', 'bool', 'object_scalar', 'float32']


def impl_dtype(case):
    """A scripted traced model (V0, V1: float64) that gets one more variable V2 of another dtype; traced and untraced solve_t."""
    import numpy as np
    import scripted_tracer as st
    n = 3
    span = list(range(2000, 2000 + n))
    cls = st.make_classes(2, [0], [0], 0, 0, None)
    vals = [[lib.fhex(0.25 * (i + 1) + 0.125 * p) for p in range(n)] for i in range(2)]
    scripts = {'1': {'passes': [[['set', 0, lib.fhex(1.0)]], [['set', 0, lib.fhex(1.5)]], [['set', 0, lib.fhex(1.5)]]]}}

    def build():
        m = st.instantiate(cls, list(span), vals, ['-'] * n, [-1] * n, scripts)
        k = case['extra']
        if k == 'str':
            m.add_variable('V2', 'abc', dtype=str)
        elif k == 'object_list':
            m.add_variable('V2', None, dtype=object)
            m.V2[1] = [1, 2]
        elif k == 'object_scalar':
            m.add_variable('V2', None, dtype=object)
            m.V2[1] = 'note'
        elif k == 'bigint':
            m.add_variable('V2', 2 ** 53 + 1, dtype=int)
        elif k == 'int':
            m.add_variable('V2', 3, dtype=int)
        elif k == 'bool':
            m.add_variable('V2', True, dtype=bool)
        else:
            m.add_variable('V2', 0.1, dtype=np.float32)
        return m
    out = {}
    for side, kw in (('traced', {'trace': py_trace(case['trace'])}), ('twin', {})):
        m = build()
        try:
            r = ['ret', bool(m.solve_t(1, max_iter=10, **kw))]
        except Exception as ex:
            r = ['raise', type(ex).__name__]
        o = {'out': r, 'status': [str(x) for x in m.__dict__['_status']], 'iters': [int(x) for x in m.__dict__['_iterations']],
             'stored': [np.asarray(m.__dict__['_V%d' % i][1]).tolist() for i in range(3)]}
        if side == 'traced':
            tr = m.__dict__['_trace'][1]
            o['names'] = [st.name_id(x) for x in tr.names]
            o['labels'] = [x if isinstance(x, str) else int(x) for x in tr.index]
            o['dtype'] = str(getattr(tr.values, 'dtype', None))
            o['final'] = tr.values[:, -1].tolist() if getattr(tr.values, 'ndim', 0) == 2 and len(tr.index) else []
        out[side] = o
    return {'dt': out}


def oracle_dtype(case, obs):
    fails = []
    x, u = obs['dt']['traced'], obs['dt']['twin']
    if any(x[k] != u[k] for k in ('out', 'status', 'iters', 'stored')):
        sig = OBJECT_SIG if (case['extra'] == 'object_list' and x['out'][0] == 'raise' and x['out'][1] in ('ValueError', 'DimensionError') and u['out'][0] == 'ret') else 'C17|TracerMixin|traced-differs-from-untraced'
        fails.append({'sig': sig, 'what': 'a model with a %s variable: solve_t(1, trace=%r) gives %s (status %s), without trace= %s (status %s)'
                      % (case['extra'], py_trace(case['trace']), x['out'], ''.join(x['status']), u['out'], ''.join(u['status']))})
        return fails
    if x['out'][0] == 'ret' and x['out'][1]:
        want = [x['stored'][i] for i in x['names']]
        # equal as VALUES (3.0 == 3 and 1.0 == True pass; '24.99' != 24.99 and 9007199254740992.0 != 9007199254740993 do not)
        if len(x['final']) != len(want) or any(isinstance(f_, str) != isinstance(w_, str) or f_ != w_ for f_, w_ in zip(x['final'], want)):
            fails.append({'sig': MIXED_SIG, 'what': 'a model with a %s variable, trace=%r: the final snapshot %s (array dtype %s) is not the stored solution %s'
                          % (case['extra'], py_trace(case['trace']), x['final'], x['dtype'], want)})
    return fails


# --------------------------------------------------------------------------- reindex() / copy() of a traced instance


def impl_rx(case):
    import scripted_tracer as st
    nv, n, extra = case['nvars'], case['n'], case['extra']
    span = list(range(2000, 2000 + n))
    cls = st.make_classes(nv, [0], [0], 0, 0, None)
    vals = [[lib.fhex(0.25 * (i + 1) + 0.125 * p) for p in range(n)] for i in range(nv)]

    def pipeline(traced):
        kw = {}
        if traced:
            kw['trace'] = py_trace(case['trace'])
            if case.get('reset') is not None:
                kw['reset'] = bool(case['reset'])
        m = st.instantiate(cls, list(span), vals, ['-'] * n, [-1] * n, {})
        if case['first']:
            m.solve_t(0, **({'trace': kw['trace']} if traced else {}))
        old_before = st.observe_traces(m, lib.fhex)
        start_vals = [lib.fhex(m.__dict__['_V%d' % i][0]) for i in range(nv)]
        if case['via'] == 'reindex':
            new = m.reindex(span + [2000 + n + j for j in range(extra)], **{'V%d' % i: 0.0 for i in range(nv)})
        else:
            new = m.copy()
        pattern = []
        for cell in new.__dict__['_trace']:
            if cell is None:
                pattern.append('none')
            else:
                q = [j for j, oc in enumerate(m.__dict__['_trace']) if oc is cell]
                pattern.append(['shared', q[0]] if q else 'own')

        def run(t):
            try:
                return ['ret', bool(new.solve_t(t, **kw))]
            except Exception as ex:
                c = ex.__cause__
                return ['raise', type(ex).__name__, type(c).__name__ if c is not None else None]
        out_a = run(0)
        old_after = st.observe_traces(m, lib.fhex)
        out_b = run(n) if (case['via'] == 'reindex' and extra) else None
        return {'old_before': old_before, 'old_changed': old_after != old_before, 'pattern': pattern, 'outA': out_a, 'outB': out_b,
                'start_vals': start_vals, 'vals': [[lib.fhex(x) for x in new.__dict__['_V%d' % i]] for i in range(nv)],
                'status': [str(x) for x in new.__dict__['_status']], 'iters': [int(x) for x in new.__dict__['_iterations']]}
    return {'rx': pipeline(True), 'rx_twin': pipeline(False)}


def oracle_rx(case, obs):
    fails = []

    def bad(sig, what):
        fails.append({'sig': sig, 'what': what})
    x, u = obs['rx'], obs['rx_twin']
    if x['old_changed']:
        # must hold for both (reindex: since fix 28b2a9a): the new instance shares no Trace object with the original
        bad('C17|TracerMixin|%s-shares-trace-objects' % case['via'], 'solve_t(0, trace=%r) on m.%s(...) changed the Trace of period 0 of the ORIGINAL model m '
            '(both hold the same Trace object)' % (py_trace(case['trace']), case['via']))
    if any(c not in ('none', 'own') for c in x['pattern']):
        bad('C17|TracerMixin|%s-shares-trace-objects' % case['via'], 'after m.%s(...) the new instance holds the very Trace object(s) of the original: %s' % (case['via'], x['pattern']))
    same_a = all(x[k] == u[k] for k in ('outA',)) and (x['outB'] is not None or all(x[k] == u[k] for k in ('vals', 'status', 'iters')))
    if not same_a:
        bad('C17|TracerMixin|traced-differs-from-untraced', 'after %s: traced solve_t(0) gives %s, untraced %s' % (case['via'], x['outA'], u['outA']))
    if x['outB'] is not None and x['outB'] != u['outB']:
        bad('C17|TracerMixin|traced-differs-from-untraced', 'after m.reindex(<longer span>): traced solve_t(%d, trace=%r) of the NEW period gives %s, untraced %s'
            % (case['n'], py_trace(case['trace']), x['outB'], u['outB']))
    elif x['outB'] is not None and any(x[k] != u[k] for k in ('vals', 'status', 'iters')):
        bad('C17|TracerMixin|traced-differs-from-untraced', 'after reindex: traced and untraced instances differ in values / status / iterations')
    return fails


def c_rxcase(case, obs):
    x = obs['rx']
    n = case['n']
    names = names_of({'nvars': case['nvars'], 'trace_variables': None}, case['trace'])
    pat = lib.clist('None' if c == 'none' else ('(Some None)' if c == 'own' else '(Some (Some %s))' % lib.cnat(c[1])) for c in x['pattern'])
    return '(mkRx %s %s %s %s %s %s %s %s %s %s)' % (
        lib.cbool(case['via'] == 'reindex'), lib.cnat(n), lib.cnat(case['extra'] if case['via'] == 'reindex' else 0),
        lib.clist(c_trace(t) for t in x['old_before']), pat, lib.clist(lib.cnat(i) for i in names), lib.cbool(bool(case.get('reset'))),
        lib.clist(lib.cfloat(x['start_vals'][i]) for i in names), lib.cbool(x['old_changed']),
        lib.cbool(bool(x['outB']) and x['outB'][:2] == ['raise', 'AttributeError']))


# --------------------------------------------------------------------------- traced models as submodels of a linker
def impl_linker(case):
    """Two linkers over the same scripted submodels (TracerMixin on top): one called with trace= / reset=, one without."""
    import scripted_tracer as st
    import fsic
    n = case['n']
    span = list(range(2000, 2000 + n))

    def build():
        ms = {}
        for j, sub in enumerate(case['subs']):
            cls = st.make_classes(sub['nvars'], sub['check'], sub['endo'], 0, 0, sub.get('trace_variables'))
            ms['S%d' % j] = st.instantiate(cls, list(span), sub['vals'], ['-'] * n, [-1] * n, sub['scripts'])
        return fsic.BaseLinker(ms), ms
    L, ms = build()
    U, us = build()

    def run(lk, kw):
        try:
            return ['ret', bool(lk.solve_t(case['t'], **kw))]
        except Exception as ex:
            return ['raise', type(ex).__name__]

    def subs_state(d):
        return [{'vals': [[lib.fhex(x) for x in m.__dict__['_V%d' % i]] for i in range(sub['nvars'])],
                 'status': [str(x) for x in m.__dict__['_status']], 'iters': [int(x) for x in m.__dict__['_iterations']],
                 'passes': sum(1 for e in m.__dict__['_evlog'] if e[0] == 'pass'),
                 'hooks': sorted({e[0] for e in m.__dict__['_evlog']}),
                 'raised': [list(r) for r in m.__dict__['_raised']]}
                for sub, m in zip(case['subs'], d.values())]
    steps = []
    for call in case['calls']:
        o = call['opts']
        kw = dict(min_iter=o['min_iter'], max_iter=o['max_iter'], tol=lib.unhex(o['tol']), failures=o['failures'], errors=o['errors'],
                  catch_first_error=o['catch_first_error'])
        tkw = dict(kw)
        a = call.get('trace', ['omit'])
        if a[0] != 'omit':
            tkw['trace'] = py_trace(a)
        if call.get('reset') is not None:
            tkw['reset'] = bool(call['reset'])
        ncols = [len(m.__dict__['_columns']) for m in ms.values()]
        out_m = run(L, tkw)
        out_u = run(U, kw)
        st_m, st_u = subs_state(ms), subs_state(us)
        for j, m in enumerate(ms.values()):
            st_m[j]['traces'] = st.observe_traces(m, lib.fhex)
            st_m[j]['columns'] = [[c[0], c[1], c[2], [lib.fhex(x) for x in c[3]]] for c in m.__dict__['_columns'][ncols[j]:]]
        for j, m in enumerate(us.values()):
            st_u[j]['traces_untouched'] = all(len(t.index) == 0 for t in m.__dict__['_trace'])
        steps.append({'out': out_m, 'twin_out': out_u, 'subs': st_m, 'twin_subs': st_u,
                      'lstatus': [str(x) for x in L.status], 'literations': [int(x) for x in L.iterations],
                      'twin_lstatus': [str(x) for x in U.status], 'twin_literations': [int(x) for x in U.iterations]})
    return {'lsteps': steps}


def oracle_linker(case, obs):
    """C17 for a traced submodel inside a linker: the traced linker run equals the untraced one, tracing off writes nothing,
    and what IS recorded are the submodel's values after each linker pass, labelled with the pass number (the linker never
    calls the submodel's solve_t / solve_t_before / solve_t_after, so there is no start / before / 0 / end)."""
    fails = []

    def bad(sig, what):
        fails.append({'sig': sig, 'what': what})
    n, t = case['n'], case['t']
    p = t if t >= 0 else t + n
    prev_tr = [[copy.deepcopy(EMPTY) for _ in range(n)] for _ in case['subs']]
    prev_passes = [0] * len(case['subs'])
    for ci, (call, s) in enumerate(zip(case['calls'], obs['lsteps'])):
        a = call.get('trace', ['omit'])
        on = truthy(a)
        same = (s['out'] == s['twin_out'] and s['lstatus'] == s['twin_lstatus'] and s['literations'] == s['twin_literations']
                and all(x[k] == y[k] for x, y in zip(s['subs'], s['twin_subs']) for k in ('vals', 'status', 'iters', 'passes', 'hooks', 'raised')))
        if any(not y['traces_untouched'] for y in s['twin_subs']):
            bad('C17|TracerMixin|twin-trace-written', 'linker call %d: a submodel of the untraced linker has a non-empty Trace' % ci)
        if not same:
            bad('C17|TracerMixin|traced-differs-from-untraced', 'linker call %d (trace=%r): traced and untraced linker runs differ: %s vs %s' % (ci, a, s['out'], s['twin_out']))
            break
        for j, (sub, x) in enumerate(zip(case['subs'], s['subs'])):
            names = names_of({'nvars': sub['nvars'], 'trace_variables': sub.get('trace_variables')}, a)
            before, after = prev_tr[j], x['traces']
            if not on:
                if after != before:
                    bad('C17|TracerMixin|trace-written-with-tracing-off', 'linker call %d: a submodel Trace changed although tracing is off' % ci)
            else:
                if any(after[q] != before[q] for q in range(n) if q != p):
                    bad('C17|TracerMixin|other-period-trace-changed', 'linker call %d: the Trace of another period changed' % ci)
                k = x['passes'] - prev_passes[j]
                ok_passes = k - (1 if len(x['raised']) else 0)
                if not call.get('reset'):
                    nb = len(before[p]['index'])
                    new_idx = after[p]['index'][nb:]
                    new_val = after[p]['values'][len(before[p]['values']):]
                    if after[p]['index'][:nb] != before[p]['index'] or new_idx != list(range(1, ok_passes + 1)):
                        bad('C17|TracerMixin|linker-label-sequence', 'linker call %d submodel %d: labels %s, expected the pass numbers 1..%d appended to %s' % (ci, j, after[p]['index'], ok_passes, before[p]['index']))
                    else:
                        cols = {c[2]: c[3] for c in x['columns'] if c[0] == 'pass'}
                        for i_, v in enumerate(new_val):
                            if cols.get(i_ + 1) is None or v != [cols[i_ + 1][q] for q in names]:
                                bad('C17|TracerMixin|snapshot-j', 'linker call %d submodel %d: snapshot %d = %s, values after pass %d = %s' % (ci, j, i_ + 1, v, i_ + 1, cols.get(i_ + 1)))
                                break
            prev_tr[j] = after
            prev_passes[j] = x['passes']
    return fails


def c_lcases(case, obs):
    import scripted
    out = []
    n = case['n']
    prev = [{'vals': sub['vals'], 'traces': [copy.deepcopy(EMPTY) for _ in range(n)], 'passes': 0} for sub in case['subs']]
    for call, s in zip(case['calls'], obs['lsteps']):
        for j, (sub, x, y) in enumerate(zip(case['subs'], s['subs'], s['twin_subs'])):
            tv = sub.get('trace_variables')
            cfg = '(mkTCfg %s)' % ('None' if tv is None else '(Some %s)' % lib.clist(lib.cnat(i) for i in tv))
            k = x['passes'] - prev[j]['passes']

            def exn_of(st_):
                r = st_['raised']
                return 'None' if not r else '(Some %s)' % lib.cZ(scripted.CAUSE_TAG.get(r[-1][3], 99))
            cvals = lambda vv: lib.clist(lib.clist(lib.cfloat(h) for h in row) for row in vv)      # noqa: E731
            out.append('(mkLCase %s %s %s %s %s %s %s %s %s %s %s %s %s %s)' % (
                sc.c_scripts(sub['scripts']), cfg, c_targ(call.get('trace', ['omit'])), lib.cbool(bool(call.get('reset'))), lib.cnat(n),
                lib.cZ(case['t']), lib.cnat(k), cvals(prev[j]['vals']), lib.clist(c_trace(t) for t in prev[j]['traces']),
                cvals(x['vals']), lib.clist(c_trace(t) for t in x['traces']), exn_of(x), cvals(y['vals']), exn_of(y)))
            prev[j] = {'vals': x['vals'], 'traces': x['traces'], 'passes': x['passes']}
            # (a submodel whose pass raised keeps its `raised` record: later calls of the case are not generated after a raise)
    return out


# --------------------------------------------------------------------------- TracerMixin.__init__
def _init_name(case):
    k = case['trace_name']
    return 'V%d' % k[1] if k[0] == 'var' else (k[0] if k[0] in ('status', 'iterations') else ['trace', 'log', 'span', 'names', 'T'][k[1]])


def _init_id(case, name):
    """names as numbers: 'status' = 0, 'iterations' = 1, V<i> = 2 + i, anything else = 100 + its position in the list of fresh names"""
    if name == 'status':
        return 0
    if name == 'iterations':
        return 1
    if name[:1] == 'V' and name[1:].isdigit():
        return 2 + int(name[1:])
    return 100 + ['trace', 'log', 'span', 'names', 'T'].index(name)


def impl_init(case):
    import scripted
    import scripted_tracer as st
    import fsic
    from fsic.extensions.model import TracerMixin
    base = scripted.make_class(fsic.BaseModel, case['nvars'], list(range(min(1, case['nvars']))), [])
    tn = _init_name(case)

    class Traced(TracerMixin, base):
        TRACE_NAME = tn
    before = None
    try:
        m = Traced(list(range(2000, 2000 + case['n'])))
    except Exception as ex:
        return {'init': ['raise', type(ex).__name__]}
    trs = m[tn]
    return {'init': ['ok', [_init_id(case, x) for x in m.index], len(trs), all(len(t.index) == 0 and list(t.names) == [] for t in trs)]}


def _frames(m, name_id):
    """Trace.to_dataframe() of every period: ['df', row labels, column ids, rows] or ['raise', class]."""
    out = []
    for tr in m.__dict__['_trace']:
        try:
            df = tr.to_dataframe()
            out.append(['df', [x if isinstance(x, str) else int(x) for x in df.index], [name_id(c) for c in df.columns],
                        [[lib.fhex(v) for v in row] for row in df.values.tolist()]])
        except Exception as ex:
            out.append(['raise', type(ex).__name__])
    return out


def _alias_obs(m, olds, spec):
    """For every Trace CREATED by the call just made (see below): is its `names` the model's own list, the class's
    TRACE_VARIABLES, the object the caller passed as trace= ?  [[period, is_model, is_class, is_spec], ...]"""
    out = []
    tv = type(m).TRACE_VARIABLES
    for p, t in enumerate(m.__dict__['_trace']):
        # created = the cell got a new Trace object, or the period's Trace was empty before the call and was written now
        if (t is not olds[p][0] or olds[p][1]) and len(t.index):
            out.append([p, t.names is m.__dict__['names'], tv is not None and t.names is tv, spec is not None and t.names is spec])
    return out


def _names_follow_edits(m, specs):
    """After everything else was observed: (1) add a variable to the model, (2) edit every list the caller passed as
    trace=, (3) edit the class's TRACE_VARIABLES list — and report the periods whose Trace changed its `names` after
    which step.  A Trace is the record of a finished solve: none of this may move it."""
    trs = list(m.__dict__['_trace'])
    before = [list(t.names) for t in trs]
    moved = []

    def note(step):
        for p, t in enumerate(trs):
            if len(t.index) and list(t.names) != before[p]:
                moved.append([step, p])
                before[p] = list(t.names)
    try:
        m.add_variable('ZZ9', 0.0)
    except Exception as ex:
        return [['add_variable failed: ' + type(ex).__name__, -1]]
    note('add_variable')
    for sp in specs:
        if isinstance(sp, list):
            sp.append('ZZ8')
            sp[0] = 'ZZ7'
    note('edit of the list passed as trace=')
    tv = type(m).TRACE_VARIABLES            # (the class was made for this case only)
    if isinstance(tv, list):
        tv.append('ZZ6')
        tv[0:1] = ['ZZ5']
    note('edit of TRACE_VARIABLES')
    return moved


# --------------------------------------------------------------------------- parser-built (C01-grammar) models
# (script, the set of NAMES; their order is read from the generated class in impl_parsed) — the inner _evaluate is the code fsic generates; one call per case, so that every
# period is solved at most once and the recorded columns determine the action script handed to the Coq model
PARSED = [
    ('Y = C + G\nC = 0.6 * Y', ['Y', 'C', 'G']),
    ('C = {alpha} * Y[-1]\nY = C + G', ['C', 'Y', 'G', 'alpha']),
    ('Y = 1 / X', ['Y', 'X']),
    ('Y = log(X) + Z', ['Y', 'X', 'Z']),
    ('Y = 2 * Y + 1', ['Y']),
    ('Y = 0.5 * Y + X[1]', ['Y', 'X']),
    ('C = 0.6 * Y\nI = 0.2 * Y[-1]\nY = C + I + G', ['C', 'I', 'Y', 'G']),
    ('Y = exp(X) * Y', ['Y', 'X']),
    ('Y = max(X, 0) + 0.5 * Y[-1]', ['Y', 'X']),
    ('K = K[-1] + I\nI = 0.1 * Y\nY = C + I + G\nC = 0.5 * Y[-2]', ['K', 'I', 'Y', 'C', 'G']),
    ('Y = 0.25 * Y + X[2]', ['Y', 'X']),
    ('Y = sqrt(X) + 0.5 * Z[-1]', ['Y', 'X', 'Z']),
]


def impl_parsed(case):
    import scripted
    import scripted_tracer as st
    script, want = PARSED[case['model']]
    cls, names = st.make_parsed_class(script, case.get('trace_variables'))
    # the ORDER of the names is fsic's (first appearance over the whole script), read from the generated class; the
    # generator only assumed WHICH names exist (it drew one row of start values per name, listed in `want` order)
    if sorted(names) != sorted(want) or len(set(names)) != len(names):
        raise AssertionError('NAMES of %r are %s, the case generator assumed the set %s' % (script, names, want))
    vals0 = [case['vals'][want.index(nm)] for nm in names]
    n = case['n']
    span = list(range(2000, 2000 + n))
    m = st.instantiate_parsed(cls, names, span, vals0)
    u = st.instantiate_parsed(cls, names, span, vals0)
    nv = len(names)

    def snap(x):
        return {'vals': [[lib.fhex(v) for v in x.__dict__['_' + nm]] for nm in names],
                'status': [str(v) for v in x.__dict__['_status']], 'iters': [int(v) for v in x.__dict__['_iterations']],
                'log': [list(e) for e in x.__dict__['_evlog']]}
    call = case['calls'][0]
    kw = _opts_kw(call['opts'])
    tkw = dict(kw)
    a = call.get('trace', ['omit'])
    if a[0] != 'omit':
        t_ = py_trace(a)
        ren = lambda s_: names[int(s_[1:])] if int(s_[1:]) < nv else 'NoSuchVariable' + s_[1:]     # noqa: E731
        tkw['trace'] = ren(t_) if isinstance(t_, str) and t_ else (type(t_)(ren(x) for x in t_) if isinstance(t_, (list, tuple)) else t_)
    if call.get('reset') is not None:
        tkw['reset'] = bool(call['reset'])
    olds = [(t, len(t.index) == 0) for t in m.__dict__['_trace']]
    out_m = _run(m, call, tkw)
    out_u = _run(u, call, kw)
    s = snap(m)
    s['out'] = out_m
    s['traces'] = st.observe_traces_named(m, names, lib.fhex)
    s['frames'] = _frames(m, names.index)
    s['alias'] = _alias_obs(m, olds, tkw.get('trace'))
    s['columns'] = [[c[0], c[1], c[2], [lib.fhex(x) for x in c[3]]] + list(c[4:]) for c in m.__dict__['_columns']]
    tw = snap(u)
    tw['out'] = out_u
    tw['traces_untouched'] = all(len(t.index) == 0 for t in u.__dict__['_trace'])
    s['twin'] = tw
    # the action script of this run: after pass k of period p the column is ..., and the pass raised / returned
    scripts = {}
    for c in u.__dict__['_columns']:                 # from the UNTRACED twin: the model's inner oracle knows nothing of tracing
        kind, t, k, col = c[0], c[1], c[2], c[3]
        p = str(t if t >= 0 else t + n)
        if kind in ('pass', 'pass-raise'):
            acts = [['set', i, lib.fhex(col[i])] for i in range(nv)]
            if kind == 'pass-raise':
                acts.append(['raise', scripted.CAUSE_TAG.get(c[4], 99)])
            ps = scripts.setdefault(p, {'passes': []})['passes']
            if len(ps) != k - 1:
                raise AssertionError('period %s visited twice or passes out of order' % p)
            ps.append(acts)
    derived = {'nvars': nv, 'check': [names.index(x) for x in m.check], 'endo': [names.index(x) for x in m.endogenous],
               'lags': int(m.lags), 'leads': int(m.leads), 'scripts': scripts, 'vals': vals0}
    return {'steps': [s], 'derived': derived, 'names_follow_edits': _names_follow_edits(m, [tkw['trace']] if 'trace' in tkw else [])}


def _full(case, obs):
    """A parser-built case completed with what only the generated class knows (variable classification, lags, leads, script)."""
    if case.get('kind') != 'parsed':
        return case
    c = dict(case)
    c.update(obs['derived'])
    c['status'] = ['-'] * case['n']
    c['iters'] = [-1] * case['n']
    return c


# --------------------------------------------------------------------------- Coq encoding
PREAMBLE = '''From Coq Require Import PrimFloat ZArith List Bool.
Import ListNotations.
Require Import Fsic.Base.PyBase Fsic.Solver.Solver Fsic.Solver.SolverF Fsic.Solver.SolveAll Fsic.Tracer.Tracer Fsic.Tracer.TracerSolve Fsic.Tracer.TracerNames Fsic.Tracer.TracerLinked Fsic.Tracer.TracerReindex Fsic.Tracer.TracerF.
Open Scope float_scope. Open Scope Z_scope.
'''


def _locate(case, label):
    """Position a label denotes for the span of this case, or None (absent; or repeated in a NumPy-array span, whose lookup wants
    exactly one match).  A repeated label of a list span means its first period."""
    labels = _labels(case) if 'n' in case else []
    hits = [i for i, x in enumerate(labels) if x == label]
    if not hits:
        return None
    if case.get('span_kind', 'list').startswith('array') and len(hits) != 1:
        return None
    return hits[0]


def positions_of_solve(case, call):
    """Positions solve() visits: default start / end by position (lags / leads), given labels looked up; None if a label fails."""
    n = case['n']
    a = _locate(case, call['start']) if call.get('start') is not None else case.get('lags', 0)
    b = _locate(case, call['end']) if call.get('end') is not None else n - 1 - case.get('leads', 0)
    if a is None or b is None:
        return None
    return list(range(a, b + 1))


def c_optZ(x):
    return 'None' if x is None else '(Some %s)' % lib.cZ(x)


def c_call(case, call):
    e = call['entry']
    if e == 'solve_t':
        ent = '(ESolveT %s)' % lib.cZ(call['t'])
    elif e == 'solve_period':
        ent = '(ESolvePeriod %s)' % lib.cZ(call['label'])
    elif e == 'assign':
        ent = '(ESetSeries %s %s)' % (lib.cnat(call['var']), lib.clist(lib.cfloat(x) for x in call['values']))
    elif e in ('copy', 'reindex', 'edit_spec'):
        ent = 'ENoop'
    elif e == 'add_variable':
        ent = '(EAddSeries %s)' % lib.clist([lib.cfloat(call['value'])] * case['n'])
    elif e == 'trace_t':
        ent = '(ETraceT %s %s)' % (lib.cZ(call['t']), c_label(py_label(call['label'])))
    elif e == 'trace_period':
        ent = '(ETracePeriod %s %s)' % (lib.cZ(call['plabel']), c_label(py_label(call['label'])))
    else:
        # the labels as passed; which positions they mean (defaults from lags / leads, list.index, range) is the MODEL's business
        ent = '(ESolve %s %s)' % (c_optZ(call.get('start')), c_optZ(call.get('end')))
    a = call.get('trace', ['omit'])
    # called directly, trace_t never asks whether `trace` is truthy: '' is the one-element list [''] there (an unknown name)
    targ = '(TName 999%nat)' if (e in DIRECT and a[0] == 'empty_str') else c_targ(a)
    return '(mkCall %s %s %s %s)' % (ent, sc.c_opts(call['opts']), targ, lib.cbool(bool(call.get('reset'))))


def c_label(x):
    if x == 'start':
        return 'LStart'
    if x == 'before':
        return 'LBefore'
    if x == 'end':
        return 'LEnd'
    if isinstance(x, str) and x[:1] == 'u' and x[1:].isdigit():
        return '(LUser %s)' % lib.cnat(int(x[1:]))
    return '(LIter %s)' % lib.cnat(x)


def c_frame(f):
    if f[0] == 'raise':
        return '(Raise %s)' % sc.EXN.get(f[1], 'OtherError')
    return '(Ret (%s, %s, %s))' % (lib.clist(c_label(x) for x in f[1]), lib.clist(lib.cnat(i) for i in f[2]),
                                   lib.clist(lib.clist(lib.cfloat(v) for v in row) for row in f[3]))


def c_trace(t):
    return '(mkTrace %s %s %s)' % (lib.clist(lib.cnat(i) for i in t['names']), lib.clist(c_label(x) for x in t['index']),
                                   lib.clist(lib.clist(lib.cfloat(x) for x in col) for col in t['values']))


def c_fobs(f, t):
    """FSame when the observed frame is literally the labels x names table of the observed Trace (the model then only has to
    agree that to_dataframe succeeds on ITS Trace, which is compared with the observed one anyway); explicit otherwise."""
    if f[0] == 'df' and f[1] == t['index'] and f[3] == t['values'] and (f[2] == t['names'] or not t['values']):
        return 'FSame'
    return '(FExplicit %s)' % c_frame(f)


def c_res(call, out):
    import scripted
    if call['entry'] in DIRECT + STATE_OPS:
        return '(RUnit (Ret tt))' if out[0] == 'ret' else '(RUnit (Raise %s))' % sc.EXN.get(out[1], 'OtherError')
    if call['entry'] == 'solve':
        if out[0] == 'ret':
            solved, indexes, labels = out[1], out[2], out[3]
            vis = lib.clist('(%s, %s, %s)' % (lib.cZ(l), lib.cZ(t), lib.cbool(b)) for l, t, b in zip(labels, indexes, solved))
            return '(RSolve (Ret (mkRes %s %s)))' % (lib.cnat(len(solved)), vis)
        return '(RSolve %s)' % sc.c_outcome(out, scripted.CAUSE_TAG)
    return '(RBool %s)' % sc.c_outcome(out, scripted.CAUSE_TAG)


def c_case17(case, obs):
    span = lib.clist(lib.cZ(x) for x in _labels(case))
    tv = case.get('trace_variables')
    cfg = '(mkTCfg %s)' % ('None' if tv is None else '(Some %s)' % lib.clist(lib.cnat(i) for i in tv))
    xs = []
    for call, s in zip(case['calls'], obs['steps']):
        tw = s['twin']
        xs.append('(mkX %s %s %s %s %s %s)' % (sc.c_state(s['vals'], s['status'], s['iters'], s['log']),
                                              lib.clist(c_trace(t) for t in s['traces']), c_res(call, s['out']),
                                              sc.c_state(tw['vals'], tw['status'], tw['iters'], tw['log']), c_res(call, tw['out']),
                                              lib.clist(c_fobs(f, t) for f, t in zip(s['frames'], s['traces']))))
    return '(mkCase17 %s %s %s %s %s %s %s %s)' % (
        sc.c_scripts(case['scripts']), cfg, lib.cnat(SPAN_KIND[case.get('span_kind', 'list')]), span, sc.c_desc(case),
        sc.c_state(case['vals'], case['status'], case['iters'], []),
        lib.clist(c_call(case, c) for c in case['calls']), lib.clist(xs))


def c_acases(case, obs):
    """One term per call that created Trace objects: heap = [model.names, TRACE_VARIABLES?, the caller's list?], the
    observed identity flags and names of the created Traces (Tracer/TracerNames.v)."""
    tv = case.get('trace_variables')
    out = []
    for call, s in zip(case['calls'], obs['steps']):
        al = s.get('alias') or []
        if not al:
            continue
        nv = len(s['vals'])                       # the model's names list as it is at this call (add_variable appends)
        heap = [lib.clist(lib.cnat(i) for i in range(nv))]
        if tv is not None:
            heap.append(lib.clist(lib.cnat(i) for i in tv))
        env = '(mkNEnv 0%%nat %s)' % ('None' if tv is None else '(Some 1%nat)')
        a = call.get('trace', ['omit'])
        k = a[0]
        if k == 'list':
            heap.append(lib.clist(lib.cnat(i) for i in a[1]))
            spec = '(NSList %s)' % lib.cnat(len(heap) - 1)
        elif k == 'tuple':
            spec = '(NSTuple %s)' % lib.clist(lib.cnat(i) for i in a[1])
        elif k == 'name':
            spec = '(NSStr %s)' % lib.cnat(a[1])
        elif k == 'flag':
            spec = '(NSFlag %s)' % lib.cbool(a[1])
        elif k in ('genexp', 'set'):
            spec = 'NSOther'
        else:
            spec = 'NSNone'
        flags = lib.clist('(%s, %s, %s)' % (lib.cbool(f1), lib.cbool(f2), lib.cbool(f3)) for _, f1, f2, f3 in al)
        names = lib.clist(lib.clist(lib.cnat(i) for i in s['traces'][p]['names']) for p, _, _, _ in al)
        out.append('(mkACase %s %s %s %s %s)' % (env, spec, lib.clist(heap), flags, names))
    return out


def c_icase(case, obs):
    index = [0, 1] + [2 + i for i in range(case['nvars'])]
    o = obs['init']
    if o[0] == 'raise':
        exp = '(Raise %s)' % ('DuplicateNameError' if o[1] == 'DuplicateNameError' else sc.EXN.get(o[1], 'OtherError'))
    else:
        exp = '(Ret (%s, %s))' % (lib.clist(lib.cnat(i) for i in o[1]), lib.cnat(o[2] if o[3] else 10 ** 6))     # a non-empty Trace can never match
    return '(mkICase %s %s %s %s)' % (lib.clist(lib.cnat(i) for i in index), lib.cnat(_init_id(case, _init_name(case))), lib.cnat(case['n']), exp)


def correspond(cases, obs, tag, tier):
    main = [i for i, c in enumerate(cases) if c.get('kind') not in ('init', 'linker', 'rx', 'dtype')]
    items = [c_case17(_full(cases[i], obs[i]), obs[i]) for i in main]
    bad, errs = lib.run_coq_cases(tag, PREAMBLE, items, 'bad_indices check_tcase17 0%nat cs', shard=250)
    bad = [main[j] for j in bad]
    inits = [i for i, c in enumerate(cases) if c.get('kind') == 'init']
    if inits and not errs:
        ibad, ierrs = lib.run_coq_cases(tag + 'init', PREAMBLE, [c_icase(cases[i], obs[i]) for i in inits], 'bad_indices check_icase 0%nat cs', shard=2000)
        bad = sorted(set(bad) | {inits[j] for j in ibad})
        errs = errs + ierrs
    rxs = [i for i, c in enumerate(cases) if c.get('kind') == 'rx']
    if rxs and not errs:
        rbad, rerrs = lib.run_coq_cases(tag + 'rx', PREAMBLE, [c_rxcase(cases[i], obs[i]) for i in rxs], 'bad_indices check_rxcase 0%nat cs', shard=1000)
        bad = sorted(set(bad) | {rxs[j] for j in rbad})
        errs = errs + rerrs
    litems, lowner = [], []
    for i, (c, o) in enumerate(zip(cases, obs)):
        if c.get('kind') == 'linker':
            for term in c_lcases(c, o):
                litems.append(term)
                lowner.append(i)
    if litems and not errs:
        lbad, lerrs = lib.run_coq_cases(tag + 'linked', PREAMBLE, litems, 'bad_indices check_lcase 0%nat cs', shard=400)
        bad = sorted(set(bad) | {lowner[j] for j in lbad})
        errs = errs + lerrs
    # the names-object model: which list object each freshly created Trace keeps
    aitems, owner = [], []
    for i, (c, o) in enumerate(zip(cases, obs)):
        if c.get('kind') in ('init', 'linker', 'rx', 'dtype'):
            continue
        for term in c_acases(_full(c, o), o):
            aitems.append(term)
            owner.append(i)
    if aitems and not errs:
        abad, aerrs = lib.run_coq_cases(tag + 'names', PREAMBLE, aitems, 'bad_indices check_acase 0%nat cs', shard=2000)
        bad = sorted(set(bad) | {owner[j] for j in abad})
        errs = errs + aerrs
    return bad, errs


def explain(case, obs):
    if case.get('kind') == 'dtype':
        return 'mixed-dtype case: outside the Coq model (its cells are numbers); oracle only'
    if case.get('kind') == 'rx':
        return 'reindex / copy case: model term (check_rxcase) ' + c_rxcase(case, obs)[:3000]
    if case.get('kind') == 'linker':
        return 'linker case: model terms (check_lcase) ' + ' ;; '.join(c_lcases(case, obs))[:3000]
    if case.get('kind') == 'init':
        return lib.coq_eval('explain17', PREAMBLE, 'tracer_init float %s %s %s' % (
            lib.clist(lib.cnat(i) for i in [0, 1] + [2 + i for i in range(case['nvars'])]), lib.cnat(_init_id(case, _init_name(case))), lib.cnat(case['n'])))[-2000:]
    case = _full(case, obs)
    span = lib.clist(lib.cZ(x) for x in _labels(case))
    tv = case.get('trace_variables')
    cfg = '(mkTCfg %s)' % ('None' if tv is None else '(Some %s)' % lib.clist(lib.cnat(i) for i in tv))
    return lib.coq_eval('explain17', PREAMBLE, 'run_calls %s %s %s %s %s %s %s (repeat (empty_trace float) %s)' % (
        sc.c_scripts(case['scripts']), cfg, lib.cnat(SPAN_KIND[case.get('span_kind', 'list')]), span, sc.c_desc(case), lib.clist(c_call(case, c) for c in case['calls']),
        sc.c_state(case['vals'], case['status'], case['iters'], []), lib.cnat(case['n'])))[-4000:]


def guard(case, obs):
    """No guard class: the model mirrors the kept finding (#16) exactly, K stays on everywhere."""
    return False


# --------------------------------------------------------------------------- oracle: the C17 statement on the implementation's observations
EMPTY = {'names': [], 'index': [], 'values': []}
OUT_OF_SPAN_SIG = 'C17|TracerMixin.solve_t|t-outside-the-span|IndexError-precedes-the-base-class-exception'


def _call_periods(case, call):
    """Normalised positions the call addresses, or None when the period argument is not in the span."""
    n = case['n']
    e = call['entry']
    if e == 'solve_t':
        t = call['t']
        return [t if t >= 0 else t + n] if -n <= t < n else None
    if e == 'solve_period':
        p = _locate(case, call['label'])
        return [p] if p is not None else None
    if e == 'trace_t':
        t = call['t']
        return [t if t >= 0 else t + n] if -n <= t < n else None
    if e == 'trace_period':
        p = _locate(case, call['plabel'])
        return [p] if p is not None else None
    ps = positions_of_solve(case, call)
    return ps if ps is not None and all(0 <= p < n for p in ps) else None


def _expected_labels(k, with_end):
    return ['start', 'before'] + list(range(0, k + 1)) + (['end'] if with_end else [])


def _is_prefix_of_run(idx):
    """start, before, 0, 1, 2, ... [, end]: any prefix."""
    exp = ['start', 'before']
    body = idx
    if body and body[-1] == 'end':
        body = body[:-1]
    for i, x in enumerate(body):
        want = exp[i] if i < 2 else i - 2
        if x != want:
            return False
    return True


def oracle(case, obs):
    fails = []
    if case.get('kind') == 'linker':
        return oracle_linker(case, obs)
    if case.get('kind') == 'rx':
        return oracle_rx(case, obs)
    if case.get('kind') == 'dtype':
        return oracle_dtype(case, obs)
    if case.get('kind') == 'init':
        return fails            # construction is outside the property's text: the model speaks (K), the oracle has nothing to say

    def bad(sig, what):
        fails.append({'sig': sig, 'what': what})
    case = _full(case, obs)
    n, nv = case['n'], case['nvars']
    prev = {'vals': case['vals'], 'status': case['status'], 'iters': case['iters'], 'traces': [copy.deepcopy(EMPTY) for _ in range(n)]}
    for ci, (call, s) in enumerate(zip(case['calls'], obs['steps'])):
        tw = s['twin']
        ent = call['entry']
        a = call.get('trace', ['omit'])
        on = truthy(a)
        reset = bool(call.get('reset'))
        nv = len(prev['vals'])                    # add_variable may have added series
        names = names_of({'nvars': nv, 'trace_variables': case.get('trace_variables')}, a)
        periods = _call_periods(case, call)
        if not tw['traces_untouched']:
            bad('C17|TracerMixin|twin-trace-written', 'call %d: the untraced twin has a non-empty Trace' % ci)
        if ent in STATE_OPS:
            # an edit of the instance between solves leaves every Trace, status and iteration count alone
            if s['traces'] != prev['traces'] or s['status'] != prev['status'] or s['iters'] != prev['iters']:
                bad('C17|TracerMixin|trace-or-status-changed-by-%s' % ent, 'call %d: %s changed a Trace, a status or an iteration count' % (ci, ent))
            prev = {'vals': s['vals'], 'status': s['status'], 'iters': s['iters'], 'traces': s['traces']}
            continue
        if ent in DIRECT:
            # a snapshot method is not a solve: it must leave values, statuses and iteration counts alone, and it may
            # touch the Trace of the period it names only
            if any(s[k] != prev[k] for k in ('vals', 'status', 'iters')):
                bad('C17|TracerMixin|snapshot-method-changed-the-solution', 'call %d: %s changed values / status / iterations' % (ci, ent))
                break
            pp = _call_periods(case, call)
            if any(s['traces'][p] != prev['traces'][p] for p in range(n) if pp is None or p not in pp):
                bad('C17|TracerMixin|other-period-trace-changed', 'call %d: %s changed the Trace of a period it does not name' % (ci, ent))
            prev = {'vals': s['vals'], 'status': s['status'], 'iters': s['iters'], 'traces': s['traces']}
            continue
        # ---- tracing off: no trace is written, and the call is the plain call
        if not on:
            if s['traces'] != prev['traces']:
                bad('C17|TracerMixin|trace-written-with-tracing-off', 'call %d (trace=%r): a Trace changed although tracing is off' % (ci, a))
        # ---- the property's domain: names are model variables, the period is in the span
        in_domain = (not on) or (all(0 <= i < nv for i in names) and periods is not None)
        same = all(s[k] == tw[k] for k in ('out', 'vals', 'status', 'iters', 'log'))
        if not in_domain:
            # a user error (unknown name / period outside the span).  Either no trace_t call was reached (solve() rejected its
            # own arguments or had no period to solve) and the call is the plain call, or the traced call fails cleanly: the
            # period's first trace_t raises KeyError / IndexError before the base class touches that period.
            if same and s['traces'] == prev['traces']:
                prev = {'vals': s['vals'], 'status': s['status'], 'iters': s['iters'], 'traces': s['traces']}
                continue
            clean = (s['out'][0] == 'raise' and s['out'][1] in ('KeyError', 'IndexError')
                     and all(s[k] == prev[k] for k in ('vals', 'status', 'iters')))
            if clean and periods is None and tw['out'][0] == 'raise' and tw['out'][1] != s['out'][1] and all(0 <= i < nv for i in names):
                # kept finding: valid names, but a period outside the span — trace_t runs before ANY validation of the base class,
                # so the traced call reports its own IndexError where the untraced call reports another exception
                bad(OUT_OF_SPAN_SIG, 'call %d: %s with t outside the span raises %s when traced, %s without trace= (options %s)'
                    % (ci, ent, s['out'][1], tw['out'][1], {k: call['opts'][k] for k in ('min_iter', 'max_iter')}))
                break
            if not clean:
                bad('C17|TracerMixin|unknown-name-or-period-not-rejected-cleanly', 'call %d: expected KeyError/IndexError with no change, got %s' % (ci, s['out']))
            break
        if s.get('kwlog') != s.get('twin_kwlog'):
            bad('C17|TracerMixin|hooks-receive-other-keywords-when-traced', 'call %d: the user hooks of the traced run received %s, those of the untraced run %s'
                % (ci, [e for e in s['kwlog'] if e not in s['twin_kwlog']][:2], [e for e in s['twin_kwlog'] if e not in s['kwlog']][:2]))
            break
        want_extra = [['tag', int(call['tag'])]] if call.get('tag') is not None else []
        last_pass = {}
        for hk, t_, it_, er_, cf_, rest_, nargs_ in s.get('kwlog') or []:
            # the iteration number each hook is handed: 0 for the pre-hook, 1, 2, .. for the passes, the last pass's for the post-hook
            want_it = 0 if hk == 'before' else (last_pass.get(t_, 0) + 1 if hk == 'pass' else last_pass.get(t_, 0))
            if hk == 'before':
                last_pass[t_] = 0
            elif hk == 'pass':
                last_pass[t_] = want_it
            if it_ != want_it:
                bad('C17|TracerMixin|hook-iteration-number', 'call %d: hook %s at t=%d was handed iteration=%r, expected %r' % (ci, hk, t_, it_, want_it))
                break
            if er_ != call['opts']['errors'] or cf_ != call['opts']['catch_first_error'] or rest_ != want_extra or it_ is None or nargs_:
                bad('C17|TracerMixin|keyword-not-forwarded-to-hook', 'call %d: hook %s at t=%d received iteration=%r errors=%r catch_first_error=%r extra=%r, '
                    'the caller passed errors=%r catch_first_error=%r extra=%r' % (ci, hk, t_, it_, er_, cf_, rest_, call['opts']['errors'],
                                                                                 call['opts']['catch_first_error'], want_extra))
                break
        if not same:
            diff = [k for k in ('out', 'vals', 'status', 'iters', 'log') if s[k] != tw[k]]
            bad('C17|TracerMixin|traced-differs-from-untraced', 'call %d (trace=%r, reset=%r): traced and untraced runs differ in %s: traced out=%s, untraced out=%s'
                % (ci, a, call.get('reset'), diff, s['out'], tw['out']))
            break           # later calls start from different states
        # ---- tracing on: what the Trace of each addressed period holds
        if on:
            untouched = [p for p in range(n) if p not in periods]
            if any(s['traces'][p] != prev['traces'][p] for p in untouched):
                bad('C17|TracerMixin|other-period-trace-changed', 'call %d: the Trace of a period the call does not address changed' % ci)
            if not reset:
                _check_shapes(case, call, ci, s, prev, names, periods, bad)
        prev = {'vals': s['vals'], 'status': s['status'], 'iters': s['iters'], 'traces': s['traces']}
    # a Trace is a record: nothing done to the model, the caller's list or the class afterwards changes it
    for step, p in obs.get('names_follow_edits') or []:
        bad('C17|TracerMixin|trace-names-follow-later-edits', 'after %s the Trace of period %d shows other names than it recorded '
            '(Trace.names is shared with a list somebody else can edit)' % (step, p))
        break
    return fails


def _check_shapes(case, call, ci, s, prev, names, periods, bad):
    ent = call['entry']
    out = s['out']
    n = case['n']
    # passes recorded by the Recorder layer for this call, per period position
    cols = {}
    for rec_ in s['columns']:
        kind, t, k, col = rec_[:4]                   # ('pass-raise' records of parser-built models carry the class name too)
        p = t if t >= 0 else t + n
        cols.setdefault(p, {})[(kind, k)] = col
    # which periods were attempted, and how each ended
    if ent == 'solve':
        attempted = []
        if out[0] == 'ret':
            attempted = [(p, 'solved' if f else 'unsolved') for p, f in zip(out[2], out[1])]
        else:
            for p in periods:
                if s['traces'][p] == prev['traces'][p]:
                    break
                attempted.append((p, None))
            for i, (p, _) in enumerate(attempted):
                last = i == len(attempted) - 1
                if last:
                    attempted[i] = (p, 'unsolved' if out[1] == 'NonConvergenceError' else 'error')
                else:
                    attempted[i] = (p, 'solved' if s['status'][p] == '.' else 'unsolved')
    else:
        p = periods[0]
        if out[0] == 'ret':
            attempted = [(p, 'solved' if out[1] else 'unsolved')]
        else:
            attempted = [(p, 'unsolved' if out[1] == 'NonConvergenceError' else 'error')]
    for p, how in attempted:
        before, after = prev['traces'][p], s['traces'][p]
        if before['values'] and before['names'] != names and after != before:
            # the period was traced before under OTHER names: one array cannot hold both sets, the call has to start a fresh
            # Trace for the names traced now (fix 7d04ae5) — judged as a first trace
            if after['names'] != names:
                bad('C17|TracerMixin|trace-names', 'call %d period %d: %s(..., trace=%r) recorded variables %s into a Trace whose names stay %s'
                    % (ci, p, ent, py_trace(call.get('trace', ['omit'])), names, after['names']))
                continue
            before = copy.deepcopy(EMPTY)
        nb = len(before['index'])
        if after['index'][:nb] != before['index'] or after['values'][:len(before['values'])] != before['values']:
            bad('C17|TracerMixin|earlier-snapshots-lost', 'call %d period %d: reset=False but earlier snapshots changed' % (ci, p))
            continue
        if not before['values'] and after['names'] != names:
            bad('C17|TracerMixin|trace-names', 'call %d period %d: Trace.names=%s, traced variables=%s' % (ci, p, after['names'], names))
            continue            # every snapshot is of the wrong variables: one report, not six
        new_idx = after['index'][nb:]
        new_val = after['values'][len(before['values']):]
        if len(new_idx) != len(new_val):
            bad('C17|TracerMixin|index-values-length', 'call %d period %d: %d labels but %d snapshots' % (ci, p, len(new_idx), len(new_val)))
            continue
        k = s['iters'][p]
        # the stored solution of the period: what the store holds when the call returns; inside a multi-period solve()
        # a LATER period's hook may legitimately write into this period, so there it is the column as the period's own
        # last hook left it (Recorder)
        if ent == 'solve':
            rec = cols.get(p, {}).get(('after', k) if how == 'solved' else (('pass', k) if k >= 1 else ('before', 0)))
            stored = [rec[i] for i in names] if rec is not None else None
        else:
            stored = [s['vals'][i][p] for i in names]
        if how in ('solved', 'unsolved'):
            exp = _expected_labels(k, how == 'solved')
            if new_idx != exp:
                bad('C17|TracerMixin|label-sequence-%s' % how, 'call %d period %d (%s, iterations=%d): labels %s, expected %s' % (ci, p, how, k, new_idx, exp))
                continue
            if new_val[-1] != stored:
                bad('C17|TracerMixin|final-snapshot-%s' % how, 'call %d period %d: final snapshot %s differs from the stored values %s' % (ci, p, new_val[-1], stored))
            for j in range(0, k + 1):
                rec = cols.get(p, {}).get(('before', 0) if j == 0 else ('pass', j))
                if rec is None or new_val[2 + j] != [rec[i] for i in names]:
                    bad('C17|TracerMixin|snapshot-j', 'call %d period %d: snapshot %d = %s, values after pass %d = %s' % (ci, p, j, new_val[2 + j], j, rec and [rec[i] for i in names]))
                    break
            if ent != 'solve':
                if new_val[0] != [prev['vals'][i][p] for i in names]:
                    bad('C17|TracerMixin|start-snapshot', 'call %d period %d: start snapshot %s differs from the values on entry' % (ci, p, new_val[0]))
                off = call['opts']['offset']
                exp_before = [prev['vals'][i][p + off] if (off and i in case['endo']) else prev['vals'][i][p] for i in names]
                if new_val[1] != exp_before:
                    bad('C17|TracerMixin|before-snapshot', 'call %d period %d: before snapshot %s, expected %s' % (ci, p, new_val[1], exp_before))
            fr = s['frames'][p]
            if fr[0] != 'df' or fr[1] != after['index'] or fr[2] != after['names'] or fr[3] != after['values']:
                bad('C17|TracerMixin|to_dataframe', 'call %d period %d: Trace.to_dataframe() is not the labels x names table of the Trace: %s' % (ci, p, str(fr)[:200]))
        else:
            if not _is_prefix_of_run(new_idx) or 'end' in new_idx[:-1]:
                bad('C17|TracerMixin|label-sequence-error-path', 'call %d period %d: labels %s are not a prefix of start, before, 0, 1, ...' % (ci, p, new_idx))


def nontrivial(case, obs):
    if case.get('kind') == 'init':
        return False
    if case.get('kind') == 'dtype':
        return False
    if case.get('kind') == 'rx':
        return bool(case['first'])
    if case.get('kind') == 'linker':
        return any(x['passes'] >= 2 for s in obs['lsteps'] for x in s['subs']) or any(s['out'][0] == 'raise' for s in obs['lsteps'])
    for s in obs['steps']:
        if s['out'][0] == 'raise':
            return True
    prev = 0
    for s in obs['steps']:
        passes = sum(1 for e in s['log'][prev:] if e[0] == 'pass')
        prev = len(s['log'])
        if passes >= 2:
            return True
    return False


def bucket(case, obs):
    if case.get('kind') == 'init':
        return 'init/' + obs['init'][0]
    if case.get('kind') == 'dtype':
        return 'dtype/%s/%s' % (case['extra'], case['trace'][0])
    if case.get('kind') == 'rx':
        return 'rx/%s/first=%s/%s' % (case['via'], case['first'], case['trace'][0])
    if case.get('kind') == 'linker':
        o = obs['lsteps'][-1]['out']
        return 'linker/%dsubs/%s/%s' % (len(case['subs']), case['calls'][0].get('trace', ['omit'])[0], o[1] if o[0] == 'raise' else 'ret')
    c0 = case['calls'][0]
    last = obs['steps'][-1]['out']
    b = [c0['entry'], c0.get('trace', ['omit'])[0], 'reset=%s' % c0.get('reset'), '%dcalls' % len(case['calls'])]
    if any(c['entry'] in DIRECT for c in case['calls'][1:]):
        b.append('+snapshot-call')
    b.append(last[1] if last[0] == 'raise' else 'ret')
    return '/'.join(str(x) for x in b)


def shrink_candidates(case):
    if case.get('kind') == 'init':
        return
    if case.get('kind') in ('rx', 'dtype'):
        return
    if case.get('kind') == 'linker':
        if len(case['calls']) > 1:
            c = copy.deepcopy(case)
            del c['calls'][-1]
            yield c
        if len(case['subs']) > 1:
            for j in range(len(case['subs'])):
                c = copy.deepcopy(case)
                del c['subs'][j]
                yield c
        return
    if len(case['calls']) > 1:
        for i in range(len(case['calls'])):
            c = copy.deepcopy(case)
            del c['calls'][i]
            yield c
    for key, sc_ in list(case.get('scripts', {}).items()):
        passes = sc_.get('passes', [])
        for i in range(len(passes)):
            c = copy.deepcopy(case)
            del c['scripts'][key]['passes'][i]
            yield c
        for fld in ('before', 'after'):
            if sc_.get(fld):
                c = copy.deepcopy(case)
                c['scripts'][key][fld] = []
                yield c
    for i, call in enumerate(case['calls']):
        if call['opts']['offset']:
            c = copy.deepcopy(case)
            c['calls'][i]['opts']['offset'] = 0
            yield c
        if call.get('reset') is not None:
            c = copy.deepcopy(case)
            c['calls'][i]['reset'] = None
            yield c
        for k in ('min_iter', 'max_iter'):
            if call['opts'][k] > 0:
                c = copy.deepcopy(case)
                c['calls'][i]['opts'][k] -= 1
                yield c


# --------------------------------------------------------------------------- generators
def _opts(**kw):
    o = dict(min_iter=0, max_iter=4, tol=lib.fhex(sc.TOL), offset=0, failures='raise', errors='raise', catch_first_error=True)
    o.update(kw)
    return o


def _case(nvars=2, check=(0,), endo=(0,), n=4, lags=0, leads=0, trace_variables=None):
    return {'nvars': nvars, 'check': list(check), 'endo': list(endo), 'n': n, 'lags': lags, 'leads': leads,
            'vals': [[lib.fhex(0.25 * (i + 1) + 0.125 * p) for p in range(n)] for i in range(nvars)],
            'status': ['-'] * n, 'iters': [-1] * n, 'scripts': {}, 'trace_variables': trace_variables, 'calls': []}


def _call(entry, p, n, opts, trace=None, reset=None, neg=False, start=None, end=None):
    c = {'entry': entry, 'opts': opts}
    if entry == 'solve_t':
        c['t'] = p - n if neg else p
    elif entry == 'solve_period':
        c['label'] = 2000 + p
    else:
        c['start'] = None if start is None else 2000 + start
        c['end'] = None if end is None else 2000 + end
    if trace is not None:
        c['trace'] = trace
    if reset is not None:
        c['reset'] = reset
    return c


H = lib.fhex
NAN, INF = float('nan'), float('inf')


def scenarios():
    """(name, passes, before, after, opts-overrides, tweak) — one scripted period under one option set; the C02/C06 lattice in small."""
    S = []

    def add(name, passes, before=(), after=(), tweak=None, **o):
        S.append((name, [list(p) for p in passes], list(before), list(after), o, tweak))
    conv3 = [[['set', 0, H(1.0)]], [['set', 0, H(1.5)]], [['set', 0, H(1.5)]], [['set', 0, H(1.5)]]]
    add('conv3', conv3)
    add('conv1', [[['set', 0, H(0.375)]]])
    add('conv3-min3', conv3, min_iter=3)
    add('conv3-min4', conv3, min_iter=4)
    add('conv3-max3', conv3, max_iter=3)
    add('noconv-raise', conv3, max_iter=2)
    add('noconv-ignore', conv3, max_iter=2, failures='ignore')
    add('maxiter0', conv3, max_iter=0, failures='ignore')
    add('maxiter0-raise', conv3, max_iter=0)
    add('min>max', conv3, min_iter=3, max_iter=2)
    add('affine', [[['affine', 0, H(0.5), 0, H(1.0)]]] * 6, max_iter=6, tol=H(0.1))
    for em in ('raise', 'skip', 'ignore', 'replace'):       # (an invalid `errors` value is nothing the statement speaks about: not generated)
        add('nan2-' + em, [[['set', 0, H(1.0)]], [['set', 0, H(NAN)]], [['set', 0, H(2.0)]], [['set', 0, H(2.0)]]], errors=em, failures='ignore')
    add('inf1-raise-nocatch', [[['set', 0, H(INF)]]], catch_first_error=False)
    add('nan-last-ignore', [[['set', 0, H(1.0)]], [['set', 0, H(NAN)]]], errors='ignore', max_iter=2)
    add('warn-catch', [[['set', 0, H(1.0)]], [['warnset', 0, H(1.0)]]])
    add('warn-nocatch', [[['set', 0, H(1.0)]], [['warnset', 0, H(1.0)]]], catch_first_error=False)
    add('warn-skip', [[['set', 0, H(1.0)]], [['warnset', 0, H(1.0)]]], errors='skip')
    add('ev-raise', [[['set', 0, H(1.0)]], [['raise', 10]]])
    add('ev-raise-skip', [[['set', 0, H(1.0)]], [['raise', 12]]], errors='skip')
    add('before-raise', conv3, before=[['raise', 11]])
    add('after-raise', conv3, after=[['raise', 12]])
    add('before-writes', [[['set', 0, H(1.5)]], [['set', 0, H(1.5)]]], before=[['set', 0, H(1.5)], ['set', 1, H(9.0)]])
    add('after-writes', conv3, after=[['set', 1, H(7.0)], ['set', 0, H(3.0)]])
    add('pre-nan-raise', conv3, tweak='nan')
    add('pre-nan-ignore', conv3, tweak='nan', errors='ignore', failures='ignore')
    add('offset-1', conv3, offset=-1)
    add('offset+1', conv3, offset=1)
    add('offset-out', conv3, offset=-9)
    add('offset+out', conv3, offset=9)
    add('infeasible-lag', conv3, tweak='lags')
    add('infeasible-lead', conv3, tweak='leads')
    add('setat-other-period', [[['set', 0, H(1.0)], ['setat', 1, 0, H(5.0)]], [['set', 0, H(1.0)]]])
    return S


TRACE_KINDS = [['omit'], ['none'], ['flag', False], ['flag', True], ['name', 0], ['name', 1], ['list', [1, 0]], ['list', [0]],
               ['tuple', [0, 1]], ['list', []], ['empty_str'], ['genexp', [0]], ['set', [1]]]


def _apply_scenario(c, p, scen):
    name, passes, before, after, o, tweak = scen
    c['scripts'] = {str(p): {'passes': copy.deepcopy(passes), 'before': copy.deepcopy(before), 'after': copy.deepcopy(after)}}
    if tweak == 'nan':
        c['vals'][0][p] = H(NAN)
    return _opts(**o)


def gen(rng, tier):
    cases = []
    scen = scenarios()
    # ---- fixed corpus: the documented example shape, finding #16, reset, accumulate
    c = _case()
    o = _apply_scenario(c, 1, scen[0])
    c['calls'] = [_call('solve_t', 1, 4, o, ['flag', True])]
    cases.append(c)
    c = _case()
    o = _apply_scenario(c, 1, scen[0])
    c['calls'] = [_call('solve_t', 1, 4, o, ['name', 0]), _call('solve_t', 1, 4, o, ['list', [0, 1]])]          # finding #16
    cases.append(c)
    c = _case()
    o = _apply_scenario(c, 1, scen[0])
    c['calls'] = [_call('solve', 1, 4, o, ['name', 0]), _call('solve', 1, 4, o, ['list', [0, 1]])]              # finding #16 through solve()
    cases.append(c)
    c = _case()
    o = _apply_scenario(c, 1, scen[0])
    c['calls'] = [_call('solve_t', 1, 4, o, ['name', 0]), _call('solve_t', 1, 4, o, ['list', [0, 1]], True), _call('solve_t', 1, 4, o, ['name', 1])]
    cases.append(c)
    # ---- the public snapshot methods called directly (trace_t never asks whether `trace` is truthy), alone and around solves;
    #      to_dataframe after finding #16 (a label without a column)
    for a in (['omit'], ['none'], ['flag', False], ['flag', True], ['name', 1], ['name', 5], ['list', [1, 0]], ['list', []], ['tuple', [0]], ['empty_str']):
        for ent, where in (('trace_t', 1), ('trace_t', -3), ('trace_t', 4), ('trace_period', 2001), ('trace_period', 1999)):
            c = _case()
            o = _apply_scenario(c, 1, scen[0])
            d1 = {'entry': ent, 'opts': _opts(), 'label': ['user', 1]}
            d1['t' if ent == 'trace_t' else 'plabel'] = where
            if a[0] != 'omit':
                d1['trace'] = a
            d2 = dict(d1, label='end', reset=True)
            c['calls'] = [d1, _call('solve_t', 1, 4, o, ['flag', True]), dict(d1, label=7), d2]
            cases.append(c)
    # ---- reindex() / copy() of a traced instance, then traced solves through the new instance (exhaustive small lattice)
    for via in ('reindex', 'copy'):
        for first in (True, False):
            for a in (['flag', True], ['name', 1], ['list', [1, 0]], ['tuple', [0]]):
                for reset in (None, False, True):
                    for n, extra in ((1, 0), (3, 0), (3, 1), (2, 2)):
                        if via == 'copy' and extra:
                            continue
                        cases.append({'kind': 'rx', 'nvars': 2, 'n': n, 'extra': extra, 'via': via, 'first': first, 'trace': a, 'reset': reset})
    # ---- models with a variable that is not float64 (str, object, int, bool, float32): oracle side only
    for extra in EXTRA_KINDS:
        for a in (['flag', True], ['list', [0, 2]], ['name', 2], ['name', 0], ['tuple', [2, 1]]):
            cases.append({'kind': 'dtype', 'extra': extra, 'trace': a})
    # ---- t outside the span with min_iter > max_iter (kept finding: IndexError from trace_t precedes the base class's ValueError)
    for t_ in (4, 7, -5):
        c = _case()
        c['calls'] = [{'entry': 'solve_t', 't': t_, 'opts': _opts(min_iter=5, max_iter=1), 'trace': ['flag', True]}]
        cases.append(c)
    # ---- TracerMixin.__init__: TRACE_NAME free / a variable / 'status' / 'iterations', 0-3 variables, 0-3 periods
    for nv in range(0, 4):
        for n in (0, 1, 3):
            for tn in [['status'], ['iterations']] + [['var', i] for i in range(nv + 1)] + [['fresh', k] for k in range(5)]:
                cases.append({'kind': 'init', 'nvars': nv, 'n': n, 'trace_name': tn})
    # ---- histories: traced solve, then assign / copy / reindex (and add_variable-free), then the traced solve again
    for ent in ('solve_t', 'solve_period', 'solve'):
        for a in (['flag', True], ['name', 1], ['list', [1, 0]]):
            for ops in (['assign'], ['copy'], ['reindex'], ['copy', 'assign'], ['assign', 'reindex'], ['reindex', 'assign', 'copy'],
                        ['edit_spec'], ['add_variable'], ['add_variable', 'copy', 'edit_spec']):
                c = _case()
                o = _apply_scenario(c, 1, scen[0])
                mid = []
                for j, opn in enumerate(ops):
                    if opn == 'assign':
                        mid.append({'entry': 'assign', 'opts': _opts(), 'var': 1 if j % 2 == 0 else 0, 'values': [H(9.5 + j + 0.25 * q) for q in range(4)]})
                    elif opn == 'add_variable':
                        mid.append({'entry': 'add_variable', 'opts': _opts(), 'value': H(2.5)})
                    else:
                        mid.append({'entry': opn, 'opts': _opts()})
                first = _call(ent, 1, 4, o, a, None, start=0, end=2)
                c['calls'] = [first] + mid + [copy.deepcopy(first)]
                cases.append(c)
    # ---- solve(): the case splits of iter_periods / label validation, traced
    for lags, leads, n, st, en in [(0, 0, 4, None, None), (1, 1, 4, None, None), (2, 2, 4, None, None), (3, 0, 3, None, None), (0, 3, 3, None, None),
                                   (4, 0, 3, None, None), (0, 5, 3, None, None), (1, 0, 1, None, None), (0, 0, 4, 3, 1), (0, 0, 4, 2, 2),
                                   (0, 0, 4, -3, None), (0, 0, 4, None, 9), (0, 0, 4, 9, -3), (1, 1, 4, 0, 3), (1, 0, 4, None, 0)]:
        for a in (['flag', True], ['name', 1], ['omit']):
            c = _case(n=n, lags=lags, leads=leads)
            o = _apply_scenario(c, min(1, n - 1), scen[0])
            c['calls'] = [_call('solve', 0, n, o, a, None, start=st, end=en), _call('solve', 0, n, o, a, None, start=st, end=en)]
            cases.append(c)
    # ---- structured lattice: scenario x entry x trace kind x reset
    for si, sn in enumerate(scen):
        for entry in ('solve_t', 'solve_period', 'solve'):
            kinds = TRACE_KINDS if tier == 'thorough' or si < 12 else rng.sample(TRACE_KINDS, 5) + [['flag', True]]
            for a in kinds:
                resets = (None, False, True) if (tier == 'thorough' or a == ['flag', True]) else (rng.choice([None, False, True]),)
                for reset in resets:
                    lags = 1 if sn[5] == 'lags' else 0
                    leads = 1 if sn[5] == 'leads' else 0
                    c = _case(lags=lags, leads=leads)
                    p = 0 if lags else (3 if leads else 1)
                    o = _apply_scenario(c, p, sn)
                    neg = entry == 'solve_t' and rng.random() < 0.3
                    if entry == 'solve':
                        # the scripted period in the middle of the solved range; other periods converge at once (no script)
                        c['calls'] = [_call('solve', p, 4, o, a, reset, start=max(0, p - 1), end=min(3, p + 1))]
                    else:
                        c['calls'] = [_call(entry, p, 4, o, a, reset, neg)]
                    cases.append(c)
    # ---- random call sequences
    n_rand = 3000 if tier == 'quick' else 30000
    for _ in range(n_rand):
        cases.append(_random_case(rng, scen))
    # ---- traced models as submodels of a linker
    for _ in range(200 if tier == 'quick' else 3000):
        cases.append(_linker_case(rng))
    # ---- parser-built models: the inner _evaluate is fsic's generated code
    for _ in range(500 if tier == 'quick' else 5000):
        cases.append(_parsed_case(rng))
    return cases


def _parsed_case(rng):
    mi = rng.randrange(len(PARSED))
    names = PARSED[mi][1]
    nv = len(names)
    n = rng.randint(3, 5)
    vals = []
    for nm in names:
        if nm == 'alpha':
            row = [rng.choice([0.6, 0.6, 1.5])] * n
        elif nm == 'G':
            row = [10.0] * n
        elif nm in ('X', 'Z'):
            base = rng.choice([2.0, 0.5, 0.0, -1.0, 1.0])
            row = [base if rng.random() < 0.7 else rng.choice([0.0, 2.0, -1.0, 700.0]) for _ in range(n)]
        else:
            row = [rng.choice([0.0, 0.0, 1.0, 25.0]) for _ in range(n)]
            if rng.random() < 0.05:
                row[rng.randrange(n)] = NAN
        vals.append([H(x) for x in row])
    tv = None
    if rng.random() < 0.2:
        tv = rng.sample(range(nv), rng.randint(0, nv))
    c = {'kind': 'parsed', 'model': mi, 'n': n, 'vals': vals, 'trace_variables': tv, 'calls': []}
    mx = rng.choice([0, 1, 3, 8, 40, 100])
    o = _opts(min_iter=rng.choice([0, 0, 2, mx, mx + 1]), max_iter=mx, tol=H(rng.choice([1e-10, 1e-3, 0.5])),
              failures=rng.choice(['raise', 'ignore']), errors=rng.choice(['raise', 'raise', 'skip', 'ignore', 'replace']),
              catch_first_error=rng.random() < 0.6, offset=rng.choice([0, 0, 0, -1, 1]))
    q = rng.random()
    if q < 0.1:
        a = rng.choice([['omit'], ['none'], ['flag', False]])
    elif q < 0.5:
        a = ['flag', True]
    elif q < 0.7:
        a = ['name', rng.randrange(nv)]
    else:
        a = [rng.choice(['list', 'tuple']), [rng.randrange(nv) for _ in range(rng.randint(1, 3))]]
    reset = rng.choice([None, None, False, True])
    entry = rng.choice(['solve', 'solve', 'solve_t', 'solve_period'])
    p = rng.randrange(n)
    if entry == 'solve':
        st = rng.randrange(n) if rng.random() < 0.4 else None
        en = rng.randrange(n) if rng.random() < 0.4 else None
        c['calls'] = [_call('solve', p, n, o, a, reset, start=st, end=en)]
    else:
        c['calls'] = [_call(entry, p, n, o, a, reset, neg=rng.random() < 0.3)]
    return c


def _linker_case(rng):
    n = rng.randint(1, 4)
    t = rng.randrange(n)
    if rng.random() < 0.25:
        t -= n
    p = t if t >= 0 else t + n
    subs = []
    faulty = rng.random() < 0.15
    for j in range(rng.choice([1, 1, 2, 2, 3])):
        nv = rng.choice([1, 2, 2, 3])
        check = rng.sample(range(nv), rng.randint(1, min(2, nv)))
        tv = None
        if rng.random() < 0.2:
            tv = rng.sample(range(nv), rng.randint(0, nv))
        passes = _rand_passes(rng, nv, check, sc.PALETTE_FINITE)
        if not faulty:          # keep only value-writing actions (the faulting stream keeps warnings and raises)
            passes = [[a for a in acts if a[0] in ('set', 'affine')] for acts in passes]
        subs.append({'nvars': nv, 'check': check, 'endo': list(check), 'trace_variables': tv,
                     'vals': [[H(0.25 * (i + 1) + 0.125 * q) for q in range(n)] for i in range(nv)],
                     'scripts': {str(p): {'passes': passes}} if rng.random() < 0.9 else {}})
    nv0 = min(sub['nvars'] for sub in subs)
    q = rng.random()
    if q < 0.15:
        a = rng.choice([['omit'], ['none'], ['flag', False], ['list', []]])
    elif q < 0.6:
        a = ['flag', True]
    elif q < 0.8:
        a = ['name', rng.randrange(nv0)]
    else:
        a = [rng.choice(['list', 'tuple']), [rng.randrange(nv0) for _ in range(rng.randint(1, 2))]]
    mx = rng.randint(0, 5)
    o = _opts(min_iter=rng.randint(0, mx + 1) if rng.random() < 0.9 else mx + 2, max_iter=mx, failures=rng.choice(['raise', 'ignore', 'ignore']),
              errors=rng.choice(['raise', 'raise', 'skip', 'ignore', 'replace']), catch_first_error=rng.random() < 0.6)
    if rng.random() < 0.2:
        o['tol'] = H(rng.choice([1e-10, 0.5, 1.0]))
    call = {'opts': o}
    if a[0] != 'omit':
        call['trace'] = a
    r = rng.choice([None, None, False, True])
    if r is not None:
        call['reset'] = r
    calls = [call]
    if not faulty and rng.random() < 0.4:
        calls.append(copy.deepcopy(call))                  # the same call again: the snapshots accumulate (or are reset)
    return {'kind': 'linker', 'n': n, 't': t, 'subs': subs, 'calls': calls}


def _direct_call(rng, n, nv, focus):
    lab = rng.choice(['start', 'end', 0, 3, ['user', 0], ['user', 7], 'before'])
    a = rng.choice([['omit'], ['none'], ['flag', False], ['flag', True], ['flag', True], ['name', rng.randrange(nv)], ['name', nv + 1],
                    ['list', [rng.randrange(nv) for _ in range(rng.randint(0, 3))]], ['tuple', [rng.randrange(nv)]], ['empty_str'], ['list', []]])
    c = {'opts': _opts(), 'label': lab}
    if rng.random() < 0.6:
        c['entry'] = 'trace_t'
        c['t'] = focus if rng.random() < 0.7 else rng.choice([rng.randrange(n), -1, -n, n, -n - 1])
    else:
        c['entry'] = 'trace_period'
        c['plabel'] = 2000 + (focus if rng.random() < 0.7 else rng.choice([rng.randrange(n), -1, n, -2000]))
    if a[0] != 'omit':
        c['trace'] = a
    r = rng.choice([None, None, False, True])
    if r is not None:
        c['reset'] = r
    return c


def _rand_passes(rng, nv, check, palette):
    L = rng.randint(0, 5)
    kind = rng.random()
    passes = []
    ncheck = len(check)
    if kind < 0.6 or not ncheck:
        settle = rng.randint(1, 3)
        last = None
        for k in range(L):
            vec = []
            for j in range(ncheck):
                if last is not None and k >= settle and rng.random() < 0.85:
                    vec.append(last[j])
                else:
                    vec.append(rng.choice(palette))
            last = vec
            acts = [['set', check[j], H(v)] for j, v in enumerate(vec)]
            if rng.random() < 0.3:
                acts.append(['set', rng.randrange(nv), H(rng.choice(palette))])
            passes.append(acts)
    elif kind < 0.75:
        a = rng.choice([0.5, -0.5, 2.0, -1.0, 0.25])
        b = rng.choice([0.0, 1.0, -0.75])
        passes = [[['affine', check[0], H(a), check[0], H(b)]] for _ in range(L)]
    else:
        for k in range(L):
            acts = []
            for j in range(ncheck):
                q = rng.random()
                if q < 0.65:
                    acts.append(['set', check[j], H(rng.choice(palette))])
                elif q < 0.8:
                    acts.append(['set', check[j], H(rng.choice(sc.PALETTE_BAD))])
                elif q < 0.9:
                    acts.append(['warnset', check[j], H(rng.choice(palette + sc.PALETTE_BAD))])
                else:
                    acts.append(['raise', rng.choice([10, 11, 12, 13])])
            passes.append(acts)
    return passes


def _random_case(rng, scen):
    nv = rng.choice([1, 2, 2, 3, 4])
    ncheck = rng.randint(0 if rng.random() < 0.05 else 1, min(3, nv))
    check = rng.sample(range(nv), ncheck)
    endo = rng.sample(range(nv), rng.randint(0, nv))
    n = rng.randint(1, 5)
    lags = leads = 0
    if n >= 3 and rng.random() < 0.15:
        lags, leads = rng.choice([(1, 0), (0, 1), (1, 1)])
    tv = None
    r = rng.random()
    if r < 0.15:
        tv = rng.sample(range(nv), rng.randint(0, nv))
    elif r < 0.18:
        tv = [0, nv + 1]                       # an unknown name in TRACE_VARIABLES
    c = _case(nvars=nv, check=check, endo=endo, n=n, lags=lags, leads=leads, trace_variables=tv)
    # the span object (list.index / the array fallback / pandas get_loc) and its labels (ints, strs, pandas Periods; a repeated label)
    c['span_kind'] = rng.choice(['list'] * 6 + ['array'] * 2 + ['index'] * 2 + ['list_dup', 'list_dup', 'array_dup', 'str', 'str', 'period', 'period'])
    c['dup_at'] = rng.randrange(1, max(2, n))
    if rng.random() < 0.12 and (tv is None or all(i < nv for i in tv)):
        c['aliases'] = 'tv' if tv is not None else True     # AliasMixin stacked under the tracer; trace= and TRACE_VARIABLES use alias names
    palette = sc.PALETTE_FINITE
    for p in range(n):
        if rng.random() < 0.7:
            ps = {'passes': _rand_passes(rng, nv, check, palette)}
            if rng.random() < 0.2 and ncheck:
                ps['before'] = [['set', check[0], H(rng.choice(palette))]] if rng.random() < 0.85 else [['raise', 11]]
            if rng.random() < 0.2:
                ps['after'] = [['set', rng.randrange(nv), H(7.0)]] if rng.random() < 0.8 else [['raise', 12]]
            c['scripts'][str(p)] = ps
        if rng.random() < 0.05 and ncheck:
            c['vals'][check[0]][p] = H(rng.choice(sc.PALETTE_BAD))
    ncalls = rng.choice([1, 2, 2, 3, 4])
    focus = rng.randrange(n)
    calls = []
    consistent = rng.random() < 0.8
    default_w = nv if tv is None else len(tv)
    width = rng.choice([1, 1, 2, default_w, default_w])
    for ci in range(ncalls):
        mx = rng.randint(0, 5) if rng.random() < 0.92 else rng.randint(-1, 0)
        mn = rng.randint(0, mx + 1) if mx >= 0 else rng.randint(-2, 1)
        o = _opts(min_iter=mn, max_iter=mx, failures=rng.choice(['raise', 'ignore', 'ignore']),
                  errors=rng.choice(['raise'] * 3 + ['skip', 'ignore', 'replace']), catch_first_error=rng.random() < 0.6)
        if rng.random() < 0.2:
            o['tol'] = H(rng.choice([1e-10, 0.5, 0.0, 1.0]))
        if rng.random() < 0.15:
            o['offset'] = rng.choice([-1, 1, -1, 1, -2, 2, n, -n])
        p = focus if rng.random() < 0.75 else rng.randrange(n)
        q = rng.random()
        if q < 0.15:
            a = rng.choice([['omit'], ['none'], ['flag', False], ['list', []], ['empty_str']])
        elif not consistent:
            if q < 0.4:
                a = rng.choice([['flag', True]] * 6 + [['genexp', [rng.randrange(nv)]], ['set', [rng.randrange(nv)]]])
            elif q < 0.6:
                a = ['name', rng.randrange(nv)]
            else:
                a = [rng.choice(['list', 'list', 'tuple']), [rng.randrange(nv) for _ in range(rng.randint(1, 3))]]
        else:
            # one width for every traced call of the case: repeated solves accumulate instead of hitting finding #16
            if width == default_w and rng.random() < 0.6:
                a = ['flag', True]
            elif width == 1 and rng.random() < 0.6:
                a = ['name', rng.randrange(nv)]
            elif width >= 1:
                a = [rng.choice(['list', 'list', 'tuple']), [rng.randrange(nv) for _ in range(width)]]
            else:
                a = ['flag', True]
        reset = rng.choice([None, None, False, True])
        entry = rng.choice(['solve_t', 'solve_t', 'solve_period', 'solve'])
        tag = rng.randrange(1, 9) if rng.random() < 0.25 else None
        if entry == 'solve':
            lo = rng.randrange(n)
            hi = rng.randrange(n)
            st = lo if rng.random() < 0.8 else None
            en = hi if rng.random() < 0.8 else None
            if (st is None and lags >= n) or (en is None and leads >= n):
                st, en = lo, hi
            cl = _call('solve', p, n, o, a, reset, start=st, end=en)
            # labels solve() must reject itself (KeyError before anything is solved or traced)
            r2 = rng.random()
            if r2 < 0.03:
                cl['start'] = rng.choice([1999, 2000 + n, 2000 + n + 7, -1])
            elif r2 < 0.06:
                cl['end'] = rng.choice([1999, 2000 + n, 2000 + n + 7, 0])
            calls.append(cl)
        else:
            calls.append(_call(entry, p, n, o, a, reset, neg=rng.random() < 0.3))
        if tag is not None:
            calls[-1]['tag'] = tag
    # histories: between two calls the user assigns a whole series, copies or reindexes the instance
    if len(calls) >= 2 and rng.random() < 0.35:
        for _ in range(rng.choice([1, 1, 2])):
            k = rng.randrange(1, len(calls))
            q = rng.random()
            if q < 0.5:
                op = {'entry': 'assign', 'opts': _opts(), 'var': rng.randrange(nv),
                      'values': [H(rng.choice([7.5, -3.25, 0.1, 1e6]) + 0.5 * j) for j in range(n)]}
            elif q < 0.75:
                op = {'entry': rng.choice(['copy', 'reindex']), 'opts': _opts()}
            elif q < 0.88:
                op = {'entry': 'edit_spec', 'opts': _opts()}
            else:
                op = {'entry': 'add_variable', 'opts': _opts(), 'value': H(rng.choice([0.0, 2.5, -1.0]))}
            calls.insert(k, op)
    # the public snapshot methods called directly, somewhere in the sequence
    if rng.random() < 0.2:
        k = rng.randrange(len(calls) + 1)
        calls.insert(k, _direct_call(rng, n, nv, focus))
    # out-of-domain endings (always the last call): unknown name, t outside the span, unknown label
    r = rng.random()
    if r < 0.06:
        calls.append(_call('solve_t', focus, n, _opts(), rng.choice([['name', nv + 2], ['list', [0, nv]], ['list', [nv + 1, 0]]])))
    elif r < 0.10 and ncheck:
        t = rng.choice([n, n + 3, -n - 1])
        oo = _opts(min_iter=rng.choice([0, 3]), max_iter=2)
        cl = {'entry': 'solve_t', 't': t, 'opts': oo, 'trace': ['flag', True]}
        calls.append(cl)
    elif r < 0.13:
        calls.append({'entry': 'solve_period', 'label': 1999, 'opts': _opts(), 'trace': ['flag', True]})
    if c['span_kind'].endswith('_dup'):
        # reindex() onto a span with a repeated label is no identity (every period of that label gets the first one's values; an array
        # span refuses the lookup): not a history the property speaks about — continue on a copy instead
        for cl in calls:
            if cl['entry'] == 'reindex':
                cl['entry'] = 'copy'
    if c.get('aliases') and tv is None:
        # An alias is read as the variable it denotes (ids), but since fix 7d04ae5 trace_t compares the name STRINGS of
        # successive calls: keep every traced call of an alias case on alias names — the class defaults (self.names) are the
        # variables' own names, so calls that would fall back on them get the explicit list of all aliases instead
        for cl in calls:
            a_ = cl.get('trace', ['omit'])
            defaults = a_[0] in ('genexp', 'set') or a_ == ['flag', True] or (cl['entry'] in DIRECT and a_[0] in ('omit', 'none', 'flag'))
            if defaults and cl['entry'] not in STATE_OPS:
                cl['trace'] = ['list', list(range(nv))]
    c['calls'] = calls
    return c
