"""C06 — numerical-error and failure policies follow the documented state machine."""
import copy

import numpy as np

import lib
from props import solver_common as sc

ID = 'C06'
PROPS_FILE = 'Props/C06.v'
MODEL_FILES = ['Solver/Solver.v', 'Solver/SolverF.v', 'Solver/SolveAll.v', 'Solver/SolveAllSpan.v', 'Solver/SolveAllPeriod.v', 'Solver/SolveAllF.v',
               'Solver/SolveAllHistF.v']
K_NAME = ('K_faults + K_history (Solver.solve_t_M / SolveAll.solve_M / SolveAllHistF.run_hist instantiated with PrimFloat vs BaseModel.solve_t / solve / solve_period on scripted models '
          'and on parser-built models whose recorded per-pass columns are the script)')
RULE = ('every placement of a fault kind {NaN, +inf, -inf, warning-raising statement, Python exception} at (statement 0..2, pass 1..4, '
        'period 0..2) x errors in {raise, skip, ignore, replace, bogus} x failures x catch_first_error, with min_iter/max_iter drawn around the '
        'fault pass (fault on the last permitted pass, before min_iter, after max_iter), healing and persisting faults, pre-existing non-finite '
        'check cells, pre- and post-hooks that raise, store or issue a warning, both spellings of t; random multi-fault scripts; parser-built models producing the fault naturally (1/X, log(X), '
        'exp(X)*exp(X), X/X, 1/0, growth to overflow, a fault in a later equation / a later pass); multi-period solve() with a fault in one '
        'period; histories of 2..6 public solver calls (solve_t / solve_period / solve, each with its own options) on ONE instance over 12 span '
        'types, final state and every outcome compared with SolveAllHistF.run_hist. Non-trivial = a fault was actually reached (non-finite check vector, warning, exception or pre-existing non-finite cell) '
        'or at least two passes ran; distinct by hash of the whole case.')
TRUSTED = ['scripted-model subclass harness/scripted.py (same script is the Coq oracle)',
           'parser-built models: the recording subclass of harness/props/C06.py turns the columns observed after each pass into the script']
ASSUMPTIONS = ['_evaluate and the hooks modify only variable values (not status/iterations) — the shape of the model\'s oracles',
               't lies inside the span and is feasible for the lags/leads; an offset lies inside the span (the theorems are stated for offset = 0 and '
               'compose with C02_offset_seeds; K and the oracle also run in-span offsets, incl. a non-finite value at the offset source)',
               'which NumPy operations warn is an input (recorded from the run), not modelled; for parser-built models the oracle REQUIRES the '
               'warning path whenever a pass turns a wholly finite store non-finite under errors=raise with catch_first_error',
               'K is stricter than the oracle (it also compares: warnings of other categories than RuntimeWarning, an invalid `errors` value, that '
               'nothing is recorded when a hook fails, the exact class of the chained cause, the whole values store)']
EXHAUSTIVE = {'quick': False, 'thorough': False}
CASE_TIMEOUT = 30
KNOWN_SIG = 'C06|errors=replace|pass-after-nonfinite-pass-judged'

ERR5 = ['raise', 'skip', 'ignore', 'replace', 'bogus']
KINDS = ['nan', 'inf', '-inf', 'warn', 'exc']


# --------------------------------------------------------------------------- implementation side
def impl(case):
    kind = case.get('kind', 'scripted')
    if kind == 'parsed':
        return impl_parsed(case)
    if kind == 'multi':
        return sc.impl_solve(case)
    if kind == 'hist':
        return sc.impl_hist(case)
    return sc.impl_solve_t(case)


def _raising_statement_target(exc, Base):
    """Name of the variable assigned by the statement of the generated _evaluate in which `exc` was raised (None if it cannot be
    told): the innermost traceback frame of the exec'd `_evaluate` gives the line, Base.CODE gives its text."""
    import re
    tb, hit = exc.__traceback__, None
    while tb is not None:
        co = tb.tb_frame.f_code
        if co.co_name == '_evaluate' and co.co_filename == '<string>':
            hit = (tb.tb_lineno, co.co_firstlineno)
        tb = tb.tb_next
    code = getattr(Base, 'CODE', None)
    if hit is None or not isinstance(code, str):
        return None
    lines = code.splitlines()
    defs = [i for i, ln in enumerate(lines) if ln.lstrip().startswith('def _evaluate(')]
    if len(defs) != 1:
        return None
    i = defs[0] + (hit[0] - hit[1])
    if not 0 <= i < len(lines):
        return None
    m = re.match(r'\s*self\._(\w+)\[t\]\s*=[^=]', lines[i])
    return m.group(1) if m else None


def impl_parsed(case):
    """A model built by the real parser whose equations produce the fault naturally.  The columns seen after every pass are
    recorded and become the script handed to the Coq model (the policy machine is what is under test)."""
    import fsic
    import scripted
    symbols = fsic.parse_model(case['equations'])
    Base = fsic.build_model(symbols)
    rec = {'evlog': [], 'passvecs': [], 'raised': [], 'cols': [], 'pre': [], 'where': [], 'allfin': []}

    class Rec(Base):
        def _col(self, t):
            return [float(self.__dict__['_' + nm][t]) for nm in self.names]

        def solve_t_before(self, t, *, errors='raise', catch_first_error=True, iteration=None, **kwargs):
            rec['evlog'].append(['before', int(t if t >= 0 else t + len(self.span)), int(iteration)])      # position, whatever spelling the hook sees
            super().solve_t_before(t, errors=errors, catch_first_error=catch_first_error, iteration=iteration, **kwargs)

        def _evaluate(self, t, *, errors='raise', catch_first_error=True, iteration=None, **kwargs):
            rec['evlog'].append(['pass', int(t if t >= 0 else t + len(self.span)), int(iteration)])      # position, whatever spelling the hook sees
            rec['pre'].append(self._col(t))
            rec['allfin'].append(bool(all(np.all(np.isfinite(self.__dict__['_' + nm])) for nm in self.names)))
            try:
                super()._evaluate(t, errors=errors, catch_first_error=catch_first_error, iteration=iteration, **kwargs)
            except Exception as e:
                rec['raised'].append(['pass', int(t), int(iteration), type(e).__name__])
                rec['where'].append([int(iteration), _raising_statement_target(e, Base)])
                raise
            finally:
                rec['cols'].append(self._col(t))
                rec['passvecs'].append([float(self.__dict__['_' + nm][t]) for nm in self.check])

        def solve_t_after(self, t, *, errors='raise', catch_first_error=True, iteration=None, **kwargs):
            rec['evlog'].append(['after', int(t if t >= 0 else t + len(self.span)), int(iteration)])      # position, whatever spelling the hook sees
            super().solve_t_after(t, errors=errors, catch_first_error=catch_first_error, iteration=iteration, **kwargs)

    n = case['n']
    m = Rec(list(range(2000, 2000 + n)))
    names = list(m.names)
    for nm, vals in case['init'].items():
        if nm in names:
            m.__dict__['_' + nm][:] = [lib.unhex(x) for x in vals]
    vals0 = [[lib.fhex(x) for x in m.__dict__['_' + nm]] for nm in names]
    try:
        out = ['ret', bool(m.solve_t(case['t'], **sc.solve_kwargs(case['opts'])))]
    except Exception as e:
        c = e.__cause__
        out = ['raise', type(e).__name__, type(c).__name__ if c is not None else None]
    p = case['t'] if case['t'] >= 0 else case['t'] + n
    passes = []
    raised_at = {r[2]: r[3] for r in rec['raised']}
    for k, colv in enumerate(rec['cols'], start=1):
        acts = [['set', i, lib.fhex(x)] for i, x in enumerate(colv)]
        if k in raised_at:
            acts.append(['raise', scripted.CAUSE_TAG.get(raised_at[k], 99)])
        passes.append(acts)
    as_scripted = {'nvars': len(names), 'check': [names.index(x) for x in m.check], 'endo': [names.index(x) for x in m.endogenous],
                   'lags': int(m.lags), 'leads': int(m.leads), 'n': n, 't': case['t'], 'vals': vals0, 'status': ['-'] * n, 'iters': [-1] * n,
                   'opts': case['opts'], 'scripts': {str(p): {'passes': passes}}, 'entry': 'solve_t'}
    return {
        'out': out,
        'vals': [[lib.fhex(x) for x in m.__dict__['_' + nm]] for nm in names],
        'status': [str(x) for x in m.__dict__['_status']], 'iters': [int(x) for x in m.__dict__['_iterations']],
        'log': sc.canon_log(rec['evlog'], case['t'], n), 'passvecs': [[lib.fhex(x) for x in v] for v in rec['passvecs']], 'raised': rec['raised'], 'blocked': [],
        'pre': [[lib.fhex(x) for x in v] for v in rec['pre']], 'cols': [[lib.fhex(x) for x in v] for v in rec['cols']],
        'as_scripted': as_scripted, 'names': names, 'where': rec['where'], 'allfin': rec['allfin'],
    }


def view(case, obs):
    """the scripted-format case the observation is about"""
    return obs['as_scripted'] if case.get('kind') == 'parsed' else case


# --------------------------------------------------------------------------- generator
BASES = [
    [(1.0, 2.0, 3.0), (1.5, 2.5, 3.5), (1.5, 2.5, 3.5), (1.5, 2.5, 3.5), (1.5, 2.5, 3.5), (1.5, 2.5, 3.5)],      # converges at 3
    [(1.0, 2.0, 3.0), (1.0, 2.0, 3.0), (1.0, 2.0, 3.0), (1.0, 2.0, 3.0), (1.0, 2.0, 3.0), (1.0, 2.0, 3.0)],      # converges at 2
    [(1.0, 2.0, 3.0), (2.0, 2.0, 3.0), (1.0, 2.0, 3.0), (2.0, 2.0, 3.0), (1.0, 2.0, 3.0), (2.0, 2.0, 3.0)],      # oscillates
    [(0.0, 0.0, 0.0), (1e-12, 0.0, 0.0), (1e-12, 0.0, 0.0), (1.0, 1.0, 1.0), (1.0, 1.0, 1.0), (1.0, 1.0, 1.0)],  # near zero (replace!)
]
BADV = {'nan': float('nan'), 'inf': float('inf'), '-inf': float('-inf')}


def fault_stmt(rng, kind, eq):
    if kind in BADV:
        return ['set', eq, lib.fhex(BADV[kind])]
    if kind == 'warn':
        a = ['warnset', eq, lib.fhex(rng.choice([float('inf'), float('nan'), float('-inf'), 7.0]))]
        return a + ['user'] if rng.random() < 0.3 else a          # a warning of another category than NumPy's RuntimeWarning
    return ['raise', rng.choice([10, 11, 12, 13, 14, 20, 21, 22, 23])]      # built-in classes and fsic's own (SolutionError, NonConvergenceError, subclasses)


def placed_case(rng, kind, eq, k, p, errors, failures, cf, mnmx=None, persist=None):
    n = 3
    base = BASES[rng.randrange(len(BASES))]
    if mnmx is None:
        mnmx = rng.choice([(0, 5), (0, k), (k, k), (0, k + 1), (k + 1, k + 2), (2, 4), (0, max(k - 1, 0)), (1, 6), (k, 6)])
    mn, mx = mnmx
    t = p if rng.random() < 0.7 else p - n
    endo = (0, 1, 2, 3) if rng.random() < 0.3 else (0, 1, 2)          # V3: sometimes a NON-check endogenous variable
    off = 0
    if rng.random() < 0.15:
        off = rng.choice([x for x in (-1, 1, -2, 2) if 0 <= p + x < n])  # an in-span offset: the period is seeded from period p + off
    c = sc.base_case(nvars=4, check=(0, 1, 2), endo=endo, n=n, t=t, min_iter=mn, max_iter=mx, failures=failures, errors=errors,
                     catch_first_error=cf, offset=off)
    if off and rng.random() < 0.5:
        # a non-finite value AT THE OFFSET SOURCE, in a check variable or in the non-check endogenous one
        c['vals'][rng.choice(endo)][p + off] = lib.fhex(rng.choice(list(BADV.values())))
    if persist is None:
        persist = rng.random() < 0.25
    passes = []
    for i in range(6):
        acts = [['set', j, lib.fhex(base[i][j])] for j in range(3)]
        if i + 1 == k or (persist and i + 1 > k):
            acts[eq] = fault_stmt(rng, kind, eq)
        if rng.random() < 0.04:
            acts.append(['set', 3, lib.fhex(rng.choice(list(BADV.values())))])     # a non-finite value in the NON-check variable V3
        passes.append(acts)
    ps = {'passes': passes}
    r = rng.random()
    if r < 0.06:
        ps['before'] = rng.choice([[['raise', 12]], [['set', rng.randrange(3), lib.fhex(rng.choice([float('nan'), 4.0]))]],
                                   [['set', 3, lib.fhex(2.0)], ['warnset', rng.randrange(4), lib.fhex(rng.choice([float('inf'), 4.0]))]]])
    elif r < 0.12:
        ps['after'] = [['raise', 13]] if rng.random() < 0.6 else [['warnset', 3, lib.fhex(1.0)]]
    c['scripts'] = sc.with_list_assignments(rng, {str(p): ps}, 0.2, (0, 1, 2))      # some stores as whole-series list assignments (array rebound)
    c['opts'] = sc.random_omit(rng, c['opts'], 0.12)          # some calls leave keywords (errors, catch_first_error, ...) to their defaults
    if rng.random() < 0.15:
        c['vals'][rng.randrange(3)][p] = lib.fhex(rng.choice(list(BADV.values())))
    if rng.random() < 0.1:
        c['status'][p] = rng.choice(['.', 'F', 'E', 'S'])
        c['iters'][p] = rng.randint(0, 9)
    return c


PARSED = [
    # (equations, {name: candidate start values at t}, comment)
    ('Y = 1 / X', {'X': [0.0, -0.0, 2.0, 1e-320], 'Y': [0.0, 1.0]}),
    ('Y = log(X)', {'X': [0.0, -1.0, 1.0, float('inf')], 'Y': [0.0]}),
    ('Y = exp(X) * exp(X)', {'X': [400.0, 710.0, 1.0, -800.0], 'Y': [0.0]}),
    ('Y = X / X', {'X': [0.0, 1.0, float('inf')], 'Y': [0.5]}),
    ('Y = 1 / 0', {'Y': [0.0]}),
    ('Y = Y * Y', {'Y': [1e150, 1.0, 0.0, -1e200, 1e77, 2.0]}),
    ('X = X - 1\nY = 1 / X', {'X': [2.0, 1.0, 3.0, 0.5], 'Y': [0.0]}),
    ('A = B + 1\nB = A * 0.5\nC = 1 / (B - 2)', {'A': [0.0, 2.0, 3.0], 'B': [0.0, 1.0, 2.0], 'C': [0.0]}),
    ('A = 0.5 * A + 1\nB = log(2 - A)', {'A': [0.0, 1.0, 2.0, 4.0], 'B': [0.0]}),
    ('G = G * G\nH = 1 / (16 - G) + exp(G - 700)', {'G': [2.0, 4.0, 1e100, 1.0, 0.5], 'H': [0.0]}),
    ('Y = X[-1] / X', {'X': [0.0, 1.0], 'Y': [0.0]}),
    ('Y = max(X, 1 / X)', {'X': [0.0, 2.0], 'Y': [0.0]}),
    ('Y = nosuchfunction(X)', {'X': [1.0], 'Y': [0.0]}),
    ('Y = 0.5 * Y + X\nZ = Y / (Y - 2)', {'X': [1.0, 0.0], 'Y': [0.0, 2.0, 4.0], 'Z': [0.0]}),
]
# QUIET programs: every operation on these values gives a finite result and NumPy reports nothing under its default settings — at
# most the arithmetic UNDERFLOWS (exp(-800) = 0.0, 1e-200 * 1e-200 = 0.0, a subnormal).  A finite, warning-free-by-default pass is not
# a numerical error: whatever errors / catch_first_error are, such a period must never end in SolutionError.
QUIET = [
    ('Y = exp(X)', {'X': [-800.0, -745.0, -710.0, 1.0, 0.0], 'Y': [0.0, 1.0]}),
    ('Y = A * B', {'A': [1e-200, 1e-170, 2.0], 'B': [1e-200, 1e-160, 0.5], 'Y': [0.0, 1.0]}),
    ('Z = exp(X) * Y\nW = Z * Z', {'X': [-400.0, -800.0, 1.0], 'Y': [1e-100, 1.0], 'Z': [0.0], 'W': [0.0]}),
    ('Y = 0.5 * Y + exp(X)', {'X': [-800.0, -1.0], 'Y': [0.0, 2.0]}),
]


def parsed_case(rng):
    quiet = rng.random() < 0.25
    eqs, init = (QUIET if quiet else PARSED)[rng.randrange(len(QUIET if quiet else PARSED))]
    n = rng.choice([2, 3])
    p = rng.randrange(1, n)
    t = p if rng.random() < 0.7 else p - n
    mx = rng.choice([0, 1, 2, 3, 5, 8])
    mn = rng.choice([0, 0, 1, 2, mx, mx + 1]) if rng.random() < 0.9 else mx
    mn = min(mn, mx)
    o = dict(min_iter=mn, max_iter=mx, tol=lib.fhex(1e-10), offset=0, failures=rng.choice(['raise', 'ignore']),
             errors=rng.choice(ERR5), catch_first_error=rng.random() < 0.5)
    ini = {}
    for nm, cands in init.items():
        row = [1.0] * n
        row[p] = rng.choice(cands)
        if rng.random() < 0.1 and not quiet:
            row[p] = rng.choice([float('nan'), float('inf')])
        if p >= 1:
            row[p - 1] = rng.choice(cands)
        ini[nm] = [lib.fhex(x) for x in row]
    return {'kind': 'parsed', 'equations': eqs, 'n': n, 't': t, 'opts': o, 'init': ini, 'quiet': quiet}


def multi_case(rng):
    n = rng.choice([2, 3, 4])
    c = sc.solve_case(span_type=rng.choice(['range', 'list_str', 'np_int', 'pd_int']), n=n, nvars=2, check=(0,), endo=(0,),
                      min_iter=0, max_iter=rng.choice([4, 5, 6]), failures=rng.choice(['ignore', 'ignore', 'raise']),
                      errors=rng.choice(['skip', 'skip', 'skip', 'ignore', 'replace', 'raise']), catch_first_error=rng.random() < 0.5)
    c['kind'] = 'multi'
    bad = rng.randrange(n)
    k = rng.randint(1, 3)
    scripts = {}
    for p in range(n):
        vals = [1.0, 1.5, 1.5, 1.5]
        if p == bad:
            vals[k - 1] = rng.choice(list(BADV.values()))
        scripts[str(p)] = {'passes': sc.settle_passes(0, vals)}
    c['scripts'] = scripts
    c['fault'] = [bad, k]
    return c


def hist_case(rng):
    return sc.hist_case(rng, errs=('raise', 'raise', 'skip', 'skip', 'ignore', 'replace'))


def gen(rng, tier):
    cases = []
    # fixed corpus first: the known finding's minimal input and its neighbours
    for errors in ('replace', 'ignore', 'skip', 'raise'):
        c = sc.base_case(nvars=1, check=(0,), endo=(0,), n=3, t=1, min_iter=0, max_iter=5, failures='ignore', errors=errors)
        c['vals'][0][1] = lib.fhex(0.0)
        c['scripts'] = {'1': {'passes': sc.settle_passes(0, [float('nan'), 1e-12, 1e-12, 1e-12])}}
        cases.append(c)
    reps = 1 if tier == 'quick' else 6
    for _ in range(reps):
        for kind in KINDS:
            for eq in range(3):
                for k in range(1, 5):
                    for p in range(3):
                        for errors in ERR5:
                            for failures in ('raise', 'ignore'):
                                for cf in (True, False):
                                    cases.append(placed_case(rng, kind, eq, k, p, errors, failures, cf))
    # keyword defaults (errors='raise', catch_first_error=True, failures='raise', ...): every keyword omitted in turn and all of them
    for omit in sc.default_probe_omissions():
        for name in ('nan-at-2', 'warn-at-2', 'oscillating'):
            c = sc.base_case(nvars=2, check=(0,), endo=(0,), n=3, t=1, min_iter=0, max_iter=rng.choice([4, 6]), failures=rng.choice(['raise', 'ignore']),
                             errors=rng.choice(['raise', 'skip', 'ignore']), catch_first_error=rng.random() < 0.5)
            c['opts'] = sc.with_omitted(c['opts'], omit)
            c['vals'][0][1] = lib.fhex(1.0)
            c['scripts'] = sc.with_list_assignments(rng, {'1': sc.default_probe_scripts(1)[name]}, 0.3)
            cases.append(c)
    # random multi-fault scripts
    for _ in range(600 if tier == 'quick' else 12000):
        c = placed_case(rng, rng.choice(KINDS), rng.randrange(3), rng.randint(1, 5), rng.randrange(3), rng.choice(ERR5),
                        rng.choice(['raise', 'ignore']), rng.random() < 0.5, persist=False)
        key = next(iter(c['scripts']))
        for _ in range(rng.randint(1, 3)):
            i = rng.randrange(6)
            c['scripts'][key]['passes'][i][rng.randrange(3)] = fault_stmt(rng, rng.choice(KINDS), rng.randrange(3))
        cases.append(c)
    for _ in range(500 if tier == 'quick' else 5000):
        cases.append(parsed_case(rng))
    for _ in range(250 if tier == 'quick' else 3000):
        cases.append(multi_case(rng))
    for _ in range(300 if tier == 'quick' else 3000):
        cases.append(hist_case(rng))
    return cases


# --------------------------------------------------------------------------- correspondence
def correspond(cases, obs, tag, tier):
    single = [(i, view(c, o), o) for i, (c, o) in enumerate(zip(cases, obs)) if c.get('kind') not in ('multi', 'hist') and sc.k_comparable(c)]
    multi = [(i, c, o) for i, (c, o) in enumerate(zip(cases, obs)) if c.get('kind') == 'multi' and sc.k_comparable(c)]
    hist = [(i, c, o) for i, (c, o) in enumerate(zip(cases, obs)) if c.get('kind') == 'hist' and sc.k_comparable(c)]
    bad, errs = [], []
    if hist:
        b, e = sc.correspond_hist([x[1] for x in hist], [x[2] for x in hist], tag + 'c')
        bad += [hist[j][0] for j in b]
        errs += e
    if single:
        b, e = sc.correspond_solve_t([x[1] for x in single], [x[2] for x in single], tag + 'a')
        bad += [single[j][0] for j in b]
        errs += e
    if multi:
        b, e = sc.correspond_solve([x[1] for x in multi], [x[2] for x in multi], tag + 'b')
        bad += [multi[j][0] for j in b]
        errs += e
    return sorted(bad), errs


def explain(case, obs):
    if case.get('kind') == 'multi':
        return sc.explain_solve(case, obs)
    if case.get('kind') == 'hist':
        return sc.explain_hist(case, obs)
    return sc.explain_solve_t(view(case, obs), obs)


# --------------------------------------------------------------------------- oracle: the C06 statement on the observation
def _pos(c):
    return c['t'] if c['t'] >= 0 else c['t'] + c['n']


def _fin(vec):
    return all(np.isfinite(x) for x in vec)


def _start_vals(c):
    """the store the period starts from: with an in-span offset the endogenous values of the source period have been copied in"""
    o, n, p = c['opts'], c['n'], _pos(c)
    q = p + o['offset']
    if o['offset'] == 0 or q < 0 or q >= n:
        return c['vals']
    vals = [list(row) for row in c['vals']]
    for i in c['endo']:
        vals[i][p] = c['vals'][i][q]
    return vals


def _local_finite(seq, max_iter):
    """finiteness of the loop's LOCAL vector under errors='replace' (mirror of the code, used only by guard())"""
    loc = [_fin(seq[0])]
    for k in range(1, len(seq)):
        if loc[k - 1] and not _fin(seq[k]):
            loc.append(k < max_iter)          # replaced with zeros unless that was the last permitted pass
        else:
            loc.append(_fin(seq[k]))
    return loc


def guard(case, obs):
    """The class of finding #5: errors='replace' and some pass was started from a LOCAL vector that had been zeroed, i.e. after a
    pass that left non-finite stored check values (there the model mirrors the defect; only the oracle speaks)."""
    if case.get('kind') in ('multi', 'hist'):
        return False
    c = view(case, obs)
    if c['opts']['errors'] != 'replace':
        return False
    p = _pos(c)
    seq = [[lib.unhex(_start_vals(c)[i][p]) for i in c['check']]] + [[lib.unhex(x) for x in v] for v in obs['passvecs']]
    loc = _local_finite(seq, c['opts']['max_iter'])
    m = len(seq) - 1
    return any(loc[k] and not _fin(seq[k]) for k in range(1, m))


def oracle_hist(case, obs):
    """Statuses are always one of '-', '.', 'F', 'E', 'S' — after ANY history of solver calls: every period ends with its initial
    status or '.', 'F', 'S' (only if some call of the history had errors='skip'), 'E' (only if some call had errors='raise');
    the series keep their length; a call that returns a flag returns True exactly for '.'."""
    fails = []

    def bad(sig, what):
        fails.append({'sig': 'C06|history|' + sig, 'what': what})
    n = case['n']
    modes = {c['opts']['errors'] for c in case['calls'] if 'opts' in c}
    reindexed = any(c['api'] == 'reindex' for c in case['calls'])
    if len(obs['status']) != len(obs['iters']) or (not reindexed and len(obs['status']) != n):
        bad('length', 'status / iterations series changed length: %d / %d for %d periods' % (len(obs['status']), len(obs['iters']), n))
    for k, snap in enumerate(obs['snaps']):
        prev = case['status'] if k == 0 else obs['snaps'][k - 1]
        n = len(snap)
        for q, x in enumerate(snap):
            if x not in ('-', '.', 'F', 'E', 'S'):
                bad('alphabet', 'call %d left status %r at period %d' % (k, x, q))
            elif case['calls'][k]['api'] == 'reindex':
                continue            # periods moved; only the alphabet is constrained
            elif x != prev[q]:
                e = case['calls'][k].get('opts', {}).get('errors')
                if (x == 'S' and e != 'skip') or (x == 'E' and e != 'raise') or x == '-':
                    bad('status-vs-policy', 'call %d (errors=%r) wrote status %r at period %d' % (k, e, x, q))
        call, out = case['calls'][k], obs['outs'][k]
        if out[0] == 'ret':
            if call['api'] == 'solve':
                for lab, t, b in zip(out[1], out[2], out[3]):
                    pass        # a later period of the same call may not rewrite an earlier one: flags are checked on the snapshot
                if any((b is True) != (snap[t] == '.') for t, b in zip(out[2], out[3])):
                    bad('flag-iff-dot', 'call %d: solve() flags %s for positions %s, statuses %s' % (k, out[3], out[2], snap))
            elif call['api'] == 'solve_t':
                p = call['t'] if call['t'] >= 0 else call['t'] + n
                if (out[1] is True) != (snap[p] == '.'):
                    bad('flag-iff-dot', 'call %d: solve_t returned %s with status %r' % (k, out[1], snap[p]))
    # the single-call clauses of the statement at EVERY solve_t / solve_period step of the history (state before the step = start state)
    for k, c1, o1 in sc.hist_steps_as_solve_t(case, obs):
        for f in oracle(c1, o1):
            fails.append({'sig': f['sig'], 'what': 'step %d of a history (%s on a %s span, after %s): %s'
                          % (k, case['calls'][k]['api'], case['span_type'], [x['api'] for x in case['calls'][:k]], f['what'])})
    for q, x in enumerate(obs['status']):
        if x not in case['status'] and ((x == 'S' and 'skip' not in modes) or (x == 'E' and 'raise' not in modes)):
            bad('status-vs-policy', 'period %d ends %r although no call of the history had the policy that writes it (%s)' % (q, x, sorted(modes)))
    return fails


def oracle(case, obs):
    if case.get('kind') == 'multi':
        return oracle_multi(case, obs)
    if case.get('kind') == 'hist':
        return oracle_hist(case, obs)
    if case.get('kind') == 'parsed' and case.get('quiet') and obs['out'][:2] == ['raise', 'SolutionError']:
        return [{'sig': 'C06|quiet-finite-pass-raised', 'what': 'every value of %r stays finite and NumPy reports nothing for it under its default '
                 'settings (the arithmetic at most underflows): this is no numerical error under any policy, yet solve_t(%d, errors=%r, '
                 'catch_first_error=%r) raised %s after passes %s' % (case['equations'], case['t'], case['opts']['errors'],
                                                                      case['opts']['catch_first_error'], obs['out'], obs['passvecs'])}]
    fails = []

    def bad(sig, what):
        fails.append({'sig': 'C06|' + sig, 'what': what})
    c = view(case, obs)
    o = c['opts']
    n, p = c['n'], _pos(c)
    tol = lib.unhex(o['tol'])
    out = obs['out']
    errors = o['errors']
    st, it = obs['status'][p], obs['iters'][p]
    # ---- always: alphabet, flag, other periods
    if any(x not in ('-', '.', 'F', 'E', 'S') for x in obs['status']):
        bad('alphabet', 'a status outside - . F E S was recorded: %s' % obs['status'])
    if out[0] == 'ret' and (out[1] is True) != (st == '.'):
        bad('flag-iff-dot', 'the solved flag must be True exactly for status ".": returned %s with status %r' % (out[1], st))
    if any(obs['status'][i] != c['status'][i] or obs['iters'][i] != c['iters'][i] for i in range(n) if i != p):
        bad('other-periods', 'status/iterations changed at a period other than t')
    # 'E' is the status of the 'raise' policy and 'S' that of the 'skip' policy: no other policy may write them
    if (st, it) != (c['status'][p], c['iters'][p]):
        if st == 'E' and errors != 'raise':
            bad('E-only-under-raise', 'status E was recorded under errors=%r (only errors="raise" records E); outcome %s' % (errors, out))
        if st == 'S' and errors != 'skip':
            bad('S-only-under-skip', 'status S was recorded under errors=%r (only errors="skip" records S); outcome %s' % (errors, out))
    # the warnings filter: only errors='raise' together with catch_first_error turns a warning into an exception; under every
    # other policy ('skip' gives S and NO exception, 'ignore' / 'replace' keep iterating, 'raise' without catch_first_error
    # judges after the pass) a warning must never surface
    # (the statement speaks of a warning-raising NUMERICAL operation: only RuntimeWarning-category warnings count here; what happens to
    # warnings of other categories is compared by K only)
    numerical = [w for w in obs.get('warn_stored', []) if len(w) < 3 or w[2] == 'RuntimeWarning']
    if errors == 'raise' and o['catch_first_error'] and numerical:
        bad('catch-first-stored', 'errors="raise" with catch_first_error: a statement that issued a numerical warning went on and stored its '
            'result (variable V%d at t=%d); the warning must stop the pass before the store' % tuple(numerical[0][:2]))
    if not (errors == 'raise' and o['catch_first_error']):
        for r in obs['raised']:
            if r[3] in ('RuntimeWarning', 'UserWarning'):
                bad('warning-filter', 'a warning surfaced as an exception in %s %d although errors=%r, catch_first_error=%r (only '
                    'errors="raise" with catch_first_error stops at the warning); got %s' % (r[0], r[2], errors, o['catch_first_error'], out))
                break
    if o['min_iter'] > o['max_iter'] or p < c.get('lags', 0) or p >= n - c.get('leads', 0):
        return fails                                     # C02's clauses
    if o['offset'] != 0 and not 0 <= p + o['offset'] < n:
        return fails                                     # C02's clause (IndexError, no change)
    # with an in-span offset the period starts from the endogenous values of the source period: a non-finite value there is pre-existing
    start_vals = _start_vals(c)
    c0 = [lib.unhex(start_vals[i][p]) for i in c['check']]
    seq = [c0] + [[lib.unhex(x) for x in v] for v in obs['passvecs']]
    m = len(seq) - 1
    raised = {(r[0], r[2]): r[3] for r in obs['raised']}
    unchanged_rec = (st == c['status'][p] and it == c['iters'][p])
    # ---- pre-existing non-finite values under 'raise': rejected before any pass (or hook)
    if errors == 'raise' and not _fin(c0):
        if out != ['raise', 'SolutionError', None] or obs['log'] or obs['vals'] not in (start_vals, c['vals']) or not unchanged_rec:
            bad('preexisting-nonfinite', 'pre-existing non-finite check values under errors="raise" must be rejected with SolutionError before '
                'any hook or pass and with no change; got %s, events %s' % (out, obs['log']))
        return fails
    # ---- exception in the pre-hook
    if ('before', 0) in raised:
        if out != ['raise', 'SolutionError', raised[('before', 0)]] or m != 0:
            bad('before-hook-exception', 'an exception in solve_t_before must surface as SolutionError chained to it before any pass; got %s after %d passes' % (out, m))
        return fails
    lo = max(1, o['min_iter'])
    for k in range(1, m + 1):
        if ('pass', k) in raised:
            cls = raised[('pass', k)]
            if out != ['raise', 'SolutionError', cls] or m != k:
                bad('pass-exception', 'an exception inside evaluation pass %d (%s) must surface as SolutionError chained to it; got %s' % (k, cls, out))
            if out[:2] == ['raise', 'SolutionError'] and obs.get('cause_is_original') is False:
                bad('pass-exception', 'the SolutionError must be a NEW exception whose __cause__ is the very object raised inside pass %d (%s); '
                    'what surfaced was the original itself or was chained to something else' % (k, cls))
            if errors == 'raise' and (st, it) != ('E', k):
                bad('pass-exception-record', 'under errors="raise" an evaluation-pass exception records status E and the pass number %d; got %r, %d' % (k, st, it))
            # catch_first_error: the statement that produced the warning did not store its result
            for var, tt, before in obs.get('blocked', []):
                if obs['vals'][var][p] != before:
                    bad('catch-first-stored', 'with catch_first_error the warning-raising statement must not store: cell V%d changed from %s to %s' % (var, before, obs['vals'][var][p]))
            if case.get('kind') == 'parsed' and errors == 'raise' and o['catch_first_error'] and cls == 'RuntimeWarning':
                # the statement that warned is the one the traceback points at; the cell it assigns must hold what it held before
                # the pass (earlier statements of the pass may well have stored, even non-finite values that raise no warning)
                pre, post = obs['pre'][k - 1], obs['cols'][k - 1]
                target = dict((w[0], w[1]) for w in obs.get('where', [])).get(k)
                if target is not None and target in obs['names']:
                    j = obs['names'].index(target)
                    if pre[j] != post[j]:
                        bad('catch-first-stored', 'with catch_first_error the statement that warned (%s[t] = ...) stored its result: %s before the '
                            'pass, %s after' % (target, pre[j], post[j]))
            return fails
        if _fin(seq[k - 1]) and not _fin(seq[k]):
            # the first clause of the statement: non-finite after a finite previous pass / starting state
            if errors == 'raise':
                if case.get('kind') == 'parsed' and o['catch_first_error'] and k <= len(obs.get('allfin', [])) and obs['allfin'][k - 1]:
                    # the whole store was finite before this pass, so the non-finite value came out of an arithmetic operation on finite
                    # operands — which NumPy reports with a RuntimeWarning; with catch_first_error that warning must have stopped the pass
                    # (SolutionError chained to it, statement not stored).  Reaching the end-of-pass test means the warning never fired
                    # (e.g. silenced by np.errstate), i.e. catch_first_error is dead for real models.
                    bad('warning-path-required', 'errors="raise" with catch_first_error: pass %d turned finite values into %s and the pass '
                        'completed — the numerical warning was not turned into an exception; got %s' % (k, [lib.fhex(x) for x in seq[k]], out))
                    return fails
                if out != ['raise', 'SolutionError', None] or (st, it) != ('E', k) or m != k:
                    bad('nonfinite-raise', 'pass %d left a non-finite check value after finite ones: errors="raise" must give SolutionError, status E, '
                        'iterations=%d and stop; got %s, %r, %d after %d passes' % (k, k, out, st, it, m))
                return fails
            if errors == 'skip':
                if out != ['ret', False] or (st, it) != ('S', k) or m != k:
                    bad('nonfinite-skip', 'pass %d left a non-finite check value after finite ones: errors="skip" must give status S, iterations=%d, '
                        'no exception and stop; got %s, %r, %d after %d passes' % (k, k, out, st, it, m))
                return fails
            if errors not in ('ignore', 'replace'):
                return fails                              # an invalid `errors` value: the statement prescribes nothing (K covers it)
    if errors not in sc.ERRMODES:
        return fails
    # ---- the period ends '.' or 'F' by the ordinary rule; a pass that starts from non-finite check values is never judged
    K = None
    for k in range(lo, min(m, o['max_iter']) + 1):
        if _fin(seq[k - 1]) and _fin(seq[k]) and all(abs(np.float64(a) - np.float64(b)) < tol for a, b in zip(seq[k], seq[k - 1])):
            K = k
            break
    if ('after', m) in raised:
        if out != ['raise', 'SolutionError', raised[('after', m)]] or K != m:
            if errors == 'replace' and K != m and not _fin(seq[m - 1]):
                bad('errors=replace|pass-after-nonfinite-pass-judged', 'errors="replace": pass %d starts from non-finite stored check values %s but is '
                    'judged (against zeros) and declared converged' % (m, [lib.fhex(x) for x in seq[m - 1]]))
            else:
                bad('after-hook-exception', 'an exception in solve_t_after must surface as SolutionError chained to it, and the hook runs only after '
                    'the converging pass (expected pass %s); got %s at pass %d' % (K, out, m))
        return fails
    if K is not None:
        if (out, st, it, m) != (['ret', True], '.', K, K):
            if errors == 'replace' and st == '.' and 2 <= it < K and not _fin(seq[it - 1]):
                bad('errors=replace|pass-after-nonfinite-pass-judged', 'errors="replace": pass %d starts from non-finite stored check values %s but is '
                    'judged (against zeros) and declared converged' % (it, [lib.fhex(x) for x in seq[it - 1]]))
            else:
                bad('ordinary-rule', 'first judged converging pass is %d: expected True, ".", iterations=%d after %d passes; got %s, %r, %d after %d'
                    % (K, K, K, out, st, it, m))
    else:
        exp_out = ['raise', 'NonConvergenceError', None] if o['failures'] == 'raise' else ['ret', False]
        mx = max(o['max_iter'], 0)
        if (out, st, it, m) != (exp_out, 'F', mx, mx):
            if errors == 'replace' and st == '.' and 2 <= it <= m and not _fin(seq[it - 1]):
                bad('errors=replace|pass-after-nonfinite-pass-judged', 'errors="replace": pass %d starts from non-finite stored check values %s but is '
                    'judged (against zeros) and declared converged' % (it, [lib.fhex(x) for x in seq[it - 1]]))
            else:
                bad('ordinary-rule', 'no judged pass converged: expected %s, "F", iterations=%d after %d passes; got %s, %r, %d after %d'
                    % (exp_out, mx, mx, out, st, it, m))
    return fails


def oracle_multi(case, obs):
    """'skip' ... a multi-period solve moves on to the next period (and the other policies stop or go on as their outcome says)."""
    fails = []

    def bad(sig, what):
        fails.append({'sig': 'C06|' + sig, 'what': what})
    o = case['opts']
    n = case['n']
    out = obs['out']
    if any(x not in ('-', '.', 'F', 'E', 'S') for x in obs['status']):
        bad('alphabet', 'a status outside - . F E S was recorded: %s' % obs['status'])
    bad_p, k = case['fault']
    visited = sorted({e[1] for e in obs['log'] if e[0] == 'pass'})
    if o['errors'] == 'skip' and o['failures'] == 'ignore':
        if out[0] != 'ret':
            bad('skip-moves-on', 'errors="skip": solve() must not raise for a non-finite value; got %s' % out)
        elif visited != list(range(n)) or obs['status'][bad_p] != 'S' or obs['iters'][bad_p] != k or out[3][bad_p] is not False:
            bad('skip-moves-on', 'errors="skip": the faulting period %d must end S at pass %d with flag False and every later period must still be '
                'solved; statuses %s, iterations %s, visited %s, flags %s' % (bad_p, k, obs['status'], obs['iters'], visited, out[3]))
        elif any(obs['status'][q] != '.' or out[3][q] is not True for q in range(n) if q != bad_p):
            bad('skip-moves-on', 'periods without a fault must end "." with flag True: %s %s' % (obs['status'], out[3]))
    if out[0] == 'ret':
        for q in range(len(out[3])):
            if (out[3][q] is True) != (obs['status'][out[2][q]] == '.'):
                bad('flag-iff-dot', 'flag %s for period %d with status %r' % (out[3][q], out[2][q], obs['status'][out[2][q]]))
    if o['errors'] == 'raise':
        if out != ['raise', 'SolutionError', None] or obs['status'][bad_p] != 'E' or obs['iters'][bad_p] != k or any(q > bad_p for q in visited):
            bad('raise-stops', 'errors="raise": solve() must stop with SolutionError at period %d (status E, iterations %d) and touch no later '
                'period; got %s, %s, %s, visited %s' % (bad_p, k, out, obs['status'], obs['iters'], visited))
    return fails


def nontrivial(case, obs):
    if case.get('kind') == 'multi':
        return True
    if case.get('kind') == 'hist':
        return len(set(obs['status'])) >= 2 or any(o[0] == 'raise' for o in obs['outs'])
    c = view(case, obs)
    p = _pos(c)
    c0 = [lib.unhex(_start_vals(c)[i][p]) for i in c['check']]
    seq = [c0] + [[lib.unhex(x) for x in v] for v in obs['passvecs']]
    return (not all(_fin(v) for v in seq)) or bool(obs['raised']) or bool(obs.get('blocked')) or len(seq) >= 3


def bucket(case, obs):
    kind = case.get('kind', 'scripted')
    if kind == 'hist':
        return 'hist/%d calls/%s' % (len(case['calls']), ''.join(sorted(set(obs['status']))))
    c = case if kind == 'multi' else view(case, obs)
    out = obs['out']
    res = out[1] if out[0] == 'raise' else ('ret' if kind == 'multi' else ('solved' if out[1] else 'unsolved:' + obs['status'][_pos(c)]))
    return '/'.join([kind, c['opts']['errors'], res, 'guard' if guard(case, obs) else '-'])


def shrink_candidates(case):
    if case.get('kind') == 'hist':
        for i in reversed(range(len(case['calls']))):
            if len(case['calls']) > 1:
                c = copy.deepcopy(case)
                del c['calls'][i]
                yield c
        return
    if case.get('kind') == 'multi':
        return              # the fault pass and the option values are tied together by the generator
    if case.get('kind') == 'parsed':
        for k in ('min_iter', 'max_iter'):
            if case['opts'][k] > 0:
                c = copy.deepcopy(case)
                c['opts'][k] -= 1
                yield c
        return
    for key, sc_ in list(case['scripts'].items()):
        passes = sc_.get('passes', [])
        for i in reversed(range(len(passes))):
            c = copy.deepcopy(case)
            del c['scripts'][key]['passes'][i]
            yield c
        for i in range(len(passes)):
            for j in range(len(passes[i])):
                if passes[i][j][0] != 'set' or not np.isfinite(lib.unhex(passes[i][j][2])):
                    continue
                c = copy.deepcopy(case)
                del c['scripts'][key]['passes'][i][j]
                yield c
        for fld in ('before', 'after'):
            if sc_.get(fld):
                c = copy.deepcopy(case)
                c['scripts'][key][fld] = []
                yield c
    for k in ('min_iter', 'max_iter'):
        if case['opts'][k] > 0:
            c = copy.deepcopy(case)
            c['opts'][k] -= 1
            yield c
