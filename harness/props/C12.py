"""C12 — reindex preserves overlapping periods and fills the rest, on a fresh object."""
import copy
import itertools

import lib
import locate_common as lc

ID = 'C12'
PROPS_FILE = 'Props/C12.v'
MODEL_FILES = ['Locate/Locate.v', 'Locate/LocateK.v', 'Locate/Reindex.v', 'Locate/ReindexK.v']
K_NAME = ('K_reindex (Reindex.reindex_M / model_reindex_M / pandas_reindex_M with the conversion table cast_tbl, run by vm_compute, vs '
          'VectorContainer.reindex / BaseModel.reindex / PandasIndexFeaturesMixin.reindex on the same spans, series and fill arguments)')
RULE = ('NOT exhaustive as a whole: the span pairs below are enumerated completely, the fill configurations rotate through a lattice and are partly drawn from the run\'s rng. '
        'Span pairs: old span = every prefix (quick: length 0..3, thorough 0..5) of a label universe, new span = EVERY sequence over that '
        'universe plus absent labels up to length 3 (thorough 4, sampled at 5) - so overlapping, disjoint, permuted, shrunk, extended at '
        'either end and repeated labels are all enumerated - over range / list of str / mixed hashables / NumPy int and str arrays / pandas '
        'Index / PeriodIndex Y and Q / DatetimeIndex, with new spans of the same or another span type; each container carries a float, an int, '
        'a bool and a <U2 series (models: status <U1 and iterations too, after solving a prefix of the periods); fill_value and per-variable '
        'fills rotate through a palette (None, bools, ints, halves, nan, inf, strings that fit / are truncated / do not parse), unknown fill '
        'names x strict argument None/True/False x object strict flag; histories (an earlier reindex call with other fill arguments on the same '
        'object or on a sibling instance of the same class, incl. equal-but-different fill values 1 / 1.0 / True and 0 / 0.0 / False per dtype; reindex '
        'chains: the object observed is the result of reindexing through same-length shifted windows); labels of different types whose text coincides '
        '(integer old spans against the strings 2003 / +2003 / 2003.0 and back); old spans with duplicates; the new span being the original span '
        'object; the pandas mixin with default and explicit arguments and fill methods; a tracer-extended model; stacked mixins (aliases, aliases + '
        'tracer, pandas + tracer: same class, aliases resolve on the result); BaseLinker.reindex (NotImplementedError, linker unchanged). Non-trivial = at least one '
        'overlapping and one new period, or an exception path; distinct by hash of the whole case.')
TRUSTED = ['label / value encoding harness/locate_common.py and harness/props/C12.py',
           'identity scan of the result against the original (np.shares_memory, `is` on attributes and object cells)',
           'for the pandas mixin the recorded answers of Series.reindex and of the casting assignment are the model\'s oracles',
           'pandas get_loc / __contains__ of the old span: recorded per case; for period_range / fixed-frequency date_range old spans ALSO compared with the '
           'executable index model LocateIndex.reg_get_loc / reg_contains, for which old_span_ok is proved']
ASSUMPTIONS = ['clauses with no theorem, checked by the direct oracle only: the result is of the same class; the original (series, span, variable names, public '
               'attributes) is unchanged - also after a call that raised - and does not follow mutations of the result',
               'kept findings (faces of C10\'s): a NumPy-array OLD span with a repeated label raises KeyError when that label is requested (Props: C12_dup_arr_old_span_KeyError), '
               'and a datetime64[ns] array OLD span raises KeyError for every period present in both spans (C12_arr_datetime64ns_old_span_refuted); '
               'for list / tuple / range old spans with repeated labels the oracle checks every label that is not itself repeated (first occurrence is what the model proves)',
               'K is stricter than the property on the exception CLASS of an unconvertible fill value and on fill methods of the pandas mixin (recorded Series.reindex '
               'answers); the direct oracle checks ffill / bfill on increasing integer spans for float variables and is silent on limit / tolerance / nearest',
               'the conversion of a fill value to a dtype (bool()/int()/str() + np.full(n, value, dtype)) is CPython/NumPy behaviour: tabulated in '
               'Reindex.cast_tbl on the generator\'s palette (incl. NumPy not converting the value when n = 0) and exercised entry by entry',
               'pandas get_loc / __contains__ answers are recorded per case and handed to the model as its oracle tables',
               'the original object is an immutable value in the functional model: that it is unchanged is observed on the implementation (snapshot '
               'before / after reindex and after overwriting every array and list of the result), sharing is modelled by identity tags']
EXHAUSTIVE = {'quick': False, 'thorough': False}          # span pairs are enumerated completely (see RULE); fill configurations rotate / are sampled
SIG_DT64 = 'C12|reindex(datetime64[ns] ndarray old span)|KeyError-for-present-period'
SIG_DUP_ARR = 'C12|reindex(ndarray old span with a repeated label)|KeyError-for-present-period'
CASE_TIMEOUT = 30



# --------------------------------------------------------------------------- values
NP_SCALARS = {'npf': 'f', 'npi': 'i', 'npb': 'b'}          # fill values given as NumPy scalars (np.float64 / np.int64 / np.bool_)


def _norm(j):
    return j if j is None or j[0] not in NP_SCALARS else [NP_SCALARS[j[0]], j[1]]


def dec_pv(j):
    if j is None:
        return None
    if j[0] in NP_SCALARS:
        import numpy as np
        return {'npf': np.float64, 'npi': np.int64, 'npb': np.bool_}[j[0]](j[1])
    k = j[0]
    if k == 'b':
        return bool(j[1])
    if k == 'i':
        return int(j[1])
    if k == 'f':
        return float(j[1])
    if k == 's':
        return str(j[1])
    raise AssertionError(j)


def c_fl(x):
    x = float(x)
    if x != x:
        return 'FNan'
    if x in (float('inf'), float('-inf')):
        return '(FInf %s)' % lib.cbool(x < 0)
    t = 2 * x
    if t != int(t):
        return None
    return '(FNum %s)' % lib.cZ(int(t))          # exact: a double is a dyadic rational, int() of an integral one is exact


def c_pv(j):
    j = _norm(j)
    if j is None:
        return 'PNone'
    k = j[0]
    if k == 'b':
        return '(PBool %s)' % lib.cbool(j[1])
    if k == 'i':
        return '(PInt %s)' % lib.cZ(j[1])
    if k == 'f':
        f = c_fl(j[1])
        return None if f is None else '(PFlt %s)' % f
    if k == 's':
        return '(PStr %s)' % lc.c_str(j[1])
    raise AssertionError(j)


def enc_cell(x, objmap=None):
    """element of an array (after .tolist()) -> JSON cell code"""
    if x is None:
        return ['none']
    if isinstance(x, bool):
        return ['b', x]
    if isinstance(x, int):
        return ['i', x]
    if isinstance(x, float):
        return ['f', 'nan' if x != x else ('inf' if x == float('inf') else ('-inf' if x == float('-inf') else x))]
    if isinstance(x, str):
        return ['s', x]
    if objmap is not None:
        # an object held by reference: its identity (for the sharing scan and the model's identity tags) and a fingerprint of its
        # VALUE (a deep copy carried over by reindex is another object with the same value)
        try:
            import hashlib
            import pickle
            fp = hashlib.md5(pickle.dumps(x)).hexdigest()[:10]
        except Exception:
            fp = type(x).__name__
        return ['o', objmap.setdefault(id(x), 500 + len(objmap)), fp]
    return ['?', type(x).__name__]


def c_cell(j):
    k = j[0]
    if k == 'none':
        return '(CV PNone)'
    if k == 'b':
        return '(CB %s)' % lib.cbool(j[1])
    if k == 'i':
        return '(CI %s)' % lib.cZ(j[1])
    if k == 'f':
        f = c_fl(j[1])
        return None if f is None else '(CF %s)' % f
    if k == 's':
        return '(CS %s)' % lc.c_str(j[1])
    if k == 'o':
        return '(CO %d)' % j[1]
    return None


def c_dtype(s):
    if s == 'float64':
        return 'DFloat'
    if s == 'int64':
        return 'DInt'
    if s == 'bool':
        return 'DBool'
    if s == 'object':
        return 'DObj'
    if s.startswith('<U'):
        return '(DStr %d%%nat)' % int(s[2:])
    return None


def c_cells(cells):
    out = [c_cell(x) for x in cells]
    return None if any(x is None for x in out) else lib.clist(out)


def c_obj_cell(j):
    """cell of an object-dtype array: a plain Python value (CV) or a reference (CO)"""
    if j[0] == 'o':
        return '(CO %d)' % j[1]
    if j[0] == 'none':
        return '(CV PNone)'
    if j[0] == '?':
        return None
    v = c_pv(j)
    return None if v is None else '(CV %s)' % v


def c_cells_dt(cells, dt):
    if dt != 'object':
        return c_cells(cells)
    out = [c_obj_cell(x) for x in cells]
    return None if any(x is None for x in out) else lib.clist(out)


# --------------------------------------------------------------------------- implementation side
NP_DTYPE = {'float': float, 'int': int, 'bool': bool, 'str': str, 'i32': 'int32', 'u8': 'uint8', 'f32': 'float32'}
ORACLE_ONLY_DTYPES = ('i32', 'u8', 'f32')          # dtypes the Coq model has no tag for: direct oracle only


def _classes():
    import fsic
    from fsic.extensions.model import PandasIndexFeaturesMixin, TracerMixin

    class M(fsic.BaseModel):
        ENDOGENOUS = ['Y']
        EXOGENOUS = ['X']
        NAMES = ENDOGENOUS + EXOGENOUS
        CHECK = ENDOGENOUS
        LAGS = 1
        LEADS = 0

        def _evaluate(self, t, **kwargs):
            self._Y[t] = self._X[t] + 0.5 * self._Y[t - 1]

    class MP(PandasIndexFeaturesMixin, M):
        pass

    class MT(TracerMixin, M):
        pass

    # stacked mixins: aliases, aliases + tracer, pandas reindex + tracer
    from fsic.extensions import AliasMixin

    class MA(AliasMixin, M):
        ALIASES = {'GDP': 'Y', 'INPUT': 'X', 'OUTPUT': 'GDP'}

    class MAT(AliasMixin, TracerMixin, M):
        ALIASES = {'GDP': 'Y', 'INPUT': 'X'}

    class MPT(PandasIndexFeaturesMixin, TracerMixin, M):
        pass
    return {'BM': M, 'BMP': MP, 'BMT': MT, 'BMA': MA, 'BMAT': MAT, 'BMPT': MPT}


TRACED = ('BMT', 'BMAT', 'BMPT')
PANDAS = ('BMP', 'BMPT')
ALIASED = ('BMA', 'BMAT')


def _build(case, span):
    c = _build0(case, span)
    if case.get('user_attrs') and case['cls'] != 'LK':
        c.add_attribute('scenario', 'base')           # an immutable and a mutable (list-valued) user attribute: carried over, not shared
        c.add_attribute('tags', ['a', 'b'])
        # NESTED mutable user attributes: a shallow copy of the attribute would still share what is inside
        c.add_attribute('meta', {'k': [1, 2], 'm': {'z': [3]}})
        c.add_attribute('grid', [[1, 2], [3]])
        if not case.get('obj_strict'):
            c.notes = [{'a': [1]}, ('t', [5])]          # plain attribute assignment (allowed when the object is not strict)
    return c


def _walk(v, seen=None):
    """Every mutable object reachable from v through dict values / keys, list / tuple / set items and object-dtype array elements."""
    import numpy as np
    seen = {} if seen is None else seen
    if id(v) in seen:
        return seen
    if isinstance(v, (list, dict, set, np.ndarray)):
        seen[id(v)] = v
    if isinstance(v, dict):
        for x in v.values():
            _walk(x, seen)
    elif isinstance(v, (list, tuple, set)):
        for x in v:
            _walk(x, seen)
    elif isinstance(v, np.ndarray) and v.dtype == object:
        for x in v.tolist():
            _walk(x, seen)
    return seen


def _build0(case, span):
    import fsic
    n = len(span)
    cls = case['cls']
    if cls == 'VC':
        c = fsic.core.containers.VectorContainer(span, strict=case.get('obj_strict', False))
        for v in case['vars']:
            if v['dtype'] == 'obj':
                c.add_variable(v['name'], None)
                for i, x in enumerate(v['data'][:n]):          # cells holding mutable objects (one list per period)
                    if x is not None:
                        c[v['name']][i] = [dec_pv(x)]
            else:
                c.add_variable(v['name'], [dec_pv(x) for x in v['data'][:n]], dtype=NP_DTYPE[v['dtype']])
        return c
    if cls == 'LK':
        M = _classes()['BM']
        subs = {k: M(span, X=[float(i + 1) for i in range(n)]) for k in ('a', 'b')}
        return fsic.BaseLinker(subs, name='l')
    M = _classes()[cls]
    m = M(span, strict=case.get('obj_strict', False), X=[float(i + 1) for i in range(n)])
    for v in case['vars']:
        m.add_variable(v['name'], [dec_pv(x) for x in v['data'][:n]], dtype=NP_DTYPE[v['dtype']])
    for t in range(1, min(case.get('solved', 0), n - 1) + 1):
        if cls in TRACED:
            m.solve_t(t, trace=True)
        else:
            m.solve_t(t)
    return m


def _snapshot(c, objmap):
    import numpy as np
    out = []
    for name in c.index:
        a = c[name]
        out.append([name, str(a.dtype), [enc_cell(x, objmap) for x in a.tolist()]])
    return out


USER_ATTRS = ('scenario', 'tags', 'meta', 'grid', 'notes')          # added by _build through add_attribute when the case asks for user attributes
PUBLIC_ATTRS = USER_ATTRS + ('strict', 'dtype', 'names', 'lags', 'leads', 'endogenous', 'exogenous', 'parameters', 'errors', 'check', 'engine', 'aliases')


def _canon_attr(v):
    if isinstance(v, (list, tuple)):
        return [_canon_attr(x) for x in v]
    if isinstance(v, dict):
        return sorted([str(k), _canon_attr(x)] for k, x in v.items())
    if isinstance(v, (bool, int, str)) or v is None:
        return v
    if isinstance(v, type):
        return v.__name__
    return str(v)


def _attrs(c):
    """The object's attributes by PUBLIC name and VALUE (no registry order, no reprs that could carry addresses)."""
    out = []
    for k in PUBLIC_ATTRS:
        try:
            out.append([k, _canon_attr(getattr(c, k))])
        except AttributeError:
            pass
    return out


def _meta(c):
    """What else makes up the object besides its series: span labels (in order), variable names, attributes."""
    return {'span': [lc.enc_label(p) for p in c.span], 'index': list(c.index), 'attrs': _attrs(c)}


def _fresh_fsic():
    """Every case starts from freshly imported fsic modules: class-level state left behind by an earlier case in the same worker
    (a leak is itself a defect, exercised on purpose by the `prior` histories) must not make a replay irreproducible."""
    import sys
    for k in [k for k in sys.modules if k == 'fsic' or k.startswith('fsic.')]:
        del sys.modules[k]


def impl(case):
    import numpy as np
    import pandas as pd
    _fresh_fsic()
    old = lc.build_span(case['old'])
    if case.get('chain'):
        # history: the object observed is itself the RESULT of earlier reindex calls (a chain of windows ending at `old`)
        c = _build(case, lc.build_span(case['chain'][0]))
        for sp in case['chain'][1:] + [case['old']]:
            c = c.reindex(lc.build_span(sp))
    else:
        c = _build(case, old)
    new = c.span if case.get('same_span_object') else lc.build_span(case['new'])
    new_spec = case['old'] if case.get('same_span_object') else case['new']
    # history: earlier reindex calls (on this object or on a sibling instance of the same class) must not influence the call observed
    for pr in case.get('prior', []):
        target = c if pr.get('same_object') else _build(case, old)
        kw0 = {}
        if pr.get('fill_value') is not None:
            kw0['fill_value'] = dec_pv(pr['fill_value'])
        for name, v in pr.get('fills', []):
            kw0[name] = dec_pv(v)
        try:
            target.reindex(lc.build_span(pr['new']), **kw0)
        except Exception:
            pass
    objmap = {}
    obs = {}
    before = _snapshot(c, objmap)
    meta_before = _meta(c)
    obs['old_vars'] = before
    obs['old_attrs'] = _attrs(c)
    if lc.is_pandas(case['old']):
        obs['pd'] = lc.record_pandas(old, lc.span_labels(new_spec))
    kw = {}
    if case.get('fill_value') is not None:
        kw['fill_value'] = dec_pv(case['fill_value'])
    if case.get('strict') is not None:
        kw['strict'] = case['strict']
    for name, v in case.get('fills', []):
        kw[name] = dec_pv(v)
    calls = []
    if case['cls'] in PANDAS:
        for k, v in case.get('pandas', {}).items():
            kw[k] = v
        orig_reindex = pd.Series.reindex

        def recording(self, *a, **k):
            key = [[enc_cell(x) for x in self.values.tolist()], k.get('method'), k.get('fill_value')]
            try:
                r = orig_reindex(self, *a, **k)
            except Exception as e:
                calls.append(key + [['raise', type(e).__name__]])
                raise
            calls.append(key + [['ret', [enc_cell(x) for x in r.values.tolist()], r.values]])
            return r
        pd.Series.reindex = recording
    try:
        try:
            r = c.reindex(new, **kw)
            obs['out'] = 'ok'
        except Exception as e:
            r = None
            obs['out'] = ['raise', type(e).__name__]
    finally:
        if case['cls'] in PANDAS:
            pd.Series.reindex = orig_reindex
    # oracle tables for the mixin: what Series.reindex answered, and what `arr[:] = values` makes of it
    if case['cls'] in PANDAS:
        obs['series_calls'] = []
        obs['assign_casts'] = []
        names = [nm for nm in c.names if _var_method(case, nm) is not None]          # (since fix 2658d81 only these go through pandas)
        for i, call in enumerate(calls):
            fv = call[2]
            fvj = None if fv is None else enc_cell(fv)
            dt = c[names[i]].dtype if i < len(names) else None          # the i-th call reindexes Series(self[names[i]])
            if call[3][0] == 'raise':
                obs['series_calls'].append([str(dt), call[0], call[1], fvj, ['raise', call[3][1]]])
                continue
            obs['series_calls'].append([str(dt), call[0], call[1], fvj, ['ret', call[3][1]]])
            if dt is not None:
                arr = np.zeros(len(new), dtype=dt)
                try:
                    with np.errstate(all='ignore'):
                        arr[:] = call[3][2]
                    res = ['ret', [enc_cell(x) for x in arr.tolist()]]
                except Exception as e:
                    res = ['raise', type(e).__name__]
                obs['assign_casts'].append([str(dt), call[3][1], res])
    after = _snapshot(c, objmap)
    obs['orig_unchanged'] = (after == before) and _meta(c) == meta_before          # also when the call raised
    if r is not None:
        obs['same_class'] = type(r) is type(c)
        obs['span_type'] = [type(new).__name__, type(r.span).__name__, str(getattr(new, 'dtype', '')), str(getattr(r.span, 'dtype', ''))]
        obs['span_is_arg'] = r.span is new
        obs['new_labels'] = [lc.enc_label(p) for p in r.span]
        obs['vars'] = _snapshot(r, objmap)
        obs['attrs'] = _attrs(r)
        obs['strict'] = bool(r.strict)
        if case['cls'] in ALIASED:
            try:
                obs['alias_ok'] = bool(r.GDP is r.Y and r['INPUT'] is r['X'] and r.aliases == c.aliases and r.aliases is not c.aliases)
            except Exception as e:
                obs['alias_ok'] = type(e).__name__
        # identity scan: arrays, attribute objects, object cells, the span
        shared = []
        for name in c.index:
            a = c[name]
            for name2 in r.index:
                b = r[name2]
                if a is b or np.shares_memory(a, b):
                    shared.append('array %s/%s' % (name, name2))
            if a.dtype == object and name in r.index:
                ids = {id(x) for x in a.tolist() if x is not None and not isinstance(x, (int, float, str, bool))}
                if any(id(x) in ids for x in r[name].tolist()):
                    shared.append('object cells of %s' % name)
        for k in PUBLIC_ATTRS:
            v, w = getattr(c, k, None), getattr(r, k, None)
            if v is w and isinstance(v, (list, dict, set, np.ndarray)):
                shared.append('attribute %s' % k)
            elif set(_walk(v)) & set(_walk(w)):
                # reachability: no mutable object reachable from the result's attribute may be reachable from the original's
                shared.append('attribute %s (a nested object)' % k)
        if r.span is c.span:
            # an immutable span object (range, tuple, pandas Index) cannot carry state from one object to the other
            shared.append('span' if isinstance(c.span, (list, np.ndarray)) else 'immutable-span')
        obs['shared'] = shared
        # the original must not move when the result is overwritten
        for name in r.index:
            b = r[name]
            if b.dtype != object:
                b[...] = np.zeros(1, dtype=b.dtype)[0] if b.dtype.kind != 'U' else '#'
            else:
                for x in b.tolist():
                    if isinstance(x, list):
                        x.append('#mutated#')          # a shared cell object would carry this into the original
        for k in PUBLIC_ATTRS:
            for x in list(_walk(getattr(r, k, None)).values()):          # in-place edits at every depth of the result's attribute
                if isinstance(x, list):
                    x.append('#mutated#')
                elif isinstance(x, dict):
                    x['#mutated#'] = 1
        if isinstance(r.span, list):
            r.span.append('#mutated#')
        obs['orig_unchanged_after_mutation'] = (_snapshot(c, objmap) == before and _meta(c) == meta_before)
    return obs


# --------------------------------------------------------------------------- Coq side
PREAMBLE = '''From Coq Require Import ZArith List Bool String.
Import ListNotations.
Require Import Fsic.Base.PyBase Fsic.Locate.Locate Fsic.Locate.LocateK Fsic.Locate.Reindex Fsic.Locate.ReindexK.
Open Scope Z_scope.
'''


def c_view(snapshot, with_id):
    items = []
    for k, (name, dt, cells) in enumerate(snapshot):
        d, cs = c_dtype(dt), c_cells_dt(cells, dt)
        if d is None or cs is None:
            return None
        if with_id:
            items.append('(%s, mkSeries %s %d %s)' % (lc.c_str(name), d, 10 + k, cs))
        else:
            items.append('(%s, (%s, %s))' % (lc.c_str(name), d, cs))
    return lib.clist(items)


def c_names(xs):
    return lib.clist(lc.c_str(x) for x in (xs if isinstance(xs, (list, tuple)) else [xs]))


def c_ostr(s):
    return 'None' if s is None else '(Some %s)' % lc.c_str(s)


def c_res(r):
    if r[0] == 'raise':
        return '(Raise %s)' % lc.c_exn(r[1])
    cs = c_cells(r[1])
    return None if cs is None else '(Ret %s)' % cs


def c_parts(case, obs):
    new_spec = case['old'] if case.get('same_span_object') else case['new']
    tbl, ins = lc.c_tables(obs.get('pd', []))
    vars_ = c_view(obs['old_vars'], True)
    if vars_ is None:
        return None
    if obs['out'] == 'ok':
        v = c_view(obs['vars'], False)
        if v is None:
            return None
        exp = '(Ret %s)' % v
    else:
        exp = '(Raise %s)' % lc.c_exn(obs['out'][1])
    fv = c_pv(case.get('fill_value'))
    fills = [(lc.c_str(n), c_pv(v)) for n, v in case.get('fills', [])]
    if fv is None or any(v is None for _, v in fills):
        return None
    cls = case['cls']
    if cls == 'VC':
        kind = 'RContainer'
    elif cls == 'LK':
        kind = 'RLinker'
    elif cls in ('BM', 'BMT', 'BMA', 'BMAT'):
        kind = 'RModel'
    else:
        p = case.get('pandas', {})
        srt, act = [], []
        for sdt, d, m, f, res in obs['series_calls']:
            cd, cr, csdt = c_cells(d), c_res(res), c_dtype(sdt)
            cf = 'PNone' if f is None else {'none': 'PNone'}.get(f[0]) or c_pv(f)
            if cd is None or cr is None or cf is None or csdt is None:
                return None
            srt.append('((%s, %s, %s, %s), %s)' % (csdt, cd, c_ostr(m), cf, cr))
        for dt, d, res in obs['assign_casts']:
            cd, cr, cdt = c_cells(d), c_res(res), c_dtype(dt)
            if cd is None or cr is None or cdt is None:
                return None
            act.append('((%s, %s), %s)' % (cdt, cd, cr))
        kind = '(RPandas %s %s %s %s %s %s %s %s %s)' % (
            c_names(['Y', 'X'] + [v['name'] for v in case['vars']]), c_ostr(p.get('method')),
            c_names(p.get('backfill_', [])), c_names(p.get('bfill_', [])), c_names(p.get('pad_', [])),
            c_names(p.get('ffill_', [])), c_names(p.get('nearest_', [])), lib.clist(srt), lib.clist(act))
    strictarg = 'None' if case.get('strict') is None else '(Some %s)' % lib.cbool(case['strict'])
    return [lc.c_span(case['old']), tbl, ins, vars_, lib.cbool(case.get('obj_strict', False)), kind,
            lc.c_span(new_spec), fv, strictarg, lib.clist('(%s, %s)' % kv for kv in fills), exp,
            lib.cbool(any(x.startswith('object cells') for x in obs.get('shared', []))),
            lib.cbool(any(x == 'span' for x in obs.get('shared', [])))]          # (deepcopy of an immutable range / tuple of atoms is the object itself)


SHARED = {}          # components `let`-bound once per group: none (measured: for these terms `let` sharing is slower than plain repetition)
GROUP = 300


def c_case(case, obs):
    parts = c_parts(case, obs)
    return None if parts is None else '(mkRCase %s)' % ' '.join(parts)


def correspond(cases, obs, tag, tier):
    """Consecutive cases are grouped (one Coq file per group).  The fast pass reports the groups with a disagreement; their cases
    are then re-run so that the indices returned are exact."""
    lc.reset_strings()
    parts, idx, bad = [], [], []
    for i, (c, o) in enumerate(zip(cases, obs)):
        if o.get('timeout') or lc.unrepresentable(o.get('pd', [])):
            bad.append(i)
            continue
        if any(v.get('dtype') in ORACLE_ONLY_DTYPES for v in c['vars']):
            continue                  # oracle-only
        t = c_parts(c, o)
        if t is None:
            bad.append(i)
            continue
        parts.append(t)
        idx.append(i)
    items, members = [], []
    for k in range(0, len(parts), GROUP):
        chunk = parts[k:k + GROUP]
        names, lets, terms = {}, [], []
        for t in chunk:
            t = list(t)
            for pos, ty in SHARED.items():
                key = (ty, t[pos])
                if key not in names:
                    names[key] = 'v%d' % len(names)
                    lets.append('let %s : %s := %s in' % (names[key], ty, t[pos]))
                t[pos] = names[key]
            terms.append('(mkRCase %s)' % ' '.join(t))
        items.append('(%s\n [%s])' % ('\n '.join(lets), ';\n  '.join(terms)))
        members.append(idx[k:k + GROUP])
    pre = PREAMBLE + lc.string_table()
    b, errors = lib.run_coq_cases(tag, pre, items, 'rgbad_indices 0%nat cs', shard=1)
    if errors:
        return sorted(bad), errors
    suspects = [i for g in b for i in members[g]]
    if suspects:
        terms = [c_case(cases[i], obs[i]) for i in suspects]
        b2, errors = lib.run_coq_cases(tag + 'x', pre, terms, 'rbad_indices 0%nat cs', shard=300)
        bad += [suspects[j] for j in b2]
    return sorted(bad), errors


def explain(case, obs):
    lc.reset_strings()
    t = c_case(case, obs)
    if t is None:
        return 'observation not representable in the model'
    return lib.coq_eval('explain_C12', PREAMBLE + lc.string_table(),
                        'match run_rcase %s with Ret st => Ret (view_of st) | Raise e => Raise e end' % t)[-3000:]


# --------------------------------------------------------------------------- the property, directly
def _expected_fill(dt, pv, given):
    """The cell a new period must hold, or 'skip' when the fill value is not a value of the dtype (the statement is silent)."""
    pv = _norm(pv)
    if dt == 'float32':
        dt = 'float64'          # same statement; the palette's float fills (halves, nan, inf) are float32 values
    if dt in ('int32', 'uint8'):
        lo, hi = (-2 ** 31, 2 ** 31) if dt == 'int32' else (0, 256)
        if pv is None:
            return ['i', 0]
        return ['i', pv[1]] if pv[0] == 'i' and lo <= pv[1] < hi else 'skip'
    if pv is None:
        if dt == 'float64':
            return ['f', 'nan']
        if dt == 'int64':
            return ['i', 0]
        if dt == 'bool':
            return ['b', False]
        if dt.startswith('<U'):
            return ['s', '']
        return ['none']
    k = pv[0]
    if dt == 'float64':
        if k in ('i', 'f'):
            x = float(pv[1])
            return ['f', 'nan' if x != x else ('inf' if x == float('inf') else ('-inf' if x == float('-inf') else x))]
        return 'skip'
    if dt == 'int64':
        return ['i', pv[1]] if k == 'i' and abs(pv[1]) < 2 ** 63 else 'skip'
    if dt == 'bool':
        return ['b', pv[1]] if k == 'b' else 'skip'
    if dt.startswith('<U'):
        return ['s', pv[1]] if k == 's' and len(pv[1]) <= int(dt[2:]) else 'skip'
    if dt == 'object':
        return [k, pv[1]] if k in ('b', 'i', 's') else 'skip'          # stored as it is (True stays True, 1 stays 1)
    return 'skip'


def _var_method(case, name):
    """The pandas fill method the mixin applies to a variable (None: the core's result stands), as its `methods` dictionary decides."""
    pd_args = case.get('pandas', {})
    if name in ('status', 'iterations'):
        return None                   # not in `names`: never sent through pandas
    as_list = lambda x: [] if x is None else ([x] if isinstance(x, str) else list(x))
    method = pd_args.get('method')
    for key, m in (('backfill_', 'bfill'), ('bfill_', 'bfill'), ('pad_', 'ffill'), ('ffill_', 'ffill'), ('nearest_', 'nearest')):
        if name in as_list(pd_args.get(key)):
            method = m
    return method


def _method_fill(case, name, dt, p, old_labs, oldd):
    """Expected cell of a NEW period p for a float variable under ffill / bfill (no limit, no tolerance) when the old labels are
    increasing integers; None where this direct reference does not apply."""
    pd_args = case.get('pandas', {})
    if dt != 'float64' or 'limit' in pd_args or 'tolerance' in pd_args or p[0] != 'n':
        return None
    if not all(l[0] == 'n' for l in old_labs) or [l[1] for l in old_labs] != sorted(set(l[1] for l in old_labs)):
        return None
    method = {'pad': 'ffill', 'backfill': 'bfill'}.get(_var_method(case, name), _var_method(case, name))
    if method == 'ffill':
        prev = [i for i, l in enumerate(old_labs) if l[1] < p[1]]
        return oldd[prev[-1]] if prev else ['f', 'nan']
    if method == 'bfill':
        nxt = [i for i, l in enumerate(old_labs) if l[1] > p[1]]
        return oldd[nxt[0]] if nxt else ['f', 'nan']
    return None


def _same_cell(a, b):
    if a[0] == 'o' and b[0] == 'o':
        return a[2:] == b[2:]          # same value; identity is the business of the sharing scan
    if a[0] == 'f' and b[0] == 'f':
        return str(a[1]) == str(b[1]) or (isinstance(a[1], (int, float)) and isinstance(b[1], (int, float)) and float(a[1]) == float(b[1]))
    return a == b


def oracle(case, obs):
    fails = []

    new_spec = case['old'] if case.get('same_span_object') else case['new']

    def bad(site, cls, what):
        fails.append({'sig': 'C12|%s|%s' % (site, cls), 'what': what})
    if obs.get('timeout'):
        bad('any', 'timeout', 'no answer within the watchdog limit')
        return fails
    cls = case['cls']
    if cls == 'LK':
        # BaseLinker.reindex is documented as not implemented: the property does not quantify over linkers; the failed call
        # must still leave the linker as it was
        if not obs['orig_unchanged']:
            bad('BaseLinker.reindex', 'original-changed', 'the linker changed during the (rejected) reindex call')
        return fails
    is_model = cls != 'VC'
    old_labs = [lc.canon(j) for j in lc.span_labels(case['old'])]
    new_labs = [lc.canon(j) for j in lc.span_labels(new_spec)]
    names = [v[0] for v in obs['old_vars']]
    fills = dict((n, v) for n, v in case.get('fills', []))
    strict = case.get('strict') if case.get('strict') is not None else case.get('obj_strict', False)
    unknown = [n for n in fills if n not in names]
    site = 'VectorContainer.reindex' if cls == 'VC' else ('PandasIndexFeaturesMixin.reindex' if cls in PANDAS else 'BaseModel.reindex')
    if not obs['orig_unchanged']:
        bad(site, 'original-changed', 'the original object changed during reindex')
    if strict and unknown:
        if obs['out'] != ['raise', 'KeyError']:
            bad(site, 'unknown-fill-not-rejected', 'strict and unknown fill names %s: expected KeyError, got %s' % (unknown, obs['out']))
        return fails
    dup_old = len(set(old_labs)) != len(old_labs)
    # which variables have a fill the statement determines
    def fill_of(name, dt):
        if is_model and name == 'status':
            pv, given = (fills['status'], True) if 'status' in fills else (['s', '-'], True)
        elif is_model and name == 'iterations':
            pv, given = (fills['iterations'], True) if 'iterations' in fills else (['i', -1], True)
        elif name in fills:
            pv, given = fills[name], True
        else:
            pv, given = case.get('fill_value'), False
        return _expected_fill(dt, pv, given)
    if obs['out'] != 'ok':
        # an exception is legitimate only when some fill value cannot be converted to its variable's dtype,
        # or (duplicate / unhashable-comparison corner of the old span) the lookup itself fails
        convertible = all(fill_of(n, dt) != 'skip' for n, dt, _ in obs['old_vars'])
        # documented exclusion: a NumPy-array old span with a REPEATED label raises KeyError when that label is asked for (the fallback
        # lookup refuses several matches); list / tuple / range old spans never raise for that reason
        excluded = False
        if obs['out'] == ['raise', 'KeyError'] and convertible:
            # kept findings (faces of C10's): a NumPy-array old span cannot look up a repeated label / any label of a datetime64[ns] array
            if dup_old and case['old']['type'] == 'nparr' and any(old_labs.count(p) > 1 for p in new_labs):
                fails.append({'sig': SIG_DUP_ARR, 'what': 'the old NumPy-array span holds a repeated label that the new span asks for: reindex raises KeyError'})
                excluded = True
            elif case['old']['type'] == 'nparr_dt64' and case['old']['unit'] == 'ns' and any(p in old_labs for p in new_labs):
                fails.append({'sig': SIG_DT64, 'what': 'the old span is a datetime64[ns] array: a period present in both spans makes reindex raise KeyError'})
                excluded = True
        # a fill METHOD of the pandas mixin is outside the statement: pandas itself rejects some requests (a non-monotonic index,
        # limit / tolerance it cannot apply, ...) and that exception passes through
        by_method = cls in PANDAS and any(_var_method(case, n) is not None for n in names)
        if convertible and not excluded and not by_method:
            bad(site, 'unexpected-' + obs['out'][1], 'reindex raised %s although every fill value fits its variable' % obs['out'][1])
        return fails
    if not obs['same_class']:
        bad(site, 'class-changed', 'the result is not an instance of the same class')
    st = obs.get('span_type')
    if st and (st[0] != st[1] or st[2] != st[3]):
        bad(site, 'span-type-changed', 'the result\'s span is a %s (%s), the new span given is a %s (%s)' % (st[1], st[3], st[0], st[2]))
    if [lc.canon(j) for j in obs['new_labels']] != new_labs:
        bad(site, 'span-wrong', 'the result\'s span is not the new span')
    if [v[0] for v in obs['vars']] != names:
        bad(site, 'variable-order', 'variables / order changed: %s -> %s' % (names, [v[0] for v in obs['vars']]))
        return fails
    for (name, dt, oldd), (_, dt2, newd) in zip(obs['old_vars'], obs['vars']):
        if dt2 != dt:
            bad(site, 'dtype-changed', '%s: dtype %s -> %s' % (name, dt, dt2))
            continue
        if len(newd) != len(new_labs):
            bad(site, 'length', '%s has %d elements for %d periods' % (name, len(newd), len(new_labs)))
            continue
        fill = fill_of(name, dt)
        for i, p in enumerate(new_labs):
            if old_labs.count(p) > 1:
                continue          # a label repeated in the old span: "its old value" is not defined by the statement
            if p in old_labs:
                exp = oldd[old_labs.index(p)]
                if not _same_cell(newd[i], exp):
                    bad(site, 'overlap-value-lost', '%s[%d] (period present in both spans) is %s, was %s' % (name, i, newd[i], exp))
            elif fill != 'skip' and not _same_cell(newd[i], fill):
                if cls in PANDAS and _var_method(case, name) is not None:
                    # a fill method was requested (outside the property's statement, which speaks of fill VALUES): for ffill / bfill
                    # without limit / tolerance on an increasing integer old span the propagated value is checked directly
                    exp = _method_fill(case, name, dt, p, old_labs, oldd)
                    if exp is not None and not _same_cell(newd[i], exp):
                        bad(site, 'wrong-method-fill', '%s[%d] (new period %s under a fill method) is %s, expected %s' % (name, i, p, newd[i], exp))
                else:
                    bad(site, 'wrong-fill', '%s[%d] (new period) is %s, expected fill %s' % (name, i, newd[i], fill))
    if obs['attrs'] != obs['old_attrs']:
        bad(site, 'attributes', 'attributes differ: %s vs %s' % (obs['attrs'], obs['old_attrs']))
    if obs.get('alias_ok', True) is not True:
        bad(site, 'aliases-lost', 'the aliases of the original do not resolve on the result (or the alias table is shared): %s' % obs.get('alias_ok'))
    if obs['strict'] != case.get('obj_strict', False):
        bad(site, 'strict-flag', 'strict flag not carried over')
    for s in obs['shared']:
        if s == 'span':
            bad(site, 'shared-span', 'result.span is the original\'s (mutable) span object')
        elif s == 'immutable-span':
            pass
        elif s.startswith('object cells'):
            # objects of the ORIGINAL's cells found in the result (the fill value, one object for all new cells, is not the original's)
            bad(site, 'shared-object-cells', s + ' are the same objects in the original and the result')
        else:
            bad(site, 'shared-' + s.split()[0], s + ' is shared between the original and the result')
    if not obs['orig_unchanged_after_mutation']:
        bad(site, 'original-follows-result', 'overwriting the result\'s arrays / lists changed the original')
    return fails


def guard(case, obs):
    """Guard classes of the kept findings: the mixin's fills, object cells, the span object itself."""
    return False          # the model mirrors the kept findings; K stays on everywhere


def nontrivial(case, obs):
    if obs.get('out') != 'ok':
        return True
    new_spec = case['old'] if case.get('same_span_object') else case['new']
    old_labs = [lc.canon(j) for j in lc.span_labels(case['old'])]
    new_labs = [lc.canon(j) for j in lc.span_labels(new_spec)]
    return any(p in old_labs for p in new_labs) and any(p not in old_labs for p in new_labs)


def bucket(case, obs):
    out = obs.get('out')
    return '%s/%s->%s/%s' % (case['cls'], case['old']['type'], case['new']['type'], 'ok' if out == 'ok' else out[1])


def shrink_candidates(case):
    if case.get('prior'):
        c = copy.deepcopy(case)
        del c['prior']
        yield c
    if case.get('chain'):
        c = copy.deepcopy(case)
        del c['chain']
        yield c
    if case.get('fills'):
        for i in range(len(case['fills'])):
            c = copy.deepcopy(case)
            del c['fills'][i]
            yield c
    if case.get('fill_value') is not None:
        c = copy.deepcopy(case)
        c['fill_value'] = None
        yield c
    if len(case['vars']) > 1:
        for i in range(len(case['vars'])):
            c = copy.deepcopy(case)
            del c['vars'][i]
            yield c
    if case['new'].get('labels') and len(case['new']['labels']) > 1:
        for i in range(len(case['new']['labels'])):
            c = copy.deepcopy(case)
            del c['new']['labels'][i]
            yield c


# --------------------------------------------------------------------------- generator
FILL_PALETTE = [None, ['i', 0], ['i', 7], ['i', -3], ['f', 2.5], ['f', -0.5], ['f', 'nan'], ['f', 'inf'], ['f', 4.0], ['b', True], ['b', False],
                ['s', ''], ['s', 'ab'], ['s', 'abcd'], ['s', '12'], ['s', '-3'], ['s', 'x y'], ['i', 2 ** 70], ['f', '-inf']]
STD_VARS = [{'name': 'F', 'dtype': 'float', 'data': [['f', 1.5], ['f', -2.0], ['f', 'nan'], ['f', 4.0], ['f', 5.5], ['f', 6.0]]},
            {'name': 'I', 'dtype': 'int', 'data': [['i', 3], ['i', -4], ['i', 0], ['i', 6], ['i', 7], ['i', 8]]},
            {'name': 'B', 'dtype': 'bool', 'data': [['b', True], ['b', False], ['b', True], ['b', True], ['b', False], ['b', True]]},
            {'name': 'S', 'dtype': 'str', 'data': [['s', 'p'], ['s', 'qq'], ['s', ''], ['s', 'rs'], ['s', 't'], ['s', 'uv']]}]
PER_Y0, PER_Q0, TS_D0 = 30, 118, 946512000000000000


def families():
    """(universe of labels incl. two absent ones at the end, maker of a span spec from a label list or a prefix length)"""
    strs = [['s', x] for x in 'abcdef']
    mixed = [['s', 'a'], ['i', 1], ['p', 2, 3], ['f', 2.5], ['i', 0], ['s', '7']]
    fams = []
    fams.append(('range', [['i', 2000 + i] for i in range(6)], lambda n: {'type': 'range', 'start': 2000, 'step': 1, 'n': n}, 'list'))
    fams.append(('list-str', strs, lambda n: {'type': 'list', 'labels': strs[:n]}, 'list'))
    fams.append(('list-mixed', mixed, lambda n: {'type': 'list', 'labels': mixed[:n]}, 'list'))
    fams.append(('nparr-int', [['i', 5 + i] for i in range(6)], lambda n: {'type': 'nparr', 'labels': [['i', 5 + i] for i in range(n)]}, 'nparr'))
    fams.append(('nparr-str', strs, lambda n: {'type': 'nparr', 'labels': strs[:n]}, 'nparr'))
    fams.append(('pdindex-int', [['i', 5 + 2 * i] for i in range(6)], lambda n: {'type': 'pdindex', 'labels': [['i', 5 + 2 * i] for i in range(n)]}, 'pdindex'))
    fams.append(('period-Y', [['per', 'Y', PER_Y0 + i] for i in range(6)], lambda n: {'type': 'period', 'freq': 'Y', 'start': PER_Y0, 'n': n}, 'pdindex'))
    fams.append(('period-Q', [['per', 'Q', PER_Q0 + i] for i in range(6)], lambda n: {'type': 'period', 'freq': 'Q', 'start': PER_Q0, 'n': n}, 'pdindex'))
    fams.append(('datetime-D', [['ts', TS_D0 + 86400 * 10 ** 9 * i] for i in range(6)], lambda n: {'type': 'datetime', 'freq': 'D', 'start': TS_D0, 'n': n}, 'list'))
    return fams


def fill_config(rng, k, names):
    """rotates through the lattice: fill_value x per-variable fills x unknown names x strict"""
    cfg = {'fill_value': FILL_PALETTE[k % len(FILL_PALETTE)] if k % 3 else None, 'fills': [], 'strict': [None, None, True, False][(k // 2) % 4],
           'obj_strict': (k // 5) % 4 == 0}
    r = k % 7
    if r in (1, 2, 3, 4):
        for name in rng.sample(names, min(len(names), rng.randint(1, 2))):
            cfg['fills'].append([name, rng.choice(FILL_PALETTE)])
    if r in (4, 5):
        cfg['fills'].append(['Z', rng.choice(FILL_PALETTE)])
    return cfg


def compatible_config(rng, k):
    """fills that fit each variable's dtype (so the call succeeds and every clause of the statement is exercised)"""
    per = {'F': [None, ['f', 2.5], ['i', 7], ['f', 'nan'], ['f', -0.5]], 'I': [None, ['i', 7], ['i', -3], ['i', 0]],
           'B': [None, ['b', True], ['b', False]], 'S': [None, ['s', 'ab'], ['s', ''], ['s', 'z']],
           'status': [None, ['s', 'F'], ['s', '.']], 'iterations': [None, ['i', 0], ['i', 9]], 'X': [None, ['f', 2.5]], 'Y': [None, ['i', 1]]}
    cfg = {'fill_value': None, 'fills': [], 'strict': [None, True, False][k % 3], 'obj_strict': k % 4 == 1}
    for name, opts in per.items():
        v = opts[(k // (1 + len(name))) % len(opts)] if rng.random() < 0.6 else None
        if v is not None:
            cfg['fills'].append([name, v])
    return cfg


def gen(rng, tier):
    quick = tier == 'quick'
    max_old, max_new = (3, 3) if quick else (5, 4)
    cases = []
    k = 0
    fams = families()
    for fname, uni, mk, altnew in fams:
        nuni = 4 if quick else 5
        labels = uni[:nuni]
        extra = [uni[-1]] if fname not in ('list-mixed',) else [['s', 'zz']]
        pool = labels + extra
        new_seqs = [list(s) for L in range(0, max_new + 1) for s in itertools.product(range(len(pool)), repeat=L)]
        if not quick:
            new_seqs += [[rng.randrange(len(pool)) for _ in range(5)] for _ in range(300)]
        for n_old in range(0, max_old + 1):
            old = mk(min(n_old, len(uni)))
            for seq in new_seqs:
                new_labels = [pool[i] for i in seq]
                # the new span as a list of labels, or (when it is a run of the family) as the family's own span type
                new = {'type': 'list', 'labels': new_labels}
                if fname.startswith('nparr') and new_labels and rng.random() < 0.5:
                    new = {'type': 'nparr', 'labels': new_labels}
                elif fname.startswith(('pdindex', 'period')) and new_labels and rng.random() < 0.4:
                    new = {'type': 'pdindex', 'labels': new_labels}
                elif seq == list(range(len(seq))) and len(seq) <= len(uni):
                    new = mk(len(seq))
                k += 1
                cls = ['VC', 'VC', 'BM'][k % 3]
                if any(j[0] == 'p' for j in new_labels) and old['type'] == 'nparr':
                    continue
                names = ['F', 'I', 'B', 'S'] + (['status', 'iterations', 'X', 'Y'] if cls == 'BM' else [])
                cfg = compatible_config(rng, k) if k % 2 else fill_config(rng, k, names)
                if cls == 'VC':
                    cfg['fills'] = [f for f in cfg['fills'] if f[0] not in ('status', 'iterations', 'X', 'Y')]
                vars_ = STD_VARS if k % 5 else STD_VARS[k % 4:] + STD_VARS[:k % 4]
                c = {'cls': cls, 'old': old, 'new': new, 'vars': vars_, 'solved': (k // 3) % 4}
                c.update(cfg)
                cases.append(c)
    # old spans with duplicate labels (first match for lists, KeyError for NumPy arrays), pair labels
    for old in ({'type': 'list', 'labels': [['i', 1], ['i', 2], ['i', 1]]}, {'type': 'nparr', 'labels': [['i', 1], ['i', 2], ['i', 1]]},
                {'type': 'list', 'labels': [['s', 'a'], ['b', True], ['i', 1]]}, {'type': 'nparr', 'labels': [['i', 2], ['i', 5]]}):
        for new_labels in ([['i', 1]], [['i', 2], ['i', 3]], [['i', 1], ['i', 2], ['i', 1]], [['p', 2, 3]], [['i', 5], ['i', 2]], []):
            for cls in ('VC', 'BM'):
                cases.append({'cls': cls, 'old': old, 'new': {'type': 'list', 'labels': new_labels}, 'vars': STD_VARS, 'solved': 1,
                              'fill_value': None, 'fills': [], 'strict': None, 'obj_strict': False})
    # the new span is the original's own span object; object-dtype series
    for fname, uni, mk, _ in fams:
        for n in (0, 2, 3):
            for cls in ('VC', 'BM'):
                cases.append({'cls': cls, 'old': mk(n), 'new': mk(n), 'same_span_object': True, 'vars': STD_VARS, 'solved': 2,
                              'fill_value': None, 'fills': [], 'strict': None, 'obj_strict': False})
    for n_old, new_n in itertools.product((1, 3), (0, 2, 4)):
        for fv in (None, ['i', 3], ['s', 'ab']):
            cases.append({'cls': 'VC', 'old': fams[0][2](n_old), 'new': fams[0][2](new_n), 'fill_value': fv, 'fills': [], 'strict': None, 'obj_strict': False,
                          'vars': [{'name': 'O', 'dtype': 'obj', 'data': []}] + STD_VARS[:1]})
    # tracer-extended model (object cells holding Trace objects)
    for n_old, new_n, solved in itertools.product((3, 4), (2, 4, 5), (0, 2)):
        cases.append({'cls': 'BMT', 'old': fams[0][2](n_old), 'new': fams[0][2](new_n), 'vars': [], 'solved': solved,
                      'fill_value': None, 'fills': [], 'strict': None, 'obj_strict': False})
    # stacked mixins: aliases, aliases + tracer (object cells: finding #21), pandas reindex + tracer; the result keeps the class
    sk = 0
    for cls in ('BMA', 'BMAT', 'BMPT'):
        for fname, uni, mk, _ in fams[:2] + fams[6:7]:
            for n_old, n_new, solved in itertools.product((3, 4), (2, 4, 5), (0, 2)):
                sk += 1
                c = {'cls': cls, 'old': mk(n_old), 'new': mk(n_new) if sk % 3 else {'type': 'list', 'labels': [uni[i] for i in (n_new, 1, 0)]},
                     'vars': [[], STD_VARS[:2], STD_VARS[2:]][sk % 3], 'solved': solved, 'fill_value': [None, None, ['f', 2.5]][sk % 3] if cls != 'BMPT' else None,
                     'fills': [], 'strict': [None, True, False][sk % 3], 'obj_strict': sk % 4 == 0}
                if cls == 'BMPT':
                    c['pandas'] = {}
                elif sk % 2:
                    c['fills'] = [['Y', ['f', -0.5]], ['iterations', ['i', 0]]]
                cases.append(c)
    # boundaries of the conversions: int64 limits (largest / smallest value, one beyond), str fills of exactly / one more than the width
    for cls in ('VC', 'BM'):
        for vname, vi, vals in (('I', 1, [['i', 2 ** 63 - 1], ['i', -2 ** 63], ['i', 2 ** 63], ['i', -2 ** 63 - 1], ['f', 2.5], ['f', -0.5], ['b', True]]),
                                ('S', 3, [['s', 'ab'], ['s', 'abc'], ['s', 'a'], ['i', 12], ['i', 123]])):
            for v in vals:
                base = {'cls': cls, 'old': fams[0][2](2), 'new': fams[0][2](3), 'vars': STD_VARS[vi:vi + 1], 'solved': 0, 'strict': None, 'obj_strict': False}
                cases.append(dict(base, fill_value=None, fills=[[vname, v]]))
                cases.append(dict(base, old=fams[0][2](1), new=fams[0][2](0), fill_value=None, fills=[[vname, v]]))
    # tuples as old / new spans; numeric aliases of labels in the new span (2001.0 for 2001: the same period under Python equality)
    tk = 0
    for old_labels in ([['i', 2000], ['i', 2001], ['i', 2002]], [['s', 'a'], ['s', 'b']]):
        for new_labels in ([old_labels[1], old_labels[0], ['i', 7]], list(reversed(old_labels)), [['s', 'zz']] + old_labels, []):
            for ot, nt in (('tuple', 'tuple'), ('tuple', 'list'), ('list', 'tuple')):
                for cls in ('VC', 'BM'):
                    tk += 1
                    cases.append({'cls': cls, 'old': {'type': ot, 'labels': old_labels}, 'new': {'type': nt, 'labels': new_labels}, 'vars': STD_VARS,
                                  'solved': tk % 3, 'fill_value': [None, ['i', 3]][tk % 2] if cls == 'VC' else None, 'fills': [], 'strict': None, 'obj_strict': False})
    for ot in ('range', 'list', 'nparr'):
        old = fams[0][2](3) if ot == 'range' else {'type': ot, 'labels': [['i', 2000 + i] for i in range(3)]}
        for cls in ('VC', 'BM'):
            cases.append({'cls': cls, 'old': old, 'new': {'type': 'list', 'labels': [['f', 2001.0], ['i', 2005], ['f', 2000.0], ['f', 2000.5]]}, 'vars': STD_VARS,
                          'solved': 1, 'fill_value': None, 'fills': [], 'strict': None, 'obj_strict': False})
    # object-dtype series whose cells hold mutable objects (lists): carried over as copies, never shared
    for n_old, new_labels in itertools.product((2, 3), ([0, 1, 2, 3], [2, 1], [1, 1, 0], [3], [])):
        for fv in (None, ['i', 3]):
            for cls in ('VC',):
                cases.append({'cls': cls, 'old': fams[0][2](n_old), 'new': {'type': 'list', 'labels': [['i', 2000 + i] for i in new_labels]}, 'fill_value': fv, 'fills': [],
                              'strict': None, 'obj_strict': False,
                              'vars': [{'name': 'O', 'dtype': 'obj', 'data': [['i', 7], None, ['s', 'x']]}] + STD_VARS[:1]})
    # other widths of the same kinds (np.issubdtype must accept them): int32, uint8, float32 — oracle-only
    wide = [{'name': 'J', 'dtype': 'i32', 'data': [['i', 3], ['i', -4], ['i', 0], ['i', 6]]}, {'name': 'U', 'dtype': 'u8', 'data': [['i', 3], ['i', 4], ['i', 0], ['i', 255]]},
            {'name': 'G', 'dtype': 'f32', 'data': [['f', 1.5], ['f', -2.0], ['f', 'nan'], ['f', 4.0]]}]
    for cls in ('VC', 'BM'):
        for n_old, new_labels in itertools.product((2, 3), ([0, 1, 2, 3], [2, 0], [3, 3])):
            for fv, fl in ((None, []), (['i', 7], []), (None, [['J', ['i', -3]], ['U', ['i', 9]], ['G', ['f', 2.5]]]), (['f', 2.5], [['J', ['i', 5]], ['U', ['i', 1]]])):
                if cls == 'BM' and fv is not None and fv[0] == 'i':
                    continue
                cases.append({'cls': cls, 'old': fams[0][2](n_old), 'new': {'type': 'list', 'labels': [['i', 2000 + i] for i in new_labels]}, 'vars': wide, 'solved': 1,
                              'fill_value': fv if cls == 'VC' or fv is None else None, 'fills': fl, 'strict': None, 'obj_strict': False})
    # fill values given as NumPy scalars
    for cls in ('VC', 'BM'):
        for fl in ([['F', ['npf', 2.5]], ['I', ['npi', 7]], ['B', ['npb', True]]], [['F', ['npi', 7]], ['I', ['npf', 2.0]], ['S', ['npi', 12]]], [['B', ['npb', False]], ['I', ['npb', True]]]):
            for n_old, n_new in ((2, 3), (1, 3)):
                cases.append({'cls': cls, 'old': fams[0][2](n_old), 'new': fams[0][2](n_new), 'vars': STD_VARS, 'solved': 1, 'fill_value': None, 'fills': fl,
                              'strict': None, 'obj_strict': False})
        cases.append({'cls': 'VC', 'old': fams[0][2](2), 'new': fams[0][2](3), 'vars': STD_VARS[:1], 'solved': 0, 'fill_value': ['npf', -0.5], 'fills': [], 'strict': None, 'obj_strict': False})
    # longer spans (nothing may depend on the spans being short): shifted, reversed, interleaved
    long_vars = [{'name': 'F', 'dtype': 'float', 'data': [['f', 0.5 * i - 2.0] for i in range(12)]}, {'name': 'I', 'dtype': 'int', 'data': [['i', 3 * i - 7] for i in range(12)]}]
    for typ, mklab in (('list', lambda i: ['i', 2000 + i]), ('list', lambda i: ['s', 'q%02d' % i]), ('nparr', lambda i: ['i', 5 + i]), ('pdindex', lambda i: ['per', 'Y', PER_Y0 + i])):
        big = [mklab(i) for i in range(14)]
        old_spec = {'type': typ, 'labels': big[2:12]}
        for new_labels in (big[0:12], big[4:14], list(reversed(big[2:12])), big[2:12:2] + big[3:12:2], big[5:8]):
            for cls in ('VC', 'BM'):
                cases.append({'cls': cls, 'old': old_spec, 'new': {'type': typ if typ != 'pdindex' else 'list', 'labels': new_labels}, 'vars': long_vars, 'solved': 3,
                              'fill_value': None, 'fills': [], 'strict': None, 'obj_strict': False})
    # NumPy datetime64 array old spans: [D] works, [ns] is the kept finding (KeyError for every period present in both spans)
    for unit, start, step in (('ns', 946512000000000000, 86400 * 10 ** 9), ('D', 10955, 1)):
        for n_old in (0, 2, 3):
            oldspec = {'type': 'nparr_dt64', 'unit': unit, 'start': start, 'step': step, 'n': n_old}
            labs = [['d64', unit, start + step * i] for i in range(5)]
            for new in ({'type': 'nparr_dt64', 'unit': unit, 'start': start, 'step': step, 'n': n_old}, {'type': 'nparr_dt64', 'unit': unit, 'start': start + step, 'step': step, 'n': 3},
                        {'type': 'list', 'labels': [labs[4], labs[3]]}, {'type': 'list', 'labels': [labs[1], labs[4], labs[0]]}, {'type': 'list', 'labels': []}):
                for cls in ('VC', 'BM'):
                    cases.append({'cls': cls, 'old': oldspec, 'new': new, 'vars': STD_VARS[:2], 'solved': 1, 'fill_value': None, 'fills': [], 'strict': None, 'obj_strict': False})
    # user attributes (add_attribute): carried over to the result by value, list-valued ones not shared
    uk = 0
    for fname, uni, mk, _ in fams[:2] + fams[3:4] + fams[6:7]:
        for n_old, n_new in ((2, 3), (3, 2), (0, 2)):
            for cls in ('VC', 'BM', 'BMP', 'BMA'):
                uk += 1
                c = {'cls': cls, 'old': mk(n_old), 'new': mk(n_new), 'vars': STD_VARS[:2], 'solved': uk % 3, 'fill_value': None, 'fills': [], 'strict': [None, True][uk % 2],
                     'obj_strict': uk % 3 == 0, 'user_attrs': True}
                if cls == 'BMP':
                    c['pandas'] = {}
                cases.append(c)
    # labels of DIFFERENT types whose text coincides: '2003' (also ' 2003', '+2003', '2003.0') is not the period 2003 — by label equality
    # the spans are disjoint and every such period takes the fill (no cast of a string label to an int, as eval() does for backticks)
    xk = 0
    ints = [['i', 2000 + i] for i in range(5)]
    olds = [{'type': 'range', 'start': 2000, 'step': 1, 'n': 5}, {'type': 'list', 'labels': ints}, {'type': 'tuple', 'labels': ints[:4]},
            {'type': 'nparr', 'labels': ints}, {'type': 'pdindex', 'labels': ints}]
    news = [('list', [['s', '2003'], ['s', '2004'], ['s', '2005']]), ('tuple', [['s', '2001'], ['s', '2000']]), ('nparr', [['s', '2002'], ['s', '2003'], ['s', '1999']]),
            ('list', [['s', '2003'], ['i', 2004], ['s', ' 2001'], ['s', '+2002'], ['s', '2000.0']]), ('list', [['i', 2001], ['s', '2001'], ['f', 2002.0]]),
            ('list', [['s', '2004']])]
    for oldspec in olds:
        for nt, nl in news:
            for cls in ('VC', 'BM', 'BMP'):
                xk += 1
                c = {'cls': cls, 'old': oldspec, 'new': {'type': nt, 'labels': nl}, 'vars': STD_VARS, 'solved': 2 + xk % 2, 'fill_value': None,
                     'fills': [[], [['F', ['f', 2.5]], ['I', ['i', 7]]]][xk % 2], 'strict': None, 'obj_strict': False}
                if cls == 'BMP':
                    c['pandas'] = {}
                cases.append(c)
    # ... and the other way round: string-labelled old spans, integer new labels
    for oldspec in ({'type': 'list', 'labels': [['s', '2000'], ['s', '2001'], ['s', '2002']]}, {'type': 'nparr', 'labels': [['s', '2000'], ['s', '2001'], ['s', '2002']]}):
        for nl in ([['i', 2001], ['i', 2002], ['i', 2003]], [['s', '2001'], ['i', 2001]]):
            for cls in ('VC', 'BM'):
                cases.append({'cls': cls, 'old': oldspec, 'new': {'type': 'list', 'labels': nl}, 'vars': STD_VARS, 'solved': 1, 'fill_value': None, 'fills': [],
                              'strict': None, 'obj_strict': False})
    # linkers: reindex is documented as not implemented (NotImplementedError whatever the arguments)
    for n_old, n_new in ((2, 3), (3, 2), (0, 1)):
        for fv, fl in ((None, []), (['f', 2.5], []), (None, [['status', ['s', 'F']]])):
            cases.append({'cls': 'LK', 'old': fams[0][2](n_old), 'new': fams[0][2](n_new), 'vars': [], 'solved': 0, 'fill_value': fv, 'fills': fl,
                          'strict': None, 'obj_strict': False})
    # histories: an earlier reindex call with per-variable fills / a fill_value, on the same object or on a sibling instance of
    # the same class, then the call under observation with other (or no) fill arguments
    hk = 0
    prior_fills = [[['F', ['f', 2.5]], ['I', ['i', 7]]], [['status', ['s', 'F']], ['iterations', ['i', 9]]], [['X', ['f', 9.0]], ['S', ['s', 'z']], ['B', ['b', True]]]]
    for fname, uni, mk, _ in fams[:2] + fams[3:4] + fams[6:7]:
        for n_old, n_new in ((2, 3), (3, 4), (1, 2)):
            for cls in ('BM', 'VC', 'BMP'):
                for pf in prior_fills:
                    for same in (False, True):
                        hk += 1
                        names = ['F', 'I', 'B', 'S'] + (['status', 'iterations', 'X', 'Y'] if cls != 'VC' else [])
                        pr = {'new': mk(n_new), 'fills': [f for f in pf if f[0] in names], 'fill_value': [None, ['i', 3]][hk % 2], 'same_object': same}
                        c = {'cls': cls, 'old': mk(n_old), 'new': mk(n_new) if hk % 3 else {'type': 'list', 'labels': [uni[i] for i in (n_new, 0)]},
                             'vars': STD_VARS, 'solved': hk % 3, 'fill_value': None, 'fills': [], 'strict': None, 'obj_strict': False, 'prior': [pr]}
                        if cls == 'BMP':
                            c['pandas'] = {}
                        if hk % 4 == 0:
                            c['fills'] = [['F', ['f', -0.5]]]
                        cases.append(c)
    # reindex chains: the object observed is the result of reindexing through same-length shifted windows (and other windows)
    ck = 0
    for fname, uni, mk, _ in fams[:2] + fams[3:4] + fams[5:7] + fams[8:9]:
        def win(a, n):
            return {'type': {'range': 'list', 'list-str': 'list', 'nparr-int': 'nparr', 'pdindex-int': 'pdindex', 'period-Y': 'pdindex', 'datetime-D': 'list'}[fname], 'labels': uni[a:a + n]}
        for chain, oldw, neww in (([mk(3)], win(1, 3), win(2, 3)), ([mk(3)], win(1, 3), win(0, 3)), ([mk(3), win(1, 3)], win(2, 3), win(1, 3)),
                                  ([mk(4)], win(2, 3), win(0, 4)), ([mk(2)], win(1, 2), win(0, 3)), ([mk(3)], win(1, 3), mk(3))):
            for cls in ('VC', 'BM', 'BMP'):
                ck += 1
                c = {'cls': cls, 'chain': chain, 'old': oldw, 'new': neww, 'vars': STD_VARS, 'solved': ck % 3, 'fill_value': None, 'fills': [], 'strict': None, 'obj_strict': False}
                if cls == 'BMP':
                    c['pandas'] = {}
                elif ck % 2:
                    c['fills'] = [['F', ['f', -0.5]]]
                cases.append(c)
    # equal-but-different fill values in ONE process (1 == 1.0 == True, 0 == False == 0.0): an earlier call with one of them, then the call
    # observed with another; per dtype incl. object (stored as given), str and status (converted by str())
    eq_classes = [[['b', True], ['i', 1], ['f', 1.0]], [['i', 0], ['b', False], ['f', 0.0]]]
    for ecls in eq_classes:
        for first, second in itertools.permutations(ecls, 2):
            for vname, cls in (('O', 'VC'), ('S', 'VC'), ('I', 'VC'), ('F', 'VC'), ('B', 'VC'), ('status', 'BM'), ('iterations', 'BM'), ('S', 'BM')):
                for same in (False, True):
                    vars_ = [{'name': 'O', 'dtype': 'obj', 'data': []}] + STD_VARS[:1] if vname == 'O' else STD_VARS
                    pr = {'new': fams[0][2](3), 'fills': [[vname, first]], 'fill_value': None, 'same_object': same}
                    cases.append({'cls': cls, 'old': fams[0][2](2), 'new': fams[0][2](3), 'vars': vars_, 'solved': 0, 'fill_value': None, 'fills': [[vname, second]],
                                  'strict': None, 'obj_strict': False, 'prior': [pr]})
            for same in (False, True):
                pr = {'new': fams[0][2](3), 'fills': [], 'fill_value': first, 'same_object': same}
                cases.append({'cls': 'VC', 'old': fams[0][2](2), 'new': fams[0][2](3), 'vars': [{'name': 'O', 'dtype': 'obj', 'data': []}] + STD_VARS, 'solved': 0,
                              'fill_value': second, 'fills': [], 'strict': None, 'obj_strict': False, 'prior': [pr]})
    # falsy fill values (0, 0.0, False, '') are values, not "nothing given": as per-variable keyword over a truthy fill_value, and as fill_value
    falsy = [('F', ['f', 0.0], ['f', 2.5]), ('I', ['i', 0], ['i', 7]), ('B', ['b', False], ['b', True]), ('S', ['s', ''], ['s', 'ab'])]
    for vi, (vname, fz, truthy) in enumerate(falsy):
        for cls in ('VC', 'BM'):
            for n_old, n_new in ((1, 3), (2, 3)):
                base = {'cls': cls, 'old': fams[0][2](n_old), 'new': fams[0][2](n_new), 'vars': STD_VARS[vi:vi + 1], 'solved': 1, 'strict': None, 'obj_strict': False}
                cases.append(dict(base, fill_value=truthy if cls == 'VC' else None, fills=[[vname, fz]]))
                cases.append(dict(base, fill_value=fz if cls == 'VC' else None, fills=[]))
                cases.append(dict(base, fill_value=fz if cls == 'VC' else None, fills=[[vname, truthy]]))
                if cls == 'BM':
                    cases.append(dict(base, fill_value=None, fills=[['iterations', ['i', 0]], ['status', ['s', '']]]))
    # the pandas mixin: default arguments, explicit fills, fill methods
    pk = 0
    for fname, uni, mk, _ in fams:
        if fname in ('list-mixed',):
            continue
        for n_old, n_new in itertools.product((0, 2, 3), (0, 1, 3, 4)):
            for variant in range(6 if quick else 12):
                pk += 1
                c = {'cls': 'BMP', 'old': mk(n_old), 'new': mk(n_new), 'solved': pk % 3, 'fill_value': None, 'fills': [], 'strict': None,
                     'obj_strict': False, 'pandas': {}, 'vars': [[], STD_VARS[:1], STD_VARS[1:2], STD_VARS[2:3], STD_VARS[3:], STD_VARS][variant % 6]}
                if variant >= 6 or pk % 4 == 0:
                    c['new'] = {'type': 'list', 'labels': [uni[i] for i in rng.sample(range(len(uni)), min(len(uni), n_new))]}
                r = pk % 8
                if r == 1:
                    c['fill_value'] = ['f', 2.5]
                elif r == 2:
                    c['fills'] = [['X', ['f', 9.0]], ['I', ['i', 7]], ['S', ['s', 'z']], ['B', ['b', True]]]
                    c['fills'] = [f for f in c['fills'] if f[0] in ['X'] + [v['name'] for v in c['vars']]]
                elif r == 3 and fname in ('range', 'pdindex-int', 'nparr-int'):
                    c['pandas'] = {'method': rng.choice(['ffill', 'bfill', 'nearest'])}
                elif r == 4 and fname in ('range', 'pdindex-int', 'nparr-int'):
                    c['pandas'] = {rng.choice(['ffill_', 'pad_', 'bfill_', 'backfill_', 'nearest_']): rng.choice(['X', ['X', 'Y']])}
                elif r == 7 and fname in ('range', 'pdindex-int', 'nparr-int'):
                    c['pandas'] = [{'method': 'ffill', 'limit': 1}, {'method': 'nearest', 'tolerance': 1}, {'method': 'bfill', 'limit': 2, 'copy': False}][pk % 3]
                elif r == 5:
                    c['fills'] = [['Z', ['i', 1]]]
                    c['strict'] = rng.choice([None, True, False])
                elif r == 6:
                    c['fills'] = [['status', ['s', 'F']]]
                    c['strict'] = rng.choice([True, False])
                cases.append(c)
    return cases
