"""C14 — layout of the script does not matter; the normal form is a fixed point.

Cases:  {'k': 'meta', 'stmts': [plain statements], 'var': transformed script, 'strict': bool, 'feats': [...], 'flags': [...],
         'perm': [indices] | None, 'skipfix': [names]}
            a program rendered from generated syntax trees (generator of props/C20.py) twice: in a base layout (compact, or with
            one blank at every operator gap when strict) and under transformations of the catalogue
        {'k': 's', 's': script}            any script: statement independence and fixed point only
Observation (real code only): parse_model of the base script, of the transformed script, of every statement alone, and of the
de-normalised equation of every endogenous symbol; ast.dump of every generated code line.
K  = extracted parser model (parse_model_nocheck, coq/Extract/Graph driver) vs fsic.parse_model(check_syntax=False) on the base
     script, the transformed script and every statement: every field of every Symbol / exception class; and the domain of the
     fixed-point theorem: every real normalised equation, read back by the extracted GTokenise.tokenise, passes the extracted
     Denorm.dq_ok and GraphSrcWf.sep_ok, Denorm.neq_code reproduces the code, and Denorm.denorm_text is the text the oracle feeds back.
O  = the metamorphic relations of the property on the real observations (see `oracle`)."""
import json
import re

import lib
import parser_common as pc
from props import C20 as G

ID = 'C14'
PROPS_FILE = 'Props/C14.v'
MODEL_FILES = ['Parser/PyStr.v', 'Parser/Lex.v', 'Parser/Format.v', 'Parser/Symbols.v', 'Parser/Split.v', 'Parser/Merge.v', 'Parser/ParseEq.v',
               'Parser/ParseModel.v', 'Graph/GLex.v', 'Graph/GNorm.v', 'Graph/Graph.v', 'Layout/Denorm.v', 'Extract/Graph/ExtractGraph.v']
K_NAME = ('K_parse_layout (extracted Parser.ParseModel.parse_model_nocheck vs fsic.parse_model(check_syntax=False) on base script, transformed '
          'script and every statement alone: outcome class + every Symbol field) + K_fixed_domain (extracted Denorm.dq_ok accepts every real '
          'normalised equation of the generated grammar; neq_text / neq_code / denorm_text reproduce equation, code and the fed-back text)')
RULE = ('programs of 1-4 equations from random syntax trees (as C20), each rendered in a base layout and under the catalogue: blanks '
        'inserted / multiplied at operator gaps, blanks after "(" / before ")" / before a call bracket, blanks inside { } < > [ ], explicit [0] '
        '(also on the left-hand side), +k for leads, continuation lines inside parentheses, trailing comments, comment and blank lines, '
        'statement permutation; single transformations and random compositions; strict cases (same gaps non-empty) must give identical '
        'equation and code strings, the others identical Symbol fields and ast-equal code.  Flagged transformations: blank before the '
        'index bracket (#20), blank inside the left-hand index bracket (#22).  Programs with a ``` fence opened and never closed between two '
        'statements must be rejected with ParserError (fix 85765d5).  Plus scripts of '
        'the parser_common generator and their mutations (independence + fixed point).  Non-trivial = base accepted with >= 1 equation '
        'and the transformed text differs from the base; distinct by hash of the case.')
TRUSTED = ['extraction of the parser model, GTokenise.tokenise and Denorm.dq_ok / denorm_text / neq_code to OCaml (ExtrOcamlBasic + ExtrOcamlString only) and coq/Extract/Graph/driver.ml',
           'harness/parser_common.py encoders', "CPython's ast.parse / ast.dump as the meaning of a generated code line"]
ASSUMPTIONS = ['input strings are Latin-1',
               'statement-level theorems (fixed point; blanks inside { } < > [ ]; "+" of a lead; explicit [0]; runs of blanks and tabs; '
               'continuation lines) speak about statements NAME[k] = rhs given as token lists with a layout, under the decidable conditions '
               'Denorm.dq_ok / dq_ok_ws; that the equations fsic produces are of this form is checked per case by K_fixed_domain (the model reads '
               'the real equation back with its own GTokenise.tokenise and evaluates dq_ok on it); it is proved for the normal form of every source '
               'statement under dq_ok_ws + sep_ok (C14_normal_form_in_fixed_point_domain, C14_normal_form_reparses: whatever the layout, the '
               'normal form is a fixed point), not for arbitrary accepted text',
               'script-level theorems (comments, blank lines, statement independence, permutation) are about parse_model itself, for all scripts '
               'whose blocks end between statements (decidable premises, instances in Props/C14.v)',
               '"meaning of the generated code" = ast.dump(ast.parse(code)) (CPython); for layouts that open or close a gap (`Y=X` / `Y = X`) the '
               'theorem C14_gaps_same_tokens gives the same terms / symbols and texts equal up to blank tokens, the step to "same Python code" is this oracle',
               'no statement-level theorem (K_parse_layout + oracle only) for: blanks between a function name and "(", comments / blank lines on a '
               'non-final continuation line, line separators other than \\n inside round brackets, tuple targets, any "#" inside the statement; '
               'script-level theorems (g)/(h) are for check_syntax=False',
               'K compares every Symbol field and the exception class with the model (stricter than the property: a harmless change of an exception '
               'class or of the symbol order shows up as a K disagreement, not as an oracle violation)',
               'the oracle compares parse(script) with a reference merge of the statement parses written from the documented rules; the '
               'theorems are parse = merge(map parse_equation statements) and the order-independence of that merge (C14_statements_permute)']
EXHAUSTIVE = {'quick': False, 'thorough': False}
CASE_TIMEOUT = 60
SOURCES = ['parser.py']

FEATS = ['ws', 'paren', 'call', 'inner', 'zero', 'sign', 'cont', 'comment', 'blank']


# --------------------------------------------------------------------------- rendering
class Lay:
    """feats = transformations switched on; strict = operator gaps hold one blank in the base layout and stay non-empty"""

    def __init__(self, rng, feats, strict, var):
        self.rng, self.feats, self.strict, self.is_var = rng, set(feats) if var else set(), strict, var
        self.flags = set()
        self.depth = 0

    def on(self, f, p=0.5):
        return f in self.feats and self.rng.random() < p

    def gap(self, must=False):
        """operator gap"""
        base = ' ' if (self.strict or must) else ''
        out = base
        if self.on('ws'):
            if base:
                out = self.rng.choice([' ', '  ', '\t', ' \t ', '   ', '\xa0', '\x1f '])      # every \s of re that is no line boundary of str.splitlines() counts as a blank
            else:
                out = self.rng.choice(['', ' ', '  '])
                if out:
                    self.flags.add('gap-opened')
        if self.depth > 0 and self.on('cont', 0.2):
            if not out:
                self.flags.add('gap-opened')
            # str.splitlines() also breaks at \r\n, \r, form feed, \x1c-\x1e, \x85: the lines are re-joined with \n
            nlc = self.rng.choice(['\n', '\n', '\n', '\r\n', '\x0c', '\r', '\x85', '\x1d'])
            if self.rng.random() < 0.15:
                # a comment at the end of a non-final continuation line (with brackets in it), a blank or comment-only line inside the brackets
                nlc = self.rng.choice(['  # c (\n', ' # note )\n', '\n\n', '\n   \n', '\n  # note\n', '\n#(\n'])
            out = out + nlc + self.rng.choice(['    ', '\t', ' ', '', ''])        # also continuation lines that start in column 0
        return out

    def free(self):
        """after "(" / before ")": any blanks are removed by the normaliser"""
        out = ''
        if self.on('paren', 0.4):
            out = self.rng.choice([' ', '  ', '\t'])
        if self.depth > 0 and self.on('cont', 0.1):
            out += self.rng.choice(['\n  ', '\n', '\n\t'])
        return out

    def index(self, idx, lhs=False):
        rng = self.rng
        if isinstance(idx, int):
            if idx == 0 and not self.on('zero', 0.5):
                return ''
            body = ('+%d' % idx) if (idx > 0 and self.on('sign', 0.6)) else '%d' % idx
            if idx == 0 and self.is_var and rng.random() < 0.3:
                body = rng.choice(['+0', '-0', '00', '0_0'])         # other spellings int() reads as 0
        else:
            body = idx
        if 'isb' in self.feats and not lhs and isinstance(idx, int) and idx != 0 and body[0] in '+-':
            body = body[0] + ' ' + body[1:]          # a blank between the sign and the digits
            self.flags.add('index-sign-blank')
        if self.on('inner', 0.5):
            if lhs:
                if 'lhsinner' in self.feats:
                    body = ' ' + body + ' '
                    self.flags.add('lhs-index-inner-space')
            else:
                body = rng.choice([' ', '  ', '\t', '\t ']) + body + rng.choice([' ', '', '\t'])
        elif lhs and 'lhsinner' in self.feats:
            body = ' ' + body + ' '
            self.flags.add('lhs-index-inner-space')
        pre = ''
        if 'sbi' in self.feats and not lhs and rng.random() < 0.5:
            pre = ' '
            self.flags.add('space-before-index')
        return pre + '[' + body + ']'

    def var(self, kind, nm, idx, lhs=False):
        sp = (lambda: self.rng.choice(['', ' ', '  ', '\t', ' \t'])) if self.on('inner', 0.6) else (lambda: '')
        if kind == 'p':
            base = '{' + sp() + nm + sp() + '}'
        elif kind == 'e':
            base = '<' + sp() + nm + sp() + '>'
        else:
            base = nm
        return base + self.index(idx, lhs)

    def expr(self, t):
        k = t[0]
        if k == 'var':
            return self.var(t[1], t[2], t[3])
        if k == 'num':
            return t[1]
        if k == 'verb':
            return '`' + t[1] + '`'
        if k == 'neg':
            sp = ''
            if self.on('ws', 0.3):
                sp = ' '
                self.flags.add('gap-opened')
            return '-' + sp + self.atom(t[1])
        if k == 'par':
            return self.paren(t[1])
        if k == 'bin':
            return self.atom(t[2]) + self.gap() + t[1] + self.gap() + self.atom(t[3])
        if k == 'call':
            self.depth += 1
            inner = (',' + self.gap()).join(self.expr(a) for a in t[2])
            fname = t[1]
            if 'dot' in self.feats and '.' in fname:
                fname = fname.replace('.', self.rng.choice([' .', '. ', ' . ']), 1)        # a blank next to the dot of np.sqrt
                self.flags.add('dotted-name-blank')
            s = fname + (self.rng.choice([' ', ' ', '\t', '  ', ' \t']) if self.on('call', 0.4) else '') + '(' + self.free() + inner + self.free() + ')'
            self.depth -= 1
            return s
        if k == 'if':
            return (self.atom(t[1]) + self.gap(True) + 'if' + self.gap(True) + self.atom(t[2]) + self.gap(True) + t[3] + self.gap(True)
                    + self.atom(t[4]) + self.gap(True) + 'else' + self.gap(True) + self.atom(t[5]))
        raise ValueError(k)

    def paren(self, t):
        self.depth += 1
        s = '(' + self.free() + self.expr(t) + self.free() + ')'
        self.depth -= 1
        return s

    def atom(self, t):
        if t[0] in ('var', 'num', 'call', 'par', 'verb'):
            return self.expr(t)
        return self.paren(t)

    def lhs_index(self, ly):
        body = ('+%d' % ly) if (ly > 0 and self.on('sign', 0.5)) else '%d' % ly
        if 'lhsinner' in self.feats:
            body = ' ' + body + ' '
            self.flags.add('lhs-index-inner-space')
        return '[' + body + ']'

    def statement(self, y, ly, lhs_explicit, tree):
        show = ly != 0 or lhs_explicit or self.on('zero', 0.3) or 'sbl' in self.feats
        pre = ''
        if 'sbl' in self.feats:
            pre = ' '
            self.flags.add('space-before-lhs-index')
        lhs = y + ((pre + self.lhs_index(ly)) if show else '')
        if 'ffo' in self.feats:
            # a form feed / other line boundary of str.splitlines OUTSIDE round brackets (it is whitespace for the regexes)
            self.flags.add('linesep-outside-brackets')
            return lhs + ' =' + self.rng.choice(['\x0c', '\x1d ', ' \x85', '\x0c ']) + self.expr(tree)
        if 'bra' in self.feats:
            self.flags.add('bracketed-statement')          # the layout documented with equation_re: brackets beginning on the left-hand side
            return '(' + lhs + ' =' + self.rng.choice(['\n ', '\n', ' ']) + self.expr(tree) + ')'
        return lhs + self.gap() + '=' + self.gap() + self.expr(tree)


def gen_meta(rng, feats, strict, perm=False):
    n = rng.choice([1, 1, 2, 2, 3, 4])
    pool = [('v', x) for x in rng.sample(G.VARS, 5)] + [('p', x) for x in rng.sample(G.PARAMS, 2)] + [('e', rng.choice(G.ERRS))]
    lhss = rng.sample(G.LHSS, n)
    names = pool + [('v', y) for y in lhss]
    progs = []
    skipfix = []
    for y in lhss:
        tree = G.gen_tree(rng, names)
        ly = rng.choice([0, 0, 0, 0, 0, 1, -1])
        progs.append((y, ly, rng.random() < 0.1, tree))
        if any(d.endswith(']') and re.search(r'\[[0-9]', d) for d in G.tree_deps(tree, [])):
            skipfix.append(y)          # a backticked period index: the normal form X[2001] cannot be fed back
    base_lay = Lay(rng, [], strict, var=False)
    stmts = [base_lay.statement(*p) for p in progs]
    var_lay = Lay(rng, feats, strict, var=True)
    vstmts = [var_lay.statement(*p) for p in progs]
    order = None
    if perm and n > 1:
        order = list(range(n))
        rng.shuffle(order)
        vstmts = [vstmts[i] for i in order]
    lines = []
    for st in vstmts:
        if 'blank' in feats and rng.random() < 0.4:
            lines.append(rng.choice(['', '   ', '\t', '# a comment line', '#', '   # indented comment']))
        if 'comment' in feats and rng.random() < 0.5:
            st = st + rng.choice(['  # trailing', '#c', ' #', '\t# x = 1', '  # a # b', ' ## Z = 1', '  # see (1', ' # )', ' # `x`', '# (a, b', ' # {a}'])
        elif 'ws' in feats and rng.random() < 0.1:
            st = st + rng.choice(['  ', '\t', ' '])           # trailing blanks without a comment
        lines.append(st)
    if 'blank' in feats and rng.random() < 0.3:
        lines.append(rng.choice(['', '# end']))
    flags = set(var_lay.flags)
    sep = '\r\n' if ('blank' in feats and rng.random() < 0.15) else '\n'
    return {'k': 'meta', 'stmts': stmts, 'var': sep.join(lines), 'strict': bool(strict and 'gap-opened' not in flags),
            'feats': sorted(feats), 'flags': sorted(flags - {'gap-opened'}), 'perm': order, 'skipfix': skipfix}


FIXED = [
    {'k': 'meta', 'stmts': ['Y = X[-1]'], 'var': 'Y = X [-1]', 'strict': False, 'feats': ['sbi'], 'flags': ['space-before-index'], 'perm': None, 'skipfix': []},
    {'k': 'meta', 'stmts': ['Y = {a} * X["a"]'], 'var': 'Y = {a} * X ["a"]', 'strict': False, 'feats': ['sbi'], 'flags': ['space-before-index'], 'perm': None, 'skipfix': []},
    {'k': 'meta', 'stmts': ['Y[1] = X'], 'var': 'Y[ 1 ] = X', 'strict': True, 'feats': ['lhsinner'], 'flags': ['lhs-index-inner-space'], 'perm': None, 'skipfix': []},
    {'k': 'fence', 'stmts': ['Y = X', '```\nfoo = 1', 'Z = W']},
    {'k': 'fence', 'stmts': ['```', 'Y = X']},
    {'k': 'fence', 'stmts': ['Y = X', '```\nfoo = 1']},
    {'k': 's', 's': 'Y[=1]'},
    {'k': 's', 's': 'b = {as} * X'},
    # independent review: duplicate statement re-spaced, literal braces, blank before the left-hand index bracket, "#" inside quotes
    {'k': 'meta', 'stmts': ['Y = X', 'Y = X'], 'var': 'Y = X\nY=X', 'strict': False, 'feats': ['ws'], 'flags': ['duplicate-respaced'], 'perm': None, 'skipfix': []},
    {'k': 'meta', 'stmts': ['Y = X', 'Y = X'], 'var': 'Y = X\nY  =  X', 'strict': True, 'feats': ['ws'], 'flags': [], 'perm': None, 'skipfix': []},
    {'k': 's', 's': 'Y = X + max({{1, 2}})'},
    {'k': 's', 's': 'Y = {{1: X}}[1] + Z'},
    {'k': 'meta', 'stmts': ['Y[1] = X'], 'var': 'Y [1] = X', 'strict': False, 'feats': ['sbl'], 'flags': ['space-before-lhs-index'], 'perm': None, 'skipfix': []},
    {'k': 'hashq', 'stmts': ["Y = X['a_b']"], 'var': "Y = X['a#b']"},
    # second review
    {'k': 'meta', 'stmts': ['Y = X[-1]'], 'var': 'Y = X[- 1]', 'strict': False, 'feats': ['isb'], 'flags': ['index-sign-blank'], 'perm': None, 'skipfix': []},
    {'k': 'meta', 'stmts': ['Y = X[1]'], 'var': 'Y = X[+ 1]', 'strict': False, 'feats': ['isb'], 'flags': ['index-sign-blank'], 'perm': None, 'skipfix': []},
    {'k': 'meta', 'stmts': ['Y = np.sqrt(X)'], 'var': 'Y = np .sqrt(X)', 'strict': False, 'feats': ['dot'], 'flags': ['dotted-name-blank'], 'perm': None, 'skipfix': []},
    {'k': 'meta', 'stmts': ['Y = X ', 'Y = X '], 'var': 'Y = X \nY = X # c', 'strict': False, 'feats': ['comment'], 'flags': ['duplicate-respaced'], 'perm': None, 'skipfix': []},
    {'k': 'meta', 'stmts': ['Y = max(X, Z)', 'Y = max(X, Z)'], 'var': 'Y = max(X, Z)\nY = max (X,Z)', 'strict': False, 'feats': ['call'], 'flags': ['duplicate-respaced'], 'perm': None, 'skipfix': []},
    {'k': 'meta', 'stmts': ['Y = X * Z'], 'var': 'Y = X *\x0c Z', 'strict': False, 'feats': ['ffo'], 'flags': ['linesep-outside-brackets'], 'perm': None, 'skipfix': []},
    {'k': 'meta', 'stmts': ['Y = X'], 'var': '(Y =\n X)', 'strict': False, 'feats': ['bra'], 'flags': ['bracketed-statement'], 'perm': None, 'skipfix': []},
    # edits nobody noticed: '\n'.join(buffer) -> ''.join ; \s* -> [ ]* inside { } < > and after [
    {'k': 'meta', 'stmts': ['Y = (X if Z else W)'], 'var': 'Y = (X if\nZ else W)', 'strict': False, 'feats': ['cont'], 'flags': [], 'perm': None, 'skipfix': []},
    {'k': 'meta', 'stmts': ['Y = {a} * X["a"] + <e>'], 'var': 'Y = {\ta} * X[\t"a"] + <\te\t>', 'strict': False, 'feats': ['inner'], 'flags': [], 'perm': None, 'skipfix': []},
    {'k': 'hashq', 'stmts': ['Y = `"_"` * X'], 'var': 'Y = `"#"` * X'},
    {'k': 'hashq', 'stmts': ['```\nx = "_tag"\n```\nY = X'], 'var': '```\nx = "#tag"\n```\nY = X'},
    # changes nobody noticed: brackets counted before comments are stripped; blank lines dropped before the continuation logic; \s* -> " *" after a function name
    {'k': 'meta', 'stmts': ['Y = X', 'Z = (W + 1)'], 'var': 'Y = X  # see (1\nZ = (W +   # and )\n   1)', 'strict': False, 'feats': ['comment', 'cont'], 'flags': [], 'perm': None, 'skipfix': []},
    {'k': 'meta', 'stmts': ['Y = (X + Z)'], 'var': 'Y = (X +\n\n  # note\n Z)', 'strict': False, 'feats': ['cont', 'blank'], 'flags': [], 'perm': None, 'skipfix': []},
    {'k': 'meta', 'stmts': ['Y = max(X, Z)'], 'var': 'Y = max\t(X, Z)', 'strict': False, 'feats': ['call'], 'flags': [], 'perm': None, 'skipfix': []},
    # histories inside one process: a text that is the left-hand side of one statement and the right-hand side of another (compact layout),
    # character-identical verbatim statements repeated
    {'k': 'meta', 'stmts': ['Y=C+G', 'GDP=Y'], 'var': 'Y = C + G\nGDP = Y', 'strict': False, 'feats': ['ws'], 'flags': [], 'perm': None, 'skipfix': []},
    {'k': 'meta', 'stmts': ['GDP=Y', 'Y=C+G', 'C=GDP'], 'var': 'GDP = Y\nY = C + G\nC = GDP', 'strict': False, 'feats': ['ws'], 'flags': [], 'perm': None, 'skipfix': []},
    {'k': 's', 's': '`k = 1`\nY = X\n`k = 1`'},
    {'k': 's', 's': '```\nN = N + 1\n```\nY = X[-1]\n```\nN = N + 1\n```\n`k = 1`\n`k = 1`'},
    {'k': 's', 's': 'Y = <if> + X[-1]\nZ = { None }'},
    {'k': 'meta', 'stmts': ['Y = X[%s]' % ('0' * 4299 + '1')], 'var': 'Y = X[ +%s ]' % ('0' * 4299 + '1'), 'strict': True, 'feats': ['inner', 'sign'], 'flags': [], 'perm': None, 'skipfix': []},
    {'k': 'meta', 'stmts': ['Y = X[%s]' % ('0' * 4300 + '1')], 'var': 'Y = X[ +%s ]' % ('0' * 4300 + '1'), 'strict': True, 'feats': ['inner', 'sign'], 'flags': [], 'perm': None, 'skipfix': []},
    {'k': 'meta', 'stmts': ['Y = (X + Z)'], 'var': 'Y = (X +\x0c  Z\r\n)', 'strict': True, 'feats': ['cont'], 'flags': [], 'perm': None, 'skipfix': []},
    {'k': 'meta', 'stmts': ['C = {alpha_1} * YD + {alpha_2} * H[-1]'], 'var': 'C = ({ alpha_1 }[0] * YD[ 0 ] +\n     {alpha_2}*H[ -1 ])  # consumption',
     'strict': False, 'feats': ['ws', 'inner', 'zero', 'cont', 'comment'], 'flags': [], 'perm': None, 'skipfix': []},
    {'k': 'meta', 'stmts': ['Y = X + Z', 'W = Y[-1]'], 'var': '# model\n\nW = Y[-1]\n\n\nY = X + Z\n', 'strict': True, 'feats': ['blank'], 'flags': [], 'perm': [1, 0], 'skipfix': []},
    {'k': 'meta', 'stmts': ['Y = max(X, Z)'], 'var': 'Y = max (\n  X,\n  Z\n)', 'strict': False, 'feats': ['cont', 'call'], 'flags': [], 'perm': None, 'skipfix': []},
    {'k': 'meta', 'stmts': ["Y = X['a  b'] + `np.pi *  2`"], 'var': "Y  =  X[ 'a  b' ]  +  `np.pi *  2`", 'strict': False, 'feats': ['ws', 'inner'], 'flags': [], 'perm': None, 'skipfix': []},
]


def gen(rng, tier):
    cases = [dict(c) for c in FIXED]
    n_single = 120 if tier == 'quick' else 2000
    for f in FEATS:
        for i in range(n_single):
            cases.append(gen_meta(rng, [f], strict=(i % 2 == 0)))
    for _ in range(700 if tier == 'quick' else 12000):
        k = rng.randint(2, len(FEATS))
        cases.append(gen_meta(rng, rng.sample(FEATS, k), strict=rng.random() < 0.5, perm=rng.random() < 0.3))
    for _ in range(40 if tier == 'quick' else 600):
        cases.append(gen_meta(rng, ['sbi'] + rng.sample(FEATS, 2), strict=False))
        cases.append(gen_meta(rng, ['lhsinner', 'inner'], strict=True))
    for _ in range(30 if tier == 'quick' else 500):
        cases.append(gen_meta(rng, ['sbl'] + rng.sample(FEATS, 1), strict=True))
        # the same statement twice: accepted; one copy re-spaced around "=" must not change that
        c = gen_meta(rng, [], strict=True)
        s0 = c['stmts'][0]
        if ' = ' in s0:
            dup = rng.choice([s0.replace(' = ', '=', 1), s0.replace(' = ', '= ', 1), s0.replace(' = ', ' =', 1), s0.replace(' = ', '  =  ', 1)])
            fl = [] if dup.replace(' ', '') == s0.replace(' ', '') and '  =  ' in dup else ['duplicate-respaced']
            cases.append({'k': 'meta', 'stmts': c['stmts'] + [s0], 'var': '\n'.join(c['stmts'] + [dup]), 'strict': False, 'feats': ['ws'], 'flags': fl,
                          'perm': None, 'skipfix': c['skipfix']})
        cases.append(gen_meta(rng, ['isb', 'sign'] + rng.sample(FEATS, 1), strict=True))
        cases.append(gen_meta(rng, ['dot', 'call'], strict=True))
        cases.append(gen_meta(rng, [rng.choice(['ffo', 'bra'])], strict=True))
        # the same statement twice, one copy with a trailing comment / re-spaced after a comma or before "("
        c = gen_meta(rng, [], strict=True)
        s0 = c['stmts'][0]
        dup = rng.choice([s0 + '  # c', s0 + ' ', s0.replace(', ', ',', 1), s0.replace('(', ' (', 1), s0.replace(' + ', '+', 1), s0.replace(' * ', '  *  ', 1)])
        if dup != s0:
            fl = ['duplicate-respaced'] if re.sub(r' +', ' ', dup).replace('( ', '(') != s0 else []
            cases.append({'k': 'meta', 'stmts': c['stmts'] + [s0], 'var': '\n'.join(c['stmts'] + [dup]), 'strict': False, 'feats': ['ws'], 'flags': fl,
                          'perm': None, 'skipfix': c['skipfix']})
        a, b = rng.choice(G.NUMS), rng.choice(G.NUMS)
        cases.append({'k': 's', 's': '%s = %s + max({{%s, %s}})' % (rng.choice(G.LHSS), rng.choice(G.VARS), a, b)})
        lab = rng.choice(['a#b', '#', '2000#Q1', 'x # y'])
        q = rng.choice(["'", '"'])
        cases.append({'k': 'hashq', 'stmts': ['Y = X[%s%s%s] + Z' % (q, lab.replace('#', '_'), q)], 'var': 'Y = X[%s%s%s] + Z' % (q, lab, q)})
    for _ in range(60 if tier == 'quick' else 1500):
        c = gen_meta(rng, [], strict=False)
        k = rng.randrange(len(c['stmts']) + 1)
        fence = rng.choice(['```', '```\nfoo = 1', '````\nx = (1', '```python\npass', '```\n``'])
        cases.append({'k': 'fence', 'stmts': c['stmts'][:k] + [fence] + c['stmts'][k:]})
    for _ in range(400 if tier == 'quick' else 6000):
        s = pc.gen_script(rng)
        cases.append({'k': 's', 's': s})
        if rng.random() < 0.4:
            t = pc.mutate(rng, s)
            if t != s:
                cases.append({'k': 's', 's': t})
    return cases


# --------------------------------------------------------------------------- observation (worker; real fsic)
def _parse(s, check_syntax=True):
    import ast
    import warnings

    import fsic
    try:
        with warnings.catch_warnings():
            warnings.simplefilter('ignore')
            syms = fsic.parse_model(s, check_syntax=check_syntax)
    except BaseException as e:      # noqa: BLE001
        return {'exc': type(e).__name__}
    out = {'syms': [[x.name, x.type.name, x.lags, x.leads, x.equation, x.code] for x in syms]}
    dumps = []
    for x in syms:
        if x.code is None:
            dumps.append(None)
            continue
        try:
            dumps.append(ast.dump(ast.parse(x.code)))
        except SyntaxError:
            dumps.append('SyntaxError')
    out['ast'] = dumps
    return out


DENORM = re.compile(r'\[t([+-][0-9]+)?\]')


def denorm(eq):
    return DENORM.sub(lambda m: '[' + (m.group(1) or '0') + ']', eq)


def denorm_loose(eq):
    """another admissible way of writing the index brackets (theorem C14_fixed_point_any_index_layout): blanks inside the
    right-hand brackets, leads without "+"; the left-hand side stays compact (finding #22)"""
    if '=' not in eq:
        return denorm(eq)
    lhs, rhs = eq.split('=', 1)
    return denorm(lhs) + '=' + DENORM.sub(lambda m: '[ ' + (m.group(1) or '0').lstrip('+') + '  ]', rhs)


def impl(case):
    out = {}
    if case['k'] == 's':
        import fsic
        base = case['s']
        out['base'] = _parse(base)
        try:
            stmts = fsic.parser.split_equations(base)
        except BaseException as e:      # noqa: BLE001
            out['split'] = type(e).__name__
            stmts = []
    else:
        stmts = case['stmts']
        base = '\n'.join(stmts)
        out['base'] = _parse(base)
    out['stmts'] = [_parse(s) for s in stmts]
    out['stmt_texts'] = stmts
    if 'var' in case:
        out['var'] = _parse(case['var'])
    # K: check_syntax=False lines
    out['nc'] = {'base': pc.real_line(base), 'stmts': [pc.real_line(s) for s in stmts]}
    if 'var' in case:
        out['nc']['var'] = pc.real_line(case['var'])
    # fixed point
    fix = []
    if 'syms' in out['base']:
        for name, ty, _lg, _ld, eq, code in out['base']['syms']:
            if ty != 'ENDOGENOUS' or eq is None:
                continue
            if name in case.get('skipfix', []):
                continue
            if case['k'] == 's' and (re.search(r'\[(?!t[+-]?[0-9]*\]|[\'"])', eq) or '`' in eq):
                continue
            d = denorm(eq)
            r = _parse(d)
            ent = {'name': name, 'fed': d, 'eq': eq, 'code': code}
            if 'exc' in r:
                ent['exc'] = r['exc']
            else:
                got = [x for x in r['syms'] if x[0] == name and x[1] == 'ENDOGENOUS']
                ent['got'] = [got[0][4], got[0][5]] if got else None
            r2 = _parse(denorm_loose(eq))
            ent['fed2'] = denorm_loose(eq)
            if 'exc' in r2:
                ent['exc2'] = r2['exc']
            else:
                got = [x for x in r2['syms'] if x[0] == name and x[1] == 'ENDOGENOUS']
                ent['got2'] = [got[0][4], got[0][5]] if got else None
            fix.append(ent)
    out['fix'] = fix
    return out


# --------------------------------------------------------------------------- correspondence
_K_DETAIL = {}
_K_STATS = {'equations': 0, 'in_domain': 0}


def correspond(cases, obs, tag, tier):
    bad, errors = [], []
    _K_DETAIL.clear()
    reqs, where = [], []
    for i, (c, o) in enumerate(zip(cases, obs)):
        if o is None or 'nc' not in o:
            continue
        base = c['s'] if c['k'] == 's' else '\n'.join(c['stmts'])
        items = [(base, o['nc']['base'])] + list(zip(o['stmt_texts'], o['nc']['stmts']))
        if 'var' in c:
            items.append((c['var'], o['nc']['var']))
        for s, real in items:
            reqs.append(('P ' + pc.hx(s)).rstrip())
            where.append((i, s, real))
    ans, errs = G.run_driver(reqs)
    if errs:
        return [], errs
    for (i, s, real), m in zip(where, ans):
        if m != 'U' and m != real:
            if i not in bad:
                bad.append(i)
                _K_DETAIL[lib.jhash(cases[i])] = {'s': s, 'impl': real[:300], 'model': m[:300]}
    # the domain of the fixed-point theorem
    reqs, where = [], []
    for i, (c, o) in enumerate(zip(cases, obs)):
        if o is None:
            continue
        for ent in o.get('fix', []):
            _K_STATS['equations'] += 1
            if ent['code'] is None:
                continue
            reqs.append('DZ %s %s' % (pc.hx(ent['eq']), pc.hx(ent['code'])))      # token list read by the model's own GTokenise.tokenise
            where.append((i, ent))
    ans, errs = G.run_driver(reqs)
    if errs:
        return [], errs
    for (i, ent), a in zip(where, ans):
        if a.startswith('1:'):
            _K_STATS['in_domain'] += 1
            if pc.unhx(a[2:]) != ent['fed'] and i not in bad:
                bad.append(i)
                _K_DETAIL[lib.jhash(cases[i])] = {'denorm_text': pc.unhx(a[2:]), 'fed by the oracle': ent['fed']}
        elif a == '0c':
            if i not in bad:
                bad.append(i)
                _K_DETAIL[lib.jhash(cases[i])] = {'neq_code differs for': ent['eq']}
        elif cases[i]['k'] == 'meta' and not cases[i]['flags']:
            if i not in bad:                      # an equation of the generated grammar outside the theorem's conditions
                bad.append(i)
                _K_DETAIL[lib.jhash(cases[i])] = {'dq_ok false for': ent['eq']}
    return sorted(bad), errors


def explain(case, obs):
    d = _K_DETAIL.get(lib.jhash(case))
    out = {'fixed_point_domain': dict(_K_STATS)}
    if d:
        out['first_disagreement'] = d
    return out


def guard(case, obs):
    return False


# --------------------------------------------------------------------------- oracle
def _fields(p):
    return [tuple(x[:4]) for x in p['syms']]


def merge_reference(parsed):
    """the symbols of a script from the symbols of its statements, by the documented rules (names in order of first appearance;
    type = the larger of the two; lags = deepest lag, leads = furthest lead, both through 0; equation and code from the statement
    that defines the variable; verbatim blocks last)"""
    order = ['VARIABLE', 'EXOGENOUS', 'ENDOGENOUS', 'PARAMETER', 'ERROR', 'FUNCTION', 'KEYWORD', 'VERBATIM', 'INVALID']
    table, verb = {}, []
    for p in parsed:
        for name, ty, lg, ld, eq, code in p['syms']:
            if name is None:
                verb.append([name, ty, lg, ld, eq, code])
                continue
            if name not in table:
                table[name] = [name, ty, lg, ld, eq, code]
                cur = table[name]
                if isinstance(lg, int):
                    cur[2] = min(lg, 0)
                elif isinstance(lg, str):
                    cur[2] = 0
                if isinstance(ld, int):
                    cur[3] = max(ld, 0)
                elif isinstance(ld, str):
                    cur[3] = 0
                continue
            cur = table[name]
            if cur[1] != ty:
                if not (cur[1] in order[:3] and ty in order[:3]):
                    return 'SymbolError'
                if order.index(ty) > order.index(cur[1]):
                    cur[1] = ty
            for j, f in ((2, min), (3, max)):
                a, b = cur[j], (lg if j == 2 else ld)
                if a is None and b is None:
                    continue
                if isinstance(b, str):
                    b = 0 if isinstance(a, str) else a
                if isinstance(a, str):
                    a = b
                cur[j] = f(a, b, 0)
            for j, v in ((4, eq), (5, code)):
                if cur[j] is None:
                    cur[j] = v
                elif v is not None and v != cur[j]:
                    return 'ParserError'
    return list(table.values()) + verb


_MASKS = (('space-before-index', ('layout-code-meaning', 'layout-symbols', 'layout-outcome')),
          ('lhs-index-inner-space', ('layout-outcome',)),
          ('space-before-lhs-index', ('layout-outcome',)),
          ('duplicate-respaced', ('layout-outcome',)),
          ('index-sign-blank', ('layout-outcome',)),
          ('dotted-name-blank', ('layout-symbols',)),
          ('linesep-outside-brackets', ('layout-outcome',)),
          ('bracketed-statement', ('layout-outcome',)))
import keyword as _keyword
_KWNAME = re.compile(r'(?<![A-Za-z0-9_.])(?:%s)\[' % '|'.join(_keyword.kwlist))


_RESERVED_IN = re.compile(r'[{<]\s*(?:%s)\s*[}>]' % '|'.join(_keyword.kwlist))


def input_shapes(case):
    """classes of the three fixed-point findings, read off the INPUT text (as the layout classes are read off the renderer's flags)"""
    text = case.get('s', case.get('var', '')) if case['k'] == 's' else '\n'.join(case.get('stmts', [])) + '\n' + case.get('var', '')
    bare = re.sub(r'`[^`\n]*`', '', text)
    out = set()
    if '{{' in bare or '}}' in bare:
        out.add('literal-braces')                   # str.format's escape for a literal brace
    if _RESERVED_IN.search(bare):
        out.add('reserved-word-name')               # a reserved word as the name of a parameter / error term
    for line in bare.splitlines():
        i = line.find('=')
        if i >= 0 and line[:i].count('[') > line[:i].count(']'):
            out.add('equation-without-equals')      # the first "=" of a statement stands inside an index bracket
    return out


def oracle(case, obs):
    fails = []
    flags = set(case.get('flags', []))
    shapes = input_shapes(case)

    def add(clause, what):
        sig = clause
        for fl, masked in _MASKS:
            if fl in flags and clause in masked:        # a known finding masks exactly the clauses of its class
                sig = clause + '|' + fl
                break
        fails.append({'sig': 'C14|' + sig, 'what': what + ' — case ' + json.dumps({k: case[k] for k in ('stmts', 'var', 's') if k in case})[:260]})

    base = obs['base']
    # ---- statements are parsed independently
    if 'split' not in obs and all('syms' in p for p in obs['stmts']) and (obs['stmts'] or 'syms' in base):
        ref = merge_reference(obs['stmts'])
        if isinstance(ref, str):
            if 'exc' not in base:       # which exception is not part of the property: only that the script is rejected
                add('statements-independent', 'merging the statements fails (%s), parsing the script gives a symbol list' % ref)
        elif 'exc' in base:
            add('statements-independent', 'every statement parses alone but the script raises ' + base['exc'])
        elif sorted(json.dumps(list(x)) for x in base['syms']) != sorted(json.dumps(x) for x in ref):      # as sets: the order of the list is not constrained
            add('statements-independent', 'parse(script) %s differs from the merge of the statement parses %s'
                % (json.dumps(base['syms'])[:200], json.dumps(ref)[:200]))
    elif case['k'] in ('meta', 'fence') and 'syms' in base and any('exc' in p for p in obs['stmts']):
        add('statements-independent', 'the script parses but a statement alone raises')
    if case['k'] == 'fence':
        # a fence that is never closed: the script is rejected whole (nothing after the fence may be dropped silently)
        if 'exc' not in base:
            add('unclosed-fence-accepted', 'a script with a ``` fence that is never closed is accepted (it must be rejected)')
        return fails
    if case['k'] == 'hashq':
        # a "#" inside a quoted period label / a backticked fragment / a fenced block is no comment: same outcome as with "_" in its place
        var = obs['var']
        if ('exc' in base) != ('exc' in var):
            fails.append({'sig': 'C14|comment|hash-inside-quotes',
                          'what': 'with "_" in place of "#" the script is %s, with the "#" (inside quotes / backticks / a fence) it is %s — %s'
                                  % (base.get('exc', 'accepted'), var.get('exc', 'accepted'), json.dumps(case['var'])[:120])})
        elif 'syms' in base and _fields(base) != _fields(var):
            add('comment-hash-symbols', 'symbols differ: %s vs %s' % (_fields(base), _fields(var)))
        return fails
    # ---- layout transformations
    if 'var' in obs:
        var = obs['var']
        if 'exc' in base or 'exc' in var:
            if ('exc' in base) != ('exc' in var):          # accepted / rejected; which exception is not part of the property
                add('layout-outcome', 'base layout: %s, transformed layout: %s' % (base.get('exc', 'accepted'), var.get('exc', 'accepted')))
        else:
            fb, fv = _fields(base), _fields(var)
            if case.get('perm'):
                if sorted(map(repr, fb)) != sorted(map(repr, fv)):
                    add('permutation-symbols', 'reordering the statements changed the symbols: %s vs %s' % (fb, fv))
                eb = {x[0]: (x[4], x[5]) for x in base['syms']}
                ev = {x[0]: (x[4], x[5]) for x in var['syms']}
                ab = {x[0]: a for x, a in zip(base['syms'], base['ast'])}
                av = {x[0]: a for x, a in zip(var['syms'], var['ast'])}
            else:
                if fb != fv:
                    add('layout-symbols', 'name / type / lags / leads differ: %s vs %s' % (fb, fv))
                eb = {i: (x[4], x[5]) for i, x in enumerate(base['syms'])}
                ev = {i: (x[4], x[5]) for i, x in enumerate(var['syms'])}
                ab = dict(enumerate(base['ast']))
                av = dict(enumerate(var['ast']))
            if set(ab) == set(av):
                for k in ab:
                    if ab[k] != av[k]:
                        add('layout-code-meaning', 'the generated code differs in meaning: %r vs %r' % (eb[k][1], ev[k][1]))
    # ---- the normal form is a fixed point
    for ent in obs.get('fix', []):
        if '=' not in ent['eq'] and 'equation-without-equals' in shapes:
            fails.append({'sig': 'C14|fixed-point|equation-without-equals',
                          'what': 'the parser produced the normalised equation %r without "=" (an index bracket spanning the "=" of the statement); '
                                  'fed back it is rejected — script %s' % (ent['eq'], json.dumps(case.get('s', ''))[:120])})
            continue
        if '=' not in ent['eq']:
            add('fixed-point', 'the parser produced the normalised equation %r without "="' % ent['eq'])
            continue
        if 'exc' in ent and 'literal-braces' in shapes and re.search(r'[{}]', re.sub(r'`[^`]*`|\'[^\']*\'|"[^"]*"', '', ent['eq'])):
            # literal braces written {{ }} in the script: the normal form holds single braces, which are format fields when read back
            fails.append({'sig': 'C14|fixed-point|literal-braces',
                          'what': 'the normalised equation %r contains a literal brace (written doubled in the script); fed back as %r it is rejected with %s'
                                  % (ent['eq'], ent['fed'], ent['exc'])})
            continue
        if 'exc' in ent and 'reserved-word-name' in shapes and _KWNAME.search(re.sub(r'`[^`]*`', '', ent['eq'])):
            # a {parameter} / <error> named like a reserved word: its normal form NAME[t] is read as _INVALID by term_re
            fails.append({'sig': 'C14|fixed-point|reserved-word-name',
                          'what': 'the normalised equation %r contains a term named like a reserved word of Python (written in braces / angle '
                                  'brackets in the script); fed back as %r it is rejected with ParserError — script %s'
                                  % (ent['eq'], ent['fed'], json.dumps(case.get('s', case.get('var', '')))[:120])})
            continue
        if 'exc' in ent:
            add('fixed-point', 're-parsing the normalised equation %r (fed as %r) raises %s' % (ent['eq'], ent['fed'], ent['exc']))
        elif ent['got'] != [ent['eq'], ent['code']]:
            add('fixed-point', 're-parsing %r gives %r, not %r' % (ent['fed'], ent['got'], [ent['eq'], ent['code']]))
        if 'exc2' in ent:
            add('fixed-point-layout', 're-parsing the normalised equation written as %r raises %s' % (ent['fed2'], ent['exc2']))
        elif 'got2' in ent and ent['got2'] != [ent['eq'], ent['code']]:
            add('fixed-point-layout', 're-parsing %r gives %r, not %r' % (ent['fed2'], ent['got2'], [ent['eq'], ent['code']]))
    return fails


def nontrivial(case, obs):
    b = obs.get('base', {})
    if 'syms' not in b or not any(x[1] == 'ENDOGENOUS' for x in b['syms']):
        return False
    if case['k'] == 'meta':
        return case['var'] != '\n'.join(case['stmts'])
    return True


def bucket(case, obs):
    b = obs.get('base', {})
    out = 'accepted' if 'syms' in b else 'rejected/' + str(b.get('exc'))
    if case['k'] == 'meta':
        f = case['feats']
        return 'meta/%s/%s/%s' % (f[0] if len(f) == 1 else 'composition', 'strict' if case.get('strict') else 'loose', out)
    return case['k'] + '/' + out


def shrink_candidates(case):
    if case['k'] == 'meta':
        n = len(case['stmts'])
        if n > 1 and not case.get('perm'):
            vl = [ln for ln in case['var'].split('\n')]
            # statements are single lines unless 'cont' was used: only then try dropping by index
            if 'cont' not in case['feats'] and 'blank' not in case['feats'] and len(vl) == n:
                for i in range(n):
                    yield dict(case, stmts=case['stmts'][:i] + case['stmts'][i + 1:], var='\n'.join(vl[:i] + vl[i + 1:]))
        return
    if case['k'] == 's':
        s = case['s']
        lines_ = s.split('\n')
        if len(lines_) > 1:
            for i in range(len(lines_)):
                yield dict(case, s='\n'.join(lines_[:i] + lines_[i + 1:]))
        toks = pc.TOKEN_RE.findall(s)
        if len(toks) > 1:
            step = max(1, len(toks) // 24)
            for i in range(0, len(toks), step):
                yield dict(case, s=''.join(toks[:i] + toks[i + step:]))
