"""C02 — per-period solve: status, iteration count, result flag and convergence agree."""
import copy
import itertools

import numpy as np

import lib
from props import solver_common as sc

ID = 'C02'
PROPS_FILE = 'Props/C02.v'
MODEL_FILES = ['Solver/Solver.v', 'Solver/SolverF.v', 'Solver/SolveAll.v', 'Solver/SolveAllSpan.v', 'Solver/SolveAllPeriod.v', 'Solver/SolveAllF.v',
               'Solver/SolveAllHistF.v']
K_NAME = ('K_solve_t (Solver.solve_t_M instantiated with PrimFloat vs BaseModel.solve_t / solve_period on scripted models; solve_period over '
          'every span type through SolveAll.solve_period_M with the modelled label lookup SolveAllSpan.locate_span / SolveAllPeriod.locate_qindex)')
RULE = ('scripted models: exhaustive per-pass value sequences of one check variable up to length 3 over a palette that contains 0, tol, '
        'tol-1ulp, tol+1ulp (so |move| hits tol exactly and either side of it) x min_iter in 0..max_iter+1 x max_iter in 0..3 x failures; '
        'random 1-3 check variables (all-vs-any), positive/negative t, offsets in and out of span, hooks that write check values, affine '
        'contractive/divergent/oscillating passes, solve_period entry, some faulting scripts; instance-level lags/leads with the period on '
        'scripts of up to 14 passes; parser-built contractive / divergent / oscillating / simultaneous equation systems run for up to 40 passes; every keyword omitted in turn (defaults); extra **kwargs used by the hooks; either side of both feasibility boundaries (all n<=4 x lags,leads<=2 x both spellings of t enumerated); solve_period(label) for every label '
        'specification (each label, an unknown label, PeriodIndex strings / year strings) on every span type of solver_common.SPAN_KIND (range, list, '
        'tuple, NumPy, pandas Index, PeriodIndex, spans with repeated and with falsy labels) x lengths 1..4 with tol-boundary scripts, compared with '
        'solve_t(position) on a twin instance; histories of 2..7 steps on ONE instance (earlier solves, copy(), reindex(same span), whole-series list and cell '
        'assignments, re-solved periods, offsets with both spellings of t, models with and without lags / leads) with the statement evaluated at '
        'every solve_t / solve_period step. Non-trivial = at least 2 passes executed, or '
        'stop exactly at k=min_iter or k=max_iter, or an exception path; distinct by hash of the whole case.')
TRUSTED = ['scripted-model subclass harness/scripted.py (same script is the Coq oracle)']
ASSUMPTIONS = ['the model and the correspondence are float64; series of other dtypes (int64, int8, uint8, uint16, float32) are run against the oracle only',
               'the iteration number handed to the hooks (0 for the pre-hook) is recorded by the harness but is not part of the model\'s events: not compared',
               '_evaluate and the hooks modify only variable values (not status/iterations) — the shape of the model\'s oracles',
               't lies inside the span (-n <= t < n)',
               'max_iter >= 0 for the clause "iterations[t] = max_iter on failure": a negative max_iter (accepted when min_iter <= max_iter) '
               'records 0 (C02_negative_max_iter, C02_failed_iterations_eq_max_iter_refuted); the oracle uses max(max_iter, 0)',
               'K is stricter than the oracle: it also compares the whole values store, the spelling of t handed to the hooks and the class '
               'of the chained cause']
EXHAUSTIVE = {'quick': False, 'thorough': False}
CASE_TIMEOUT = 20


def impl(case):
    if case.get('kind') == 'dtype':
        return impl_dtype(case)
    if case.get('kind') == 'parsed':
        from props import C06 as c06
        return c06.impl_parsed(case)
    if case.get('kind') == 'sp':
        return sc.impl_solve(case)
    if case.get('kind') == 'hist':
        return sc.impl_hist(case)
    return sc.impl_solve_t(case)


def gen(rng, tier):
    cases = []
    pal = sc.PALETTE_FINITE[:6]
    cases += sc.lattice_cases(rng, 3 if tier == 'quick' else 4, pal, 0)
    n_rand = 1500 if tier == 'quick' else 20000
    for _ in range(n_rand):
        nv = rng.choice([1, 2, 3, 4])
        ncheck = rng.randint(0 if rng.random() < 0.05 else 1, min(3, nv))
        check = rng.sample(range(nv), ncheck)
        endo = rng.sample(range(nv), rng.randint(0, nv))
        n = rng.randint(1, 5)
        p = rng.randrange(n)
        t = p if rng.random() < 0.6 else p - n
        mx = rng.randint(0, 5) if rng.random() < 0.9 else rng.randint(-1, 0)
        mn = rng.randint(0, mx + 1) if mx >= 0 else rng.randint(-2, 1)
        c = sc.base_case(nvars=nv, check=check, endo=endo, n=n, t=t, min_iter=mn, max_iter=mx,
                         failures=rng.choice(['raise', 'ignore']),
                         errors=rng.choice(['raise'] * 4 + ['skip', 'ignore', 'replace', 'bogus']),
                         catch_first_error=rng.random() < 0.6)
        if rng.random() < 0.25:
            c['opts']['tol'] = lib.fhex(rng.choice([1e-10, 0.5, 0.0, 1.0, 1e-300]))
        tol = lib.unhex(c['opts']['tol'])
        palette = sc.PALETTE_FINITE + [tol, np.nextafter(tol, -1.0), np.nextafter(tol, 2.0)]
        r = rng.random()
        if r < 0.25:
            off = rng.choice([-1, 1, -2, 2, n, -n, n - 1 - p, -p, n - p, -p - 1])
            c['opts']['offset'] = off
        L = rng.randint(0, 5) if rng.random() < 0.9 else rng.randint(6, 14)          # some long scripts (more than 5 passes)
        if L > 5:
            c['opts']['max_iter'] = mx = rng.randint(6, 15)
            c['opts']['min_iter'] = mn = rng.randint(0, mx)
        kind = rng.random()
        passes = []
        if kind < 0.65:
            # settle: after a few moving passes values repeat (so convergence happens at an interesting k)
            settle = rng.randint(1, 4)
            last = None
            for k in range(L):
                vec = []
                for j in range(ncheck):
                    if last is not None and k >= settle and rng.random() < 0.8:
                        vec.append(last[j])
                    else:
                        vec.append(rng.choice(palette))
                last = vec
                passes.append([['set', check[j], lib.fhex(v)] for j, v in enumerate(vec)])
        elif kind < 0.8 and ncheck:
            a = rng.choice([0.5, -0.5, 2.0, -1.0, 0.25, 1.0])
            b = rng.choice([0.0, 1.0, -0.75])
            passes = [[['affine', check[0], lib.fhex(a), check[0], lib.fhex(b)]] for _ in range(L)]
        else:
            for k in range(L):
                acts = []
                for j in range(ncheck):
                    q = rng.random()
                    if q < 0.7:
                        acts.append(['set', check[j], lib.fhex(rng.choice(palette))])
                    elif q < 0.8:
                        acts.append(['set', check[j], lib.fhex(rng.choice(sc.PALETTE_BAD))])
                    elif q < 0.9:
                        acts.append(['warnset', check[j], lib.fhex(rng.choice(palette + sc.PALETTE_BAD))])
                    else:
                        acts.append(['raise', rng.choice([10, 11, 12])])
                passes.append(acts)
        ps = {'passes': passes}
        if rng.random() < 0.2 and ncheck:
            ps['before'] = [['set', check[0], lib.fhex(rng.choice(palette))]]
        if rng.random() < 0.15:
            ps['after'] = [['set', rng.randrange(nv), lib.fhex(7.0)]] if rng.random() < 0.8 else [['raise', 12]]
        if rng.random() < 0.08 and ncheck:
            c['vals'][check[0]][p] = lib.fhex(rng.choice(sc.PALETTE_BAD))
        c['scripts'] = sc.with_list_assignments(rng, {str(p): ps}, 0.2, check or (0,))     # some stores as whole-series list assignments
        if rng.random() < 0.2:
            c['entry'] = 'solve_period'
        if rng.random() < 0.1:
            c['status'][p] = rng.choice(['.', 'F', 'E', 'S'])
            c['iters'][p] = rng.randint(0, 9)
        c['opts'] = sc.random_omit(rng, c['opts'], 0.15)         # some calls leave keywords to their defaults
        if rng.random() < 0.1 and passes and passes[0] and passes[0][0][0] == 'set':
            # an extra keyword argument that the hooks / _evaluate use: **kwargs must be handed down
            c['kwargs'] = {'shift': lib.fhex(rng.choice([0.5, -1.0, 1e-11]))}
            a = passes[0][0]
            passes[0][0] = ['setkw', a[1], a[2], 'shift']
        if rng.random() < 0.3:
            # instance-level lags / leads: p lands on either side of both feasibility boundaries (fix eb62990)
            c['lags'] = rng.choice([0, 1, 1, 2, p, p + 1, max(p - 1, 0)])
            c['leads'] = rng.choice([0, 1, 1, 2, n - 1 - p, n - p, max(n - 2 - p, 0)])
        cases.append(c)
    # a few fixed boundary cases that always run first
    fixed = []
    for mx in (0, 1, 2):
        for mn in range(0, mx + 2):
            c = sc.base_case(min_iter=mn, max_iter=mx, failures='ignore')
            c['scripts'] = {'1': {'passes': [[['set', 0, lib.fhex(1.0)]], [['set', 0, lib.fhex(1.0)]]]}}
            fixed.append(c)
    # infeasible periods at both ends, both spellings of t, both entry points, with and without an offset / min>max
    for n in (1, 2, 3, 4):
        for lags in (0, 1, 2):
            for leads in (0, 1, 2):
                if lags == 0 and leads == 0:
                    continue
                for p in range(n):
                    for t in (p, p - n):
                        for entry, off, mn in (('solve_t', 0, 0), ('solve_period', 0, 0), ('solve_t', -1, 0), ('solve_t', 1, 0), ('solve_t', 0, 9)):
                            c = sc.base_case(n=n, t=t, min_iter=mn, max_iter=3, offset=off, failures='ignore')
                            c['lags'], c['leads'], c['entry'] = lags, leads, entry
                            c['scripts'] = {str(p): {'before': [['set', 1, lib.fhex(3.0)]],
                                                     'passes': [[['set', 0, lib.fhex(1.0)]], [['set', 0, lib.fhex(1.0)]]]}}
                            fixed.append(c)
    # parser-built equation systems from the C01 grammar: contractive, divergent, oscillating, slowly contracting, simultaneous —
    # the real generated _evaluate runs; long runs (max_iter up to 40, tol 1e-10 / 1e-3) so that many passes are compared
    for _ in range(300 if tier == 'quick' else 3000):
        fixed.append(parsed_case(rng))
    # series that are not float64 (int64, int8, uint8, uint16, float32): oracle only — the model and K are float64
    for _ in range(120 if tier == 'quick' else 1200):
        fixed.append(dtype_case(rng))
    # keyword defaults: every keyword omitted in turn (and all of them) on scripts whose outcome depends on that default
    for omit in sc.default_probe_omissions():
        for name, ps in sc.default_probe_scripts(1).items():
            for entry in ('solve_t', 'solve_period'):
                base = dict(min_iter=rng.choice([0, 2]), max_iter=rng.choice([3, 7]), tol=lib.fhex(rng.choice([1e-10, 1e-9])), offset=rng.choice([0, -1]),
                            failures=rng.choice(['raise', 'ignore']), errors=rng.choice(['raise', 'ignore']), catch_first_error=rng.random() < 0.5)
                c = sc.base_case(nvars=2, check=(0,), endo=(0,), n=3, t=rng.choice([1, -2]), **base)
                c['opts'] = sc.with_omitted(c['opts'], omit)
                c['entry'] = entry
                c['vals'][0][1] = lib.fhex(1.0)
                c['scripts'] = sc.with_list_assignments(rng, {'1': ps}, 0.3)
                fixed.append(c)
    return fixed + cases + span_cases(rng, tier) + [sc.hist_case(rng, errs=('raise',) * 5 + ('ignore',)) for _ in range(400 if tier == 'quick' else 4000)]


def span_cases(rng, tier):
    """solve_period(label) on every span type: the label -> position step of the statement, end to end"""
    out = []
    pal = sc.PALETTE_FINITE
    reps = 1 if tier == 'quick' else 4
    for _ in range(reps):
        for st in [t for t in sc.SPAN_KIND if t not in sc.RX_KIND and t != 'pd_interval']:      # IntervalIndex: kept finding of C05
            for n in range(1, 5):
                for spec in sc.label_specs(st, n)[1:]:
                    mx = rng.randint(0, 4)
                    mn = rng.randint(0, mx + 1) if rng.random() < 0.9 else mx + 1
                    lags, leads = (rng.choice([0, 1]), rng.choice([0, 1])) if rng.random() < 0.25 else (0, 0)
                    c = sc.solve_case(span_type=st, n=n, start=spec, end=None, entry='solve_period', nvars=2, check=(0,), endo=(0,),
                                      lags=lags, leads=leads, min_iter=mn, max_iter=mx, failures=rng.choice(['raise', 'ignore']),
                                      errors='raise', catch_first_error=rng.random() < 0.5,
                                      offset=rng.choice([0, 0, 0, -1, 1]))
                    c['kind'] = 'sp'
                    c['scripts'] = {str(q): {'passes': sc.value_script([[rng.choice(pal)] for _ in range(rng.randint(0, 5))], [0])}
                                    for q in range(n)}
                    for q in range(n):
                        c['vals'][0][q] = lib.fhex(rng.choice(pal))
                    out.append(c)
    return out


PARSED = [
    ('Y = 0.5 * Y + X', {'X': [1.0, 0.0, -2.0], 'Y': [0.0, 2.0, 1e3]}),                     # contractive, fixed point 2X
    ('Y = 0.9 * Y + X', {'X': [1.0, 0.5], 'Y': [0.0, 10.0]}),                               # slowly contractive
    ('Y = 2 * Y + X', {'X': [1.0, 0.0], 'Y': [0.0, 1.0, -1.0]}),                            # divergent (stays at -X if started there)
    ('Y = X - Y', {'X': [1.0, 3.0], 'Y': [0.0, 0.5, 1.5]}),                                 # oscillating (fixed point X/2)
    ('Y = -0.5 * Y + X', {'X': [3.0, 1.0], 'Y': [0.0, 2.0]}),                               # damped oscillation
    ('C = 0.6 * Y\nY = C + G', {'G': [1.0, 2.0], 'C': [0.0], 'Y': [0.0, 5.0]}),             # simultaneous, contractive
    ('A = 0.5 * B + 1\nB = 0.5 * A', {'A': [0.0, 4.0], 'B': [0.0, 1.0]}),                   # two-variable contraction
    ('A = B\nB = A + 1', {'A': [0.0], 'B': [0.0, 1.0]}),                                    # divergent pair
    ('Y = 0.5 * Y[-1] + X', {'X': [1.0, 2.0], 'Y': [0.0, 1.0]}),                            # recursive: settles at once
    ('K = K[-1] + I\nI = 0.25 * K', {'K': [1.0, 2.0], 'I': [0.0, 1.0]}),                    # simultaneous with a lag
]


QUIET = [     # every value stays finite and NumPy reports nothing by default: the arithmetic at most UNDERFLOWS
    ('Y = exp(X)', {'X': [-800.0, -745.0, -710.0, 1.0], 'Y': [0.0, 1.0]}),
    ('Y = A * B', {'A': [1e-200, 1e-170, 2.0], 'B': [1e-200, 1e-160, 0.5], 'Y': [0.0, 1.0]}),
    ('Y = 0.5 * Y + exp(X)', {'X': [-800.0, -1.0], 'Y': [0.0, 2.0]}),
    ('Z = exp(X) * Y\nW = Z * Z', {'X': [-400.0, -800.0], 'Y': [1e-100, 1.0], 'Z': [0.0], 'W': [0.0]}),
]


def parsed_case(rng):
    quiet = rng.random() < 0.25
    eqs, init = (QUIET if quiet else PARSED)[rng.randrange(len(QUIET if quiet else PARSED))]
    n = rng.choice([2, 3])
    p = rng.randrange(1, n)
    t = p if rng.random() < 0.7 else p - n
    mx = rng.choice([0, 1, 2, 3, 5, 8, 13, 25, 40])
    mn = min(rng.choice([0, 0, 1, 2, 7, mx, mx + 1]) if rng.random() < 0.9 else mx, mx + 1)
    o = dict(min_iter=mn, max_iter=mx, tol=lib.fhex(rng.choice([1e-10, 1e-10, 1e-3, 0.5])), offset=rng.choice([0, 0, 0, -1]),
             failures=rng.choice(['raise', 'ignore']), errors='raise', catch_first_error=rng.random() < 0.5)
    ini = {nm: [lib.fhex(rng.choice(c)) for _ in range(n)] for nm, c in init.items()}
    return {'kind': 'parsed', 'equations': eqs, 'n': n, 't': t, 'opts': sc.random_omit(rng, o, 0.1), 'init': ini, 'quiet': quiet}


# --------------------------------------------------------------------------- models whose series are NOT float64 (oracle only)
DTYPES = ['int64', 'uint8', 'float32', 'int8', 'uint16']
DTYPE_EQS = ['Y = X', 'A = B\nB = C', 'Y = X\nZ = Y']
KNOWN_UNSIGNED_SIG = 'C02|convergence-test|unsigned-dtype-wraps'


def dtype_case(rng):
    eqs = rng.choice(DTYPE_EQS)
    n = 3
    p = rng.choice([1, 2])
    names = sorted(set(x for x in eqs.replace('\n', ' ').replace('=', ' ').split()))
    mx = rng.choice([1, 2, 3, 5, 100])
    o = dict(min_iter=rng.choice([0, 0, 1, 2]), max_iter=mx, tol=lib.fhex(float(rng.choice([3, 2, 1, 10]))), offset=0, failures='ignore', errors='raise',
             catch_first_error=rng.random() < 0.5)
    o['min_iter'] = min(o['min_iter'], mx)
    return {'kind': 'dtype', 'equations': eqs, 'dtype': rng.choice(DTYPES), 'n': n, 't': p if rng.random() < 0.7 else p - n, 'opts': o,
            'init': {nm: [rng.randint(0, 9) for _ in range(n)] for nm in names}}


def impl_dtype(case):
    """a parser-built model with integer / unsigned / single-precision series; the check values after every pass are recorded exactly"""
    import fsic
    rec = {'log': [], 'passvecs': []}
    Base = fsic.build_model(fsic.parse_model(case['equations']))

    class Rec(Base):
        def solve_t_before(self, t, **kw):
            rec['log'].append(['before', int(t if t >= 0 else t + len(self.span)), int(kw.get('iteration'))])
            super().solve_t_before(t, **kw)

        def _evaluate(self, t, **kw):
            rec['log'].append(['pass', int(t if t >= 0 else t + len(self.span)), int(kw.get('iteration'))])
            try:
                super()._evaluate(t, **kw)
            finally:
                rec['passvecs'].append([self.__dict__['_' + nm][t].item() for nm in self.check])

        def solve_t_after(self, t, **kw):
            rec['log'].append(['after', int(t if t >= 0 else t + len(self.span)), int(kw.get('iteration'))])
            super().solve_t_after(t, **kw)
    n = case['n']
    m = Rec(range(n), dtype=getattr(np, case['dtype']))
    for nm, vals in case['init'].items():
        if nm in m.names:
            m.__dict__['_' + nm][:] = vals
    p = case['t'] if case['t'] >= 0 else case['t'] + n
    c0 = [m.__dict__['_' + nm][p].item() for nm in m.check]
    try:
        out = ['ret', bool(m.solve_t(case['t'], **sc.solve_kwargs(case['opts'])))]
    except Exception as e:
        c = e.__cause__
        out = ['raise', type(e).__name__, type(c).__name__ if c is not None else None]
    return {'out': out, 'c0': c0, 'passvecs': rec['passvecs'], 'log': rec['log'], 'status': [str(x) for x in m.__dict__['_status']],
            'iters': [int(x) for x in m.__dict__['_iterations']], 'series_dtype': str(m.__dict__['_' + m.check[0]].dtype)}


def oracle_dtype(case, obs):
    """the statement with EXACT arithmetic on the recorded values: first pass k in [max(1,min_iter), max_iter] at which every check
    variable moved by strictly less than tol in absolute value"""
    o = case['opts']
    p = case['t'] if case['t'] >= 0 else case['t'] + case['n']
    if obs['out'][0] == 'raise' and obs['out'][1] != 'NonConvergenceError':
        return []                                   # an evaluation that raises (overflow warning under catch_first_error ...): C06
    tol = lib.unhex(o['tol'])
    seq = [obs['c0']] + obs['passvecs']
    m = len(obs['passvecs'])
    K = None
    for k in range(max(1, o['min_iter']), min(m, o['max_iter']) + 1):
        if all(abs(a - b) < tol for a, b in zip(seq[k], seq[k - 1])):
            K = k
            break
    got = (obs['out'], obs['status'][p], obs['iters'][p], m)
    exp = (['ret', True], '.', K, K) if K is not None else (['ret', False], 'F', o['max_iter'], o['max_iter'])
    if got == exp:
        return []
    what = ('%s model %r, solve_t(%d, tol=%g, min_iter=%d, max_iter=%d): check values %s; expected %s, got %s'
            % (case['dtype'], case['equations'], case['t'], tol, o['min_iter'], o['max_iter'], seq, exp, got))
    if case['dtype'].startswith('uint'):
        return [{'sig': KNOWN_UNSIGNED_SIG, 'what': 'the convergence test subtracts in the unsigned dtype of the series, so a downward move wraps '
                 'around (4 - 5 = 255 for uint8) and is not recognised as smaller than tol; ' + what}]
    return [{'sig': 'C02|dtype|converged-at-k', 'what': what}]


def view(case, obs):
    """the scripted-format case an observation is about (parser-built models: derived from the recorded run)"""
    return obs['as_scripted'] if case.get('kind') == 'parsed' else case


def correspond(cases, obs, tag, tier):
    one = [(i, view(c, o), o) for i, (c, o) in enumerate(zip(cases, obs)) if c.get('kind') not in ('sp', 'hist', 'dtype') and sc.k_comparable(c)]
    hist = [(i, c, o) for i, (c, o) in enumerate(zip(cases, obs)) if c.get('kind') == 'hist' and sc.k_comparable(c)]
    sp = [(i, c, o) for i, (c, o) in enumerate(zip(cases, obs)) if c.get('kind') == 'sp' and sc.k_comparable(c)]
    bad, errs = [], []
    if one:
        b, e = sc.correspond_solve_t([x[1] for x in one], [x[2] for x in one], tag + 'a')
        bad += [one[j][0] for j in b]
        errs += e
    if sp:
        b, e = sc.correspond_solve([x[1] for x in sp], [x[2] for x in sp], tag + 'b')
        bad += [sp[j][0] for j in b]
        errs += e
    if hist:
        b, e = sc.correspond_hist([x[1] for x in hist], [x[2] for x in hist], tag + 'h')
        bad += [hist[j][0] for j in b]
        errs += e
    return sorted(bad), errs


def explain(case, obs):
    if case.get('kind') == 'sp':
        return sc.explain_solve(case, obs)
    if case.get('kind') == 'hist':
        return sc.explain_hist(case, obs)
    return sc.explain_solve_t(view(case, obs), obs)


def guard(case, obs):
    """Inputs inside the guard class of a kept finding: the model mirrors a defect there, K is silent."""
    return case.get('kind') == 'dtype'      # non-float64 series: the model is float64, only the oracle speaks (kept finding: unsigned dtypes)


def _pos(case):
    return case['t'] if case['t'] >= 0 else case['t'] + case['n']


def oracle(case, obs):
    """The C02 statement evaluated directly on the implementation's observations."""
    if case.get('kind') == 'parsed' and case.get('quiet') and obs['out'][:2] == ['raise', 'SolutionError']:
        # "for every model, period and option set in which check values stay finite": these programs stay finite and warning-free under
        # NumPy's default settings (they only underflow), so the pass / convergence rule applies and no SolutionError may come out
        return [{'sig': 'C02|finite-run-raised', 'what': 'the values of %r stay finite (the arithmetic at most underflows) but solve_t(%d, %s) '
                 'raised %s after passes %s' % (case['equations'], case['t'], {k: case['opts'][k] for k in ('errors', 'catch_first_error', 'max_iter')},
                                                obs['out'], obs['passvecs'])}]
    if case.get('kind') == 'dtype':
        return oracle_dtype(case, obs)
    if case.get('kind') == 'sp':
        return oracle_sp(case, obs)
    if case.get('kind') == 'hist':
        return oracle_hist(case, obs)
    return oracle_t(view(case, obs), obs)


def oracle_hist(case, obs):
    """The statement at EVERY solve_t / solve_period step of a history on one instance (earlier solves, copy(), reindex(same span),
    whole-series and cell assignments precede the step): the state before the step plays the part of the start state."""
    fails = []
    for k, c1, o1 in sc.hist_steps_as_solve_t(case, obs):
        for f in oracle_t(c1, o1):
            fails.append({'sig': f['sig'], 'what': 'step %d of a history (%s on a %s span, after %s): %s'
                          % (k, case['calls'][k]['api'], case['span_type'], [x['api'] for x in case['calls'][:k]], f['what'])})
    return fails


def as_solve_t(case, position):
    """the solve_t-format case a solve_period(label) call stands for once the label is resolved"""
    c = dict(case)
    c['t'] = position
    return c


def oracle_sp(case, obs):
    """solve_period(label): identical to solve_t(position of label) on a twin instance, and the statement's clauses hold for it;
    an unknown label (or one that is not a single position) raises KeyError with no change."""
    fails = []

    def bad(sig, what):
        fails.append({'sig': 'C02|' + sig, 'what': what})
    exp = sc.expected_range(case)
    out = obs['out']
    unchanged = (obs['vals'] == case['vals'] and obs['status'] == case['status'] and obs['iters'] == case['iters'] and not obs['log'])
    if exp is None:
        return fails
    if exp[0] == 'keyerror':
        if out[:2] != ['raise', 'KeyError'] or not unchanged:
            bad('solve_period|bad-label', 'solve_period(%r) on a %s span: a label that is unknown or not a single position must raise KeyError '
                'with no change; got %s, unchanged=%s' % (case['start'], case['span_type'], out[:3], unchanged))
        return fails
    if exp[0] != 'range':
        return fails
    a = exp[1]
    tw = obs.get('twin')
    if tw is not None:
        want = tw['out'][:3] if tw['out'][0] == 'raise' else ['ret', tw['out'][1][0]]
        same = (obs['vals'], obs['status'], obs['iters'], obs['log']) == (tw['vals'], tw['status'], tw['iters'], tw['log'])
        if out[:3] != want or not same:
            bad('solve_period|vs-solve_t', 'solve_period(%r) on a %s span must be identical to solve_t(%d): outcome %s vs %s, states equal=%s'
                % (case['start'], case['span_type'], a, out[:3], want, same))
    return fails + oracle_t(as_solve_t(case, a), obs)


def oracle_t(case, obs):
    fails = []

    def bad(sig, what):
        fails.append({'sig': 'C02|' + sig, 'what': what})
    o = case['opts']
    n, p = case['n'], _pos(case)
    tol = lib.unhex(o['tol'])
    out = obs['out']
    unchanged = (obs['vals'] == case['vals'] and obs['status'] == case['status'] and obs['iters'] == case['iters'])
    if o['errors'] not in sc.ERRMODES:
        return fails          # an invalid `errors` value: the statement prescribes nothing (not even WHEN the ValueError may come)
    if o['min_iter'] > o['max_iter']:
        if out[:2] != ['raise', 'ValueError'] or not unchanged or obs['log']:
            bad('min_iter>max_iter', 'min_iter > max_iter must raise ValueError before anything changes; got %s, unchanged=%s' % (out, unchanged))
        return fails
    if p < case.get('lags', 0) or p >= n - case.get('leads', 0):
        # no room for the lags before / the leads after the period: rejected (IndexError) with no change, either spelling of t
        if out[:2] != ['raise', 'IndexError'] or not unchanged or obs['log']:
            bad('infeasible-period', 'a period without room for the model\'s lags/leads must raise IndexError with no change '
                '(n=%d, position=%d, lags=%d, leads=%d); got %s, unchanged=%s, hooks/passes run=%s'
                % (n, p, case.get('lags', 0), case.get('leads', 0), out, unchanged, obs['log']))
        return fails
    vals = [[lib.unhex(x) for x in row] for row in case['vals']]
    if o['offset'] != 0:
        q = p + o['offset']
        if q < 0 or q >= n:
            if out[:2] != ['raise', 'IndexError'] or not unchanged or obs['log']:
                bad('offset-out-of-span', 'offset outside the span must raise IndexError with no change; got %s, unchanged=%s' % (out, unchanged))
            return fails
        for i in case['endo']:
            vals[i][p] = vals[i][q]
    c0 = [vals[i][p] for i in case['check']]
    seq = [c0] + [[lib.unhex(x) for x in v] for v in obs['passvecs']]
    finite = all(np.isfinite(x) for v in seq for x in v)
    raised_inside = out[0] == 'raise' and out[1] in ('SolutionError', 'ValueError')
    if not finite or raised_inside or o['errors'] not in sc.ERRMODES:
        return fails          # outside C02's regime (non-finite values, raising oracles): C06's business
    m = len(obs['passvecs'])
    passes_logged = [e[2] for e in obs['log'] if e[0] == 'pass']
    befores = [e for e in obs['log'] if e[0] == 'before']
    afters = [e for e in obs['log'] if e[0] == 'after']
    if passes_logged != list(range(1, m + 1)):
        bad('pass-numbering', 'passes are not numbered 1..m: %s' % passes_logged)
    lo = max(1, o['min_iter'])
    K = None
    for k in range(lo, min(m, o['max_iter']) + 1):
        if all(abs(np.float64(a) - np.float64(b)) < tol for a, b in zip(seq[k], seq[k - 1])):
            K = k
            break
    others_same = all(obs['status'][i] == case['status'][i] and obs['iters'][i] == case['iters'][i] for i in range(n) if i != p)
    if not others_same:
        bad('other-periods', 'status/iterations changed at a period other than t')
    if K is not None:
        exp = (['ret', True], '.', K, K)
        got = (out, obs['status'][p], obs['iters'][p], m)
        if got != exp:
            bad('converged-at-k', 'first converging pass is k=%d: expected return True, status ".", iterations=%d after exactly %d passes; got %s' % (K, K, K, got))
        if len(befores) != 1 or len(afters) != 1 or obs['log'][0][0] != 'before' or obs['log'][-1][0::2] != ['after', K]:
            bad('hooks', 'hooks must run exactly once (before first pass / after converging pass): %s' % obs['log'])
    else:
        if o['max_iter'] <= 0 and out[0] == 'raise' and out[1] == 'UnboundLocalError':
            bad('max_iter<=0|UnboundLocalError', 'solve_t(t, max_iter=0) raises UnboundLocalError after writing status F (iterations[t] not set)')
            return fails
        exp_out = ['raise', 'NonConvergenceError', None] if o['failures'] == 'raise' else ['ret', False]
        exp = (exp_out, 'F', max(o['max_iter'], 0), max(o['max_iter'], 0))
        got = (out, obs['status'][p], obs['iters'][p], m)
        if got != exp:
            bad('no-converging-k', 'no pass in [max(1,min_iter), max_iter] converged: expected %s; got %s' % (exp, got))
        if len(befores) != 1 or afters:
            bad('hooks', 'pre-hook must run once and post-hook never on a failed period: %s' % obs['log'])
    return fails


def nontrivial(case, obs):
    if case.get('kind') == 'hist':
        return len(obs['passvecs']) >= 2
    if case.get('kind') == 'sp' and obs['out'][:2] == ['raise', 'KeyError']:
        return True
    m = len(obs['passvecs'])
    o = case['opts']
    return m >= 2 or obs['out'][0] == 'raise' or (m >= 1 and m in (o['min_iter'], o['max_iter']))


def bucket(case, obs):
    if case.get('kind') == 'dtype':
        return 'dtype/%s/%s' % (case['dtype'], obs['out'][1] if obs['out'][0] == 'raise' else obs['status'][case['t']])
    if case.get('kind') == 'hist':
        return 'hist/%d calls/%s' % (len(case['calls']), ''.join(sorted(set(obs['status']))))
    o = case['opts']
    if case.get('kind') == 'sp':
        out = obs['out']
        return '/'.join(['solve_period', case['span_type'], out[1] if out[0] == 'raise' else 'ret'])
    b = []
    b.append('off' if o['offset'] else 'nooff')
    if case.get('lags', 0) or case.get('leads', 0):
        p = _pos(case)
        b.append('lagslead:' + ('infeasible' if (p < case.get('lags', 0) or p >= case['n'] - case.get('leads', 0)) else 'feasible'))
    b.append(o['errors'])
    out = obs['out']
    b.append(out[1] if out[0] == 'raise' else ('solved' if out[1] else 'unsolved:' + obs['status'][_pos(case)]))
    return '/'.join(b)


def shrink_candidates(case):
    if case.get('kind') in ('sp', 'parsed', 'dtype'):
        return
    if case.get('kind') == 'hist':
        for i in reversed(range(len(case['calls']))):
            if len(case['calls']) > 1:
                c = copy.deepcopy(case)
                del c['calls'][i]
                yield c
        return
    ps = list(case['scripts'].items())
    for key, sc_ in ps:
        passes = sc_.get('passes', [])
        for i in range(len(passes)):
            c = copy.deepcopy(case)
            del c['scripts'][key]['passes'][i]
            yield c
        for fld in ('before', 'after'):
            if sc_.get(fld):
                c = copy.deepcopy(case)
                c['scripts'][key][fld] = []
                yield c
    if case['opts']['offset']:
        c = copy.deepcopy(case)
        c['opts']['offset'] = 0
        yield c
    if case['entry'] != 'solve_t':
        c = copy.deepcopy(case)
        c['entry'] = 'solve_t'
        yield c
    for fld in ('lags', 'leads'):
        if case.get(fld, 0) > 0:
            c = copy.deepcopy(case)
            c[fld] -= 1
            yield c
    for k in ('min_iter', 'max_iter'):
        if case['opts'][k] > 0:
            c = copy.deepcopy(case)
            c['opts'][k] -= 1
            yield c
