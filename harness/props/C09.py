"""C09 — container series keep their length and dtype under every assignment history."""
import copy
import itertools
import json

import lib
import container_common as cc

ID = 'C09'
PROPS_FILE = 'Props/C09.v'
MODEL_FILES = ['Container/Container.v', 'Container/Alias.v']
K_NAME = ('K_container (Container.np_step / np_init_model, OCaml extraction, vs VectorContainer / BaseModel / BaseLinker: outcome class, '
          'index, dtype+shape+cells of every series, values shape or exception, size, nbytes, strict, _attributes, attribute names after every op)')
RULE = ('operation sequences over {add_variable, attribute set, item set by name / (name,label) / (name,label-slice), replace_values, '
        'values setter (array/scalar/list), add_attribute, strict toggle, read-only hooks (_ipython_key_completions_, dir(), in, nbytes), '
        'cross-instance steps (copy()/deepcopy/reindex() siblings that are then operated on, the object replaced by its copy, attribute reads)}: exhaustive sequences of length <= 3 over a reduced alphabet on '
        'VectorContainer, random sequences of length <= 40 on VectorContainer, BaseModel, BaseLinker (with and without a submodel); operands: '
        'scalars (int, half-integer floats, nan, +-inf, bool, str, None), lists/tuples/ranges of right and wrong length, nested and ragged lists, '
        'ndarrays of shapes (), (1,), (n,), (n+-1,), (1,n), (n,1), (2,n), (r,n) and dtypes float/int/bool/str/object. '
        'Non-trivial = the sequence contains at least one accepted and one rejected operation; distinct by hash of the case.')
TRUSTED = ['harness/container_common.py (case encoding, real-object driver, OCaml driver text, extraction via ExtrOcamlBasic/ExtrOcamlString)',
           'difflib.get_close_matches is an oracle: its answer is recorded from the run and handed to the model',
           'K is STRICTER than the oracle (a difference there is reported as no-failing-input-found, not as a property failure): it compares '
           'the order of _attributes, the set of attribute names, which of ValueError / TypeError NumPy raises for a sequence into one cell, '
           'and the near-miss candidate computed with difflib cutoff 0.1; the observation reads the private layout (__dict__: "_" + name, '
           '_attributes, _strict) with a fallback to the public item access - a change of that layout needs the harness to follow']
ASSUMPTIONS = ['SCOPE: the object keeps its series and its own bookkeeping in one __dict__; an attribute assignment / add_attribute that targets '
               'the bookkeeping (span, index, a name starting with "_", for models names / dtype, for linkers also submodels / name - neither is '
               'registered in _attributes) is accepted by the code - also under strict=True - and then breaks the invariants (c.span = [1]; '
               'm.names = [...]; m.dtype = int; c._X = array([2., 4.]); l.submodels = {} drops l.size from 9 to 3; l.name = "A", a '
               'submodel id, makes l.size raise TypeError). The property lists '
               '"variable creation, whole-series, positional, label and bulk assignment, values replacement": such assignments are outside it. '
               'The theorems carry this as the hypothesis in_scope (C09_*_needs_scope_refuted show it is necessary); the generator produces '
               'a few of them (K compares the model, which mirrors span / index / names / dtype assignments; submodels / name assignments '
               'are not generated: the operand alphabet has no mapping), the oracle stops judging a history at the first one',
               'names used by operations are otherwise ordinary identifiers; '
               '"attributes"/"strict" are used only as item-set names (KeyError since fix 216fc36) and add_variable names '
               '(DuplicateNameError since fix d82b358)',
               'operand cells: |ints| < 2**31, floats are half-integers or nan/+-inf, strings are words or decimal literals of the forms [-]digits, [-]digits.0, [-]digits.5 '
               '(what float(text) / int(text) parse; no exponents, blanks, underscores, "NaN"/"Infinity" spellings); bytes arrays are not generated; no object-dtype series '
               '(add_variable without dtype never receives None)',
               'span = a Python list / tuple / range of ints (looked up with .index)']
EXHAUSTIVE = {'quick': False, 'thorough': False}
CASE_TIMEOUT = 60            # wall clock per case, first import of numpy / pandas / fsic included: ample also on a loaded machine

SUB = ('sub', 'sub2')            # sub-array dtypes '2f8' / (float, 2): astype() adds a dimension (Container.v RSub)
VARS = ['X', 'Y', 'Z', 'W', 'x']
ATTRS = ['foo', 'bar', 'Xx', 'values', 'strict', 'size', 'copy']       # 'copy': a method name (an attribute of the class, no series)
SPANS = [[10, 11, 12], [0, 1, 2, 3], [5], [], [7, 7, 8], [2000, 2001, 2002, 2003, 2004], [3, 1, 2]]


# --------------------------------------------------------------------------- operands
def S(v):
    return ['S', v]


SCALARS = [['i', 0], ['i', 1], ['i', -3], ['i', 7], ['f', 5], ['f', -1], ['f', 4], ['nan'], ['pinf'], ['ninf'],
           ['b', 1], ['b', 0], ['s', 'a'], ['s', 'bc'], ['s', 'xyz'], ['s', ''], ['none'], ['s', '1.5'], ['s', '13']]
BY_KIND = {
    'i': [['i', 0], ['i', 1], ['i', -3], ['i', 7], ['i', 12], ['i', 2 ** 40]],
    'f': [['f', 5], ['f', -1], ['f', 4], ['f', 0], ['nan'], ['pinf'], ['ninf']],
    'b': [['b', 1], ['b', 0]],
    's': [['s', 'a'], ['s', 'bc'], ['s', 'xyz'], ['s', ''], ['s', 'abcdefgh'],
          ['s', '1.5'], ['s', '13'], ['s', '-3'], ['s', '13.5'], ['s', '7.0'], ['s', 'n/a'], ['s', '2.5']],   # text that spells numbers
}


def rand_cell(rng, kind=None):
    if kind is None:
        return rng.choice(SCALARS)
    return rng.choice(BY_KIND[kind])


def flat_list(rng, k, mixed=False, allow_none=True):
    kind = rng.choice(['i', 'f', 'b', 's', 'i', 'f'])
    out = []
    for _ in range(k):
        if mixed and rng.random() < 0.3:
            c = rng.choice(SCALARS)
            if c[0] == 'none' and not allow_none:
                c = ['i', 2]
            out.append(S(c))
        else:
            out.append(S(rand_cell(rng, kind)))
    return out


def rand_array(rng, shape, allow_obj=True):
    kinds = ['F', 'I', 'B', 'U'] + (['O'] if allow_obj and rng.random() < 0.3 else [])
    dt = rng.choice(kinds)
    cnt = 1
    for d in shape:
        cnt *= d
    if dt == 'F':
        cells = [rand_cell(rng, 'f') for _ in range(cnt)]
    elif dt == 'I':
        cells = [rand_cell(rng, 'i') for _ in range(cnt)]
    elif dt == 'B':
        cells = [rand_cell(rng, 'b') for _ in range(cnt)]
    elif dt == 'U':
        cells = [rand_cell(rng, 's') for _ in range(cnt)]
        w = max([len(c[1]) for c in cells] + [1])
        dt = ['U', w]
    else:
        cells = [rng.choice([['i', 1], ['f', 5], ['none'], ['s', 'q'], ['b', 1], ['nan']]) for _ in range(cnt)]
    return ['A', list(shape), dt, cells]


def text_column(rng, k):
    """A column of a text table as a NumPy str array: cells that spell numbers first, one cell LATER that does not convert
    ('n/a' for floats, '13.5' also for ints) - NumPy converts text element by element."""
    k = max(k, 0)
    cells = [['s', rng.choice(['1.5', '2.5', '13', '-3', '7.0', '13'])] for _ in range(k)]
    if k >= 2 and rng.random() < 0.8:
        cells[rng.randint(1, k - 1)] = ['s', rng.choice(['n/a', '13.5', '', 'x'])]
    return ['A', [k], ['U', max([len(c[1]) for c in cells] + [1])], cells]


def rand_operand(rng, n, allow_none=True, allow_obj=True):
    """An operand for a whole-series context of n periods."""
    if rng.random() < 0.06:
        return text_column(rng, rng.choice([n, n, n, n + 1]))
    r = rng.random()
    if r < 0.22:
        c = rng.choice(SCALARS)
        if c[0] == 'none' and not allow_none:
            c = ['f', 3]
        return S(c)
    if r < 0.45:
        k = rng.choice([n, n, n, n, n - 1, n + 1, 0, 1])
        return [rng.choice(['L', 'L', 'T']), flat_list(rng, max(k, 0), mixed=rng.random() < 0.3, allow_none=allow_none)]
    if r < 0.6:
        q = rng.random()
        if q < 0.25:
            return ['L', [['L', flat_list(rng, n, allow_none=allow_none)]]]                            # 1 x n
        if q < 0.5:
            return ['L', [['L', flat_list(rng, 1, allow_none=allow_none)] for _ in range(n)]]          # n x 1
        if q < 0.7:
            return ['L', [['L', flat_list(rng, 2, allow_none=allow_none)] for _ in range(n)]]          # n x 2  (was finding #9)
        if q < 0.85:
            return ['L', [['L', flat_list(rng, 2, allow_none=allow_none)], ['L', flat_list(rng, 1, allow_none=allow_none)]]]    # ragged
        return ['L', [S(['i', 1]), ['L', [S(['i', 2])]]] + flat_list(rng, max(n - 2, 0), allow_none=allow_none)]  # scalar + list
    if r < 0.7:
        q = rng.random()
        if q < 0.6:
            return ['R', 0, n, 1]
        if q < 0.8:
            return ['R', 0, n + 1, 1]
        return ['R', 0, 2 * n, 2] if q < 0.9 else ['R', n, 0, -1]
    shape = rng.choice([(n,), (n,), (n,), (1,), (), (1, n), (n, 1), (n + 1,), (max(n - 1, 0),), (2, n), (1, 1), (n, n), (1, 1, n)])
    return rand_array(rng, shape, allow_obj=allow_obj)


def rand_slice_operand(rng, k):
    if rng.random() < 0.1:
        return text_column(rng, rng.choice([k, k, k, k + 1]))
    r = rng.random()
    if r < 0.3:
        return S(rng.choice(SCALARS))
    if r < 0.65:
        m = rng.choice([k, k, k, 1, k + 1, 0])
        return [rng.choice(['L', 'T']), flat_list(rng, max(m, 0), mixed=rng.random() < 0.4)]
    if r < 0.72:
        return ['R', 0, k, 1]
    if r < 0.78:
        return ['L', [['L', flat_list(rng, k)]]]
    shape = rng.choice([(k,), (k,), (1,), (), (1, k), (k, 1), (k + 1,), (1, 1)])
    return rand_array(rng, shape)


def rand_label(rng, span):
    if span and rng.random() < 0.85:
        return rng.choice(span)
    return rng.choice([99, -1, 0])


def rand_key(rng, span, names):
    r = rng.random()
    nm = rng.choice(names) if rng.random() < 0.85 else rng.choice(['Q', 'attributes', 'strict', 'foo'])
    if r < 0.3:
        return ['n', nm]
    if r < 0.6:
        return ['l', nm, rand_label(rng, span)]
    if r < 0.95:
        a = rand_label(rng, span) if rng.random() < 0.7 else None
        b = rand_label(rng, span) if rng.random() < 0.7 else None
        st = rng.choice([None, None, None, 1, 2, -1, 0, -2, 3])
        return ['sl', nm, a, b, st]
    return [rng.choice(['t3', 'ko'])]


def rand_op(rng, span, kind, nrows_hint, pool=None, cross=True, book=True):
    VARS = pool if pool is not None else globals()['VARS']
    n = len(span)
    r = rng.random()
    vc = kind == 'vc'
    if cross and rng.random() < 0.05:
        # histories across instances: a copy / reindexed copy is made and operated on (the object under test must not notice), the
        # object is replaced by its copy, an attribute is read before what follows
        q = rng.random()
        how = rng.choice(['copy', 'reindex', 'deepcopy'])
        if q < 0.4:
            return ['fork', how, rand_op(rng, span, kind, nrows_hint, pool=pool, cross=False, book=False)]
        if q < 0.6:
            return ['sib', rand_op(rng, span, kind, nrows_hint, pool=pool, cross=False, book=False)]
        if q < 0.8:
            return ['become', how]
        return ['getattr', rng.choice(VARS)]
    if cross and book and rng.random() < 0.012:
        # OUT OF SCOPE (see ASSUMPTIONS): assignments to the object's own bookkeeping; reserved names for add_variable (fix d82b358)
        q = rng.random()
        if q < 0.25:
            return ['setattr', 'span', ['L', [S(['i', x]) for x in rng.choice([[1], list(span), list(span)[:1], []])]]]
        if q < 0.4 and vc:
            return ['setattr', 'index', ['L', [S(['s', x]) for x in rng.sample(VARS, rng.randint(0, min(2, len(VARS))))]]]
        if q < 0.55 and not vc:
            return ['setattr', 'names', ['L', [S(['s', x]) for x in rng.sample(VARS, rng.randint(0, min(2, len(VARS))))]]]
        if q < 0.65 and not vc:
            return ['setattr', 'dtype', S(['s', rng.choice(['int', 'float', 'bool', 'str'])])]
        if q < 0.8:
            return [rng.choice(['setattr', 'addattr']), '_' + rng.choice(['q', 'foo', 'N']), S(['i', 1])]
        return ['addvar', rng.choice(['attributes', 'strict']), S(['i', 1]), None]
    if r < 0.05:
        # public read-only hooks: they must leave the object exactly as it was
        q = rng.choice(['completions', 'dir', 'contains', 'contains'] + ([] if kind == 'linker' else ['nbytes']))
        if q == 'contains':
            return ['query', ['contains', rng.choice(VARS + ['Q', 'status', 'foo', 'attributes'])]]
        return ['query', q]
    if r < 0.18:
        nm = rng.choice(VARS)
        dt = rng.choice([None, None, 'f', 'i', 's', 'b']) if rng.random() > 0.04 else rng.choice(SUB)   # rarely a sub-array dtype (fix cf99a8a)
        # no None without dtype on a VectorContainer (would create an object-dtype series: outside the modelled dtypes)
        no_none = vc and dt is None
        return ['addvar', nm, rand_operand(rng, n, allow_none=not no_none, allow_obj=not no_none), dt]
    if r < 0.42:
        return ['setattr', rng.choice(VARS), rand_operand(rng, n)]
    if r < 0.5:
        nm = rng.choice(ATTRS)
        if not vc and rng.random() < 0.1:
            # an attribute the constructor registered: updating it keeps working, also under strict=True
            return ['setattr', rng.choice(['lags', 'leads', 'check']), S(['i', rng.randint(0, 3)])]
        if nm == 'strict':
            return ['setattr', 'strict', S(rng.choice([['b', 1], ['b', 0], ['i', 1], ['i', 0]]))]
        if nm == 'values':
            q = rng.random()
            if q < 0.4:
                return ['setattr', 'values', S(rng.choice(SCALARS))]
            if q < 0.55:
                return ['setattr', 'values', ['L', flat_list(rng, rng.choice([n, n, 1, n + 1]))]]
            rows = rng.choice([nrows_hint, nrows_hint, nrows_hint + 1, max(nrows_hint - 1, 0), 1, 2])
            return ['setattr', 'values', rand_array(rng, rng.choice([(rows, n), (rows, n), (rows, n + 1), (n,), (rows * n,)]))]
        return ['setattr', nm, rng.choice([S(rng.choice(SCALARS)), ['L', flat_list(rng, 2)]])]
    if r < 0.8:
        k = rand_key(rng, span, VARS)
        if k[0] == 'n':
            v = rand_operand(rng, n)
        elif k[0] == 'l':
            v = rng.choice([S(rng.choice(SCALARS)), S(rng.choice(SCALARS)), ['L', flat_list(rng, 1)], ['T', flat_list(rng, 2)],
                            rand_array(rng, rng.choice([(), (), (1,), (2,), (1, 1)])), ['R', 0, 1, 1], ['L', []]])
            if k[1] == 'attributes':
                v = S(rng.choice([['s', 'foo'], ['s', 'zz'], ['i', 3]]))
        else:
            v = rand_slice_operand(rng, rng.choice([0, 1, 2, n]))
        return ['setitem', k, v]
    if r < 0.9:
        m = rng.randint(0, 3)
        nms = rng.sample(VARS + ['Q'], min(m, len(VARS) + 1))
        return ['replace', [[x, rand_operand(rng, n)] for x in nms]]
    return ['addattr', rng.choice(ATTRS + VARS[:2]), S(rng.choice(SCALARS))]


def rand_case(rng, kind, max_ops):
    span = list(rng.choice(SPANS))
    n = len(span)
    case = {'kind': kind, 'span': span, 'strict': rng.random() < 0.25, 'ops': [], 'span_type': rng.choice(['list', 'list', 'tuple', 'range'])}
    rows = 0
    if kind != 'vc':
        names = rng.sample(VARS[:4], rng.randint(0, 3))
        case['names'] = names
        case['dreq'] = rng.choice(['f', 'f', 'f', 'i', 's', 'b']) if rng.random() > 0.015 else rng.choice(SUB)
        case['default'] = S(rng.choice([['f', 0], ['i', 1], ['f', 3]]))
        ivs = []
        for x in rng.sample(names + ['Q'], rng.randint(0, min(2, len(names) + 1))):
            ivs.append([x, rand_operand(rng, n, allow_obj=False)])
        case['ivs'] = ivs
        case['extra'] = 0
        if kind == 'linker':
            case['strict'] = False
            if n > 0 and rng.random() < 0.5:
                case['extra'] = 2 * n
        rows = len(names)
    # models also carry the solution-tracking series `status` (<U1) and `iterations` (int64): variables like any other
    pool = None if kind == 'vc' or rng.random() < 0.6 else VARS + ['status', 'iterations']
    scoped = True
    for _ in range(rng.randint(1, max_ops)):
        op = rand_op(rng, span, kind, rows, pool=pool, cross=scoped)
        if op[0] == 'addvar':
            rows += 1
        if op[0] in ('setattr', 'addattr') and bookkeeping_name(case, op[1]):
            scoped = False            # after an out-of-scope assignment: no steps across instances, no final reindex (copies of a broken object)
        case['ops'].append(op)
    # a final reindex() onto another span: kept / dropped / new / reordered periods (the linker has no reindex)
    if kind != 'linker' and scoped and rng.random() < 0.5:
        top = max(span + [0])
        case['rx'] = rng.choice([span[1:] + [top + 1], [top + 2] + span, list(reversed(span)), span[:1], [], span + [top + 1, top + 2],
                                 [x for x in span if x % 2 == 0] + [top + 5]])
    return case


def reduced_alphabet():
    """12 operations on a 3-period span: each important branch once."""
    li = lambda *xs: ['L', [S(['i', x]) for x in xs]]      # noqa: E731
    return [
        ['addvar', 'X', li(1, 2, 3), None],
        ['addvar', 'Y', S(['f', 5]), 'i'],
        ['addvar', 'X', li(1, 2), 'f'],
        ['setattr', 'X', ['L', [li(1, 2), li(3, 4), li(5, 6)]]],
        ['setattr', 'X', ['A', [3], 'U', [['s', 'a']] * 3]] if False else ['setattr', 'X', ['A', [3], ['U', 1], [['s', 'a'], ['s', 'b'], ['s', 'c']]]],
        ['setattr', 'Y', S(['nan'])],
        ['setattr', 'strict', S(['b', 1])],
        ['setattr', 'foo', S(['i', 1])],
        ['setitem', ['sl', 'X', 10, 11, None], ['L', [S(['i', 8]), S(['none'])]]],
        ['setitem', ['l', 'attributes', 10], S(['s', 'foo'])],
        ['replace', [['Y', S(['i', 4])], ['X', li(1, 2, 3, 4)]]],
        ['setattr', 'values', S(['f', 3])],
        ['setattr', 'values', ['A', [2, 3], 'F', [['f', i] for i in range(6)]]],
        ['query', 'completions'],
    ]


def li3(*xs):
    return ['L', [S(['i', x]) for x in xs]]


def gen(rng, tier):
    cases = []
    # fixed boundary cases first
    for span in ([10, 11, 12], []):
        cases.append({'kind': 'vc', 'span': span, 'strict': False, 'ops': [
            ['addvar', 'X', ['L', [S(['i', i]) for i in range(len(span))]], None],
            ['setattr', 'X', ['L', [['L', [S(['i', 1]), S(['i', 2])]] for _ in span]]],
            ['setattr', 'X', ['A', [len(span)], ['U', 1], [['s', 'a']] * len(span)]],
            ['setitem', ['l', 'attributes', 10], S(['s', 'zz'])]]})
    # NumPy's order of checks for a sequence into a label slice: nesting deeper than the series -> ValueError before any cast;
    # a flat sequence -> element casts (OverflowError / TypeError / ValueError) before the length test
    ninf, none = S(['ninf']), S(['none'])
    cases.append({'kind': 'vc', 'span': [10, 11, 12], 'strict': False, 'ops': [
        ['addvar', 'Y', S(['i', 1]), 'i'],
        ['setitem', ['sl', 'Y', 10, 10, None], ['L', [['L', [ninf]]]]],
        ['setitem', ['sl', 'Y', 10, 10, None], ['L', [ninf, S(['i', 1]), S(['i', 2])]]],
        ['setitem', ['sl', 'Y', 10, 10, None], ['L', [none, S(['i', 1]), S(['i', 2])]]],
        ['setitem', ['sl', 'Y', 10, 11, None], ['L', [['L', [S(['i', 1]), S(['i', 2])]]]]],
        ['setitem', ['sl', 'Y', 10, 11, None], ['L', [S(['i', 1]), S(['i', 2]), S(['i', 3])]]],
        ['setitem', ['sl', 'Y', 12, 10, -1], ['L', [S(['i', 7]), S(['i', 8]), S(['i', 9])]]],
        ['setattr', 'strict', S(['b', 1])], ['setattr', 'values', S(['i', 5])], ['setattr', 'strict', S(['b', 0])],
        ['setattr', 'values', S(['i', 5])], ['setattr', 'strict', S(['b', 1])], ['setattr', 'values', S(['i', 6])]]})
    # fixed-width string series under whole-series assignment of other widths; histories across copies
    sl = lambda *xs: ['L', [S(['s', x]) for x in xs]]      # noqa: E731
    cases.append({'kind': 'model', 'span': [10, 11, 12], 'strict': False, 'names': ['X'], 'dreq': 'f', 'default': S(['f', 0]), 'ivs': [],
                  'extra': 0, 'ops': [
        ['setattr', 'status', sl('ab', 'c', '')], ['setitem', ['n', 'status'], sl('xyz', 'bc', 'a')], ['setattr', 'status', S(['s', 'bc'])],
        ['addvar', 'T', sl('a', 'bc', 'xyz'), None], ['setattr', 'T', sl('xyzxyz', '', 'b')], ['setitem', ['sl', 'T', 10, 11, None], sl('qqqqq', 'r')],
        ['addvar', 'U', S(['s', 'xyz']), 's'], ['setattr', 'U', S(['i', 12])], ['setattr', 'values', S(['s', 'bc'])],
        ['fork', 'reindex', ['addvar', 'N', S(['i', 1]), None]], ['addvar', 'M', S(['i', 2]), None], ['sib', ['addvar', 'M2', S(['i', 3]), None]],
        ['fork', 'copy', ['addattr', 'foo', S(['i', 1])]], ['addattr', 'foo', S(['i', 2])], ['sib', ['setattr', 'X', S(['i', 9])]],
        ['become', 'reindex'], ['addvar', 'P', S(['i', 1]), None], ['sib', ['addvar', 'P2', S(['i', 1]), None]], ['setattr', 'strict', S(['b', 1])],
        ['sib', ['setattr', 'bar', S(['i', 1])]], ['become', 'copy'], ['sib', ['setattr', 'strict', S(['b', 0])]], ['setattr', 'bar', S(['i', 1])],
        ['getattr', 'X'], ['become', 'deepcopy'], ['setitem', ['l', 'X', 10], S(['i', 5])], ['sib', ['setitem', ['l', 'X', 11], S(['i', 6])]]]})
    cases.append({'kind': 'vc', 'span': [10, 11, 12], 'strict': False, 'ops': [
        ['addvar', 'X', li3(1, 2, 3), None], ['fork', 'reindex', ['addvar', 'Y', S(['i', 1]), None]], ['fork', 'copy', ['addvar', 'Z', S(['i', 1]), None]],
        ['become', 'reindex'], ['sib', ['addvar', 'W', S(['i', 1]), None]], ['addvar', 'W', S(['f', 3]), None], ['query', 'completions']]})
    # reserved names (fix d82b358): '_' + name taken by the bookkeeping or by an attribute made earlier
    cases.append({'kind': 'vc', 'span': [10, 11, 12], 'strict': False, 'ops': [
        ['addvar', 'X', li3(1, 2, 3), None], ['addvar', 'attributes', S(['i', 0]), None], ['addvar', 'strict', li3(1, 0, 1), None],
        ['setattr', 'foo', S(['i', 1])], ['setattr', 'X', li3(4, 5, 6)]]})
    cases.append({'kind': 'model', 'span': [10, 11, 12], 'strict': True, 'names': ['X'], 'dreq': 'f', 'default': S(['f', 0]), 'ivs': [], 'extra': 0,
                  'ops': [['addvar', 'attributes', S(['i', 0]), None], ['addvar', 'strict', S(['i', 0]), 'b'], ['setattr', 'X', li3(4, 5, 6)]]})
    cases.append({'kind': 'vc', 'span': [10, 11, 12], 'strict': False, 'ops': [
        ['addattr', '_q', S(['i', 1])], ['addvar', 'q', S(['i', 0]), None], ['addvar', 'X', li3(1, 2, 3), None]]})
    # text columns (NumPy str arrays) whose LATER cell does not convert, into float and int series: whole-series assignment by
    # attribute / item / replace_values and label-slice assignment, on a container, a model and a linker: all-or-nothing
    def U(*xs):
        return ['A', [len(xs)], ['U', max(len(x) for x in xs)], [['s', x] for x in xs]]
    text_ops = [
        ['setattr', 'X', U('1.5', '2.5', 'n/a')], ['setitem', ['n', 'X'], U('1.5', 'n/a', '2.5')], ['replace', [['X', U('7.0', '2.5', 'x')]]],
        ['setitem', ['sl', 'X', 10, 11, None], U('1.5', 'n/a')], ['setitem', ['sl', 'X', 10, 12, None], U('1.5', '2.5', '')],
        ['setattr', 'N', U('13', '13.5', '7')], ['setitem', ['n', 'N'], U('13', '-3', '7.0')], ['replace', [['N', U('13', '7', 'n/a')]]],
        ['setitem', ['sl', 'N', 11, 12, None], U('13', '13.5')], ['setattr', 'X', U('1.5', '-3', '7.0')], ['setattr', 'N', U('13', '-3', '7')],
        ['setitem', ['sl', 'N', 10, 12, 2], U('5', 'q')], ['setattr', 'X', ['L', [S(['s', '1.5']), S(['s', '2.5']), S(['s', 'n/a'])]]]]
    cases.append({'kind': 'vc', 'span': [10, 11, 12], 'strict': False, 'ops': [
        ['addvar', 'X', li3(1, 2, 3), 'f'], ['addvar', 'N', li3(1, 2, 3), 'i']] + copy.deepcopy(text_ops)})
    for kind, extra in (('model', 0), ('linker', 0), ('linker', 6)):
        cases.append({'kind': kind, 'span': [10, 11, 12], 'strict': False, 'names': ['X'], 'dreq': 'f', 'default': S(['f', 0]), 'ivs': [],
                      'extra': extra, 'ops': [['addvar', 'N', li3(1, 2, 3), 'i']] + copy.deepcopy(text_ops)})
    # sub-array dtypes (fix cf99a8a): refused by add_variable and by a model created with such a dtype
    arr3 = ['A', [3], 'F', [['f', 1], ['f', 2], ['f', 3]]]
    for sub in SUB:
        cases.append({'kind': 'vc', 'span': [10, 11, 12], 'strict': False, 'ops': [
            ['addvar', 'X', li3(1, 2, 3), None], ['addvar', 'N', S(['i', 0]), sub], ['addvar', 'N', li3(1, 2, 3), sub], ['addvar', 'N', arr3, sub],
            ['addvar', 'N', S(['s', 'a']), sub], ['addvar', 'N', S(['i', 0]), 'f'], ['setattr', 'values', S(['i', 5])]]})
        cases.append({'kind': 'model', 'span': [10, 11, 12], 'strict': False, 'names': ['X'], 'dreq': sub, 'default': S(['f', 0]), 'ivs': [], 'extra': 0,
                      'ops': [['setattr', 'X', li3(4, 5, 6)]]})
        cases.append({'kind': 'model', 'span': [10, 11, 12], 'strict': False, 'names': [], 'dreq': sub, 'default': S(['f', 0]), 'ivs': [], 'extra': 0,
                      'ops': [['addvar', 'N', S(['i', 0]), None], ['addvar', 'N', S(['i', 0]), 'f'], ['addvar', 'M', li3(1, 2, 3), None]]})
    # under strict=True: updating a REGISTERED attribute keeps working (add_attribute itself is allowed under strict)
    cases.append({'kind': 'vc', 'span': [10, 11, 12], 'strict': True, 'ops': [
        ['addattr', 'foo', S(['i', 1])], ['setattr', 'foo', S(['i', 2])], ['addvar', 'X', li3(1, 2, 3), None], ['setattr', 'foo', li3(1, 2, 3)],
        ['setattr', 'fo', S(['i', 2])]]})
    cases.append({'kind': 'model', 'span': [10, 11, 12], 'strict': True, 'names': ['X'], 'dreq': 'f', 'default': S(['f', 0]), 'ivs': [], 'extra': 0,
                  'ops': [['setattr', 'lags', S(['i', 2])], ['setattr', 'check', ['L', []]], ['setattr', 'X', li3(4, 5, 6)], ['setattr', 'lag', S(['i', 2])]]})
    # a rejected add_variable leaves nothing behind: the same name can be created afterwards
    cases.append({'kind': 'vc', 'span': [10, 11, 12], 'strict': False, 'ops': [
        ['addvar', 'X', ['L', [S(['i', 1]), S(['i', 2])]], None], ['addvar', 'X', li3(1, 2, 3), None],
        ['addvar', 'Y', S(['s', 'a']), 'f'], ['addvar', 'Y', S(['i', 1]), 'f']]})
    # two variables made from one right-shaped array must not share it (nor refer to the caller's array)
    cases.append({'kind': 'vc', 'span': [10, 11, 12], 'strict': False, 'ops': [
        ['addvar', 'X', arr3, None], ['addvar', 'Y', arr3, None], ['setitem', ['l', 'X', 10], S(['i', 9])], ['setitem', ['sl', 'X', 11, 12, None], ['L', [S(['i', 7]), S(['i', 8])]]],
        ['replace', [['X', arr3], ['Y', arr3]]]]})
    cases.append({'kind': 'model', 'span': [10, 11, 12], 'strict': False, 'names': ['X', 'Y'], 'dreq': 'f', 'default': S(['f', 0]),
                  'ivs': [['X', arr3], ['Y', arr3]], 'extra': 0, 'ops': [['setitem', ['l', 'X', 10], S(['i', 9])]]})
    alpha = reduced_alphabet()
    depth = 3
    seqs = list(itertools.product(range(len(alpha)), repeat=depth))
    if tier == 'quick':
        seqs = rng.sample(seqs, 700) + [s for s in itertools.product(range(len(alpha)), repeat=2)]
    for sq in seqs:
        cases.append({'kind': 'vc', 'span': [10, 11, 12], 'strict': False, 'ops': [copy.deepcopy(alpha[i]) for i in sq]})
    n_rand = 5000 if tier == 'quick' else 60000
    for i in range(n_rand):
        kind = ['vc', 'vc', 'model', 'linker'][i % 4]
        cases.append(rand_case(rng, kind, 40 if i % 3 else 12))
    return cases


def impl(case):
    return cc.impl_run(case)


def correspond(cases, obs, tag, tier):
    lines = []
    for c, o in zip(cases, obs):
        hints = [s.get('hint') for s in o.get('steps', [])]
        lines.append(cc.enc_case(c, hints))
    res, e = cc.run_model(lines)
    if e:
        return [], [e]
    bad = []
    for i, (m, o) in enumerate(zip(res, obs)):
        d = cc.compare(m, o)
        if d:
            bad.append(i)
    return bad, []


def explain(case, obs):
    hints = [s.get('hint') for s in obs.get('steps', [])]
    res, e = cc.run_model([cc.enc_case(case, hints)])
    if e:
        return e
    return {'first_difference': cc.compare(res[0], obs), 'model': res[0]}


# --------------------------------------------------------------------------- the property, directly on observations
def guard(case, obs):
    """C09 has no kept finding left (partial writes: fix 5dde979, values under strict: fix 49a73ab): K is compared everywhere."""
    return False


def _series(st):
    return {v[0]: v[1:] for v in st['vars']}


def _target_names(op):
    t = op[0]
    if t == 'query':
        return [op[1][1]] if isinstance(op[1], list) else []
    if t in cc.CROSS_OPS:
        return []
    if t in ('addvar', 'setattr', 'addattr'):
        return [op[1]]
    if t == 'setitem':
        return [op[1][1]] if len(op[1]) > 1 else []
    return [k for k, _ in op[1]]


def _slice_count(span, a, b, st):
    """Number of periods addressed by obj[name, a:b:st] (labels inclusive), None when the key itself must be rejected."""
    n = len(span)
    if n == 0:
        return None
    try:
        sl = span.index(span[0] if a is None else a)
        el = span.index(span[-1] if b is None else b) + 1
    except ValueError:
        return None
    step = 1 if st is None else st
    if step == 0:
        return None
    return len(range(n)[sl:el:step])


def _reindex_failures(case, obs, final, bad):
    """reindex(): the result is again a container of the same variables, one cell per NEW period, dtypes kept; a period that was there
    keeps its cell (labels looked up by first occurrence), the original is untouched (checked by the caller through `final`)."""
    rx, st = case.get('rx'), obs.get('reindex')
    if rx is None or st is None or 'copy' in final.get('adict', []):
        return                        # (an ad hoc attribute called `copy` hides the method reindex() relies on)
    if not isinstance(st, dict):
        bad('reindex|raises', 'reindex(%s) raised %s' % (rx, st))
        return
    if st['index'] != final['index'] or st['names'] != final['names']:
        bad('reindex|variables-changed', 'reindex(%s): variables %s -> %s' % (rx, final['index'], st['index']))
        return
    span = case['span']
    for (name, dt, shape, cells), (name0, dt0, shape0, cells0) in zip(st['vars'], final['vars']):
        if dt != dt0 or shape != [len(rx)]:
            bad('reindex|series-shape-dtype', 'reindex(%s): series %s has dtype %s shape %s (was %s)' % (rx, name, dt, shape, dt0))
            continue
        for i, lab in enumerate(rx):
            if lab in span and cells[i] != cells0[span.index(lab)]:
                bad('reindex|cell-not-carried-over', 'reindex(%s): %s at period %s is %s, was %s' % (rx, name, lab, cells[i], cells0[span.index(lab)]))
                break


def bookkeeping_name(case, name):
    """The names whose assignment edits the object's own bookkeeping (Container.v `bookkeeping`)."""
    return (name in ('span', 'index') or name.startswith('_') or (case['kind'] != 'vc' and name in ('names', 'dtype'))
            or (case['kind'] == 'linker' and name in ('submodels', 'name')))


def oracle(case, obs):
    fails = []

    def bad(sig, what):
        fails.append({'sig': 'C09|' + sig, 'what': what})
    if obs.get('timeout'):
        bad('timeout', 'a container operation did not return')
        return fails
    if case['kind'] != 'vc' and case.get('dreq') in SUB and case['names'] and obs['init'] == 'ok':
        bad('add_variable|subarray-dtype-accepted', 'a model with variables %s was created with the sub-array dtype %r' % (
            case['names'], cc.py_dreq(case['dreq'])))
    if obs['init'] != 'ok':
        return fails
    if obs.get('shared0'):
        bad('sharing|series-refers-to-operand', "constructor: overwriting the caller's ndarray keyword operands AFTER construction changed the object (%s)" % (
            obs['shared0'][:120]))
    n = len(case['span'])
    extra = case.get('extra', 0)
    created = {}
    prev = obs['st0']
    declared = [] if case['kind'] == 'vc' else list(case['names'])      # declaration order, recorded by the harness
    for v in prev['vars']:
        created[v[0]] = v[1]
    steps = obs['steps']
    for i, (op, stp) in enumerate(zip(case['ops'], steps)):
        st, out = stp['st'], stp['out']
        if op[0] in ('setattr', 'addattr') and bookkeeping_name(case, op[1]):
            return fails              # not one of the property's operations (ASSUMPTIONS: SCOPE); what follows is not judged
        if op[0] == 'addvar' and out == 'ok':
            declared.append(op[1])
            # "the dtype it was created with": the dtype asked for (for models: the model's default when none is given)
            want = op[3] or (case.get('dreq') if case['kind'] != 'vc' else None)
            got = [v[1] for v in st['vars'] if v[0] == op[1]]
            if want in SUB:
                bad('add_variable|subarray-dtype-accepted', 'op %d: add_variable(%s, dtype=%r) was accepted: the dtype adds a dimension' % (
                    i, op[1], cc.py_dreq(want)))
            elif want and got and got[0] is not None:
                kind = got[0][0] if isinstance(got[0], list) else got[0]
                if kind != {'f': 'F', 'i': 'I', 'b': 'B', 's': 'U'}[want]:
                    bad('add_variable|dtype-not-imposed', 'op %d: add_variable(%s, dtype=%s) created a series of dtype %s' % (i, op[1], want, got[0]))
        rows = declared
        if (st['names'] if case['kind'] != 'vc' else st['index'][len(st['index']) - len(rows):]) != rows:
            bad('declaration-order', 'op %d %s: the object lists the variables %s, declared were %s' % (
                i, op[0], st['names'] if case['kind'] != 'vc' else st['index'], rows))
        # ---- (1) Inv: every series is 1-D, one element per period, dtype as created; index duplicate-free
        if len(set(st['index'])) != len(st['index']):
            bad('index|duplicate', 'op %d %s: index holds a name twice: %s' % (i, op[0], st['index']))
        for name, dt, shape, cells in st['vars']:
            if dt is None:
                bad('series|not-an-array', 'op %d %s: series %s is no longer an ndarray' % (i, op[0], name))
                continue
            if shape != [n]:
                bad('series|shape', 'op %d %s %s: series %s has shape %s on a span of %d periods' % (i, op[0], _target_names(op), name, shape, n))
            if name in created and created[name] != dt:
                bad('series|dtype', 'op %d %s: series %s changed dtype %s -> %s' % (i, op[0], name, created[name], dt))
            created.setdefault(name, dt)
        # ---- (2) values = rows x periods stack in declaration order, size = its element count
        exp_values = [len(rows), n] if rows else [0]
        if st['values'] != exp_values:
            bad('values|shape', 'op %d %s: values has shape/raises %s, expected %s' % (i, op[0], st['values'], exp_values))
        if st.get('values_rows_ok') is False:
            bad('values|content', 'op %d %s: values is not the stack of the series in declaration order' % (i, op[0]))
        if st['size'] != len(rows) * n + extra:
            bad('size', 'op %d: size %s, expected %d' % (i, st['size'], len(rows) * n + extra))
        if stp.get('shared'):
            bad('sharing|series-refers-to-operand', "op %d %s: overwriting the caller's ndarray AFTER the assignment changed the object (%s)" % (
                i, op[0], stp['shared'][:120]))
        if stp.get('values_set_ok') is False:
            bad('values|setter-content', 'op %d: obj.values = v was accepted but the series do not hold the assigned rows '
                '(row i -> i-th declared variable, cast to its dtype)' % i)
        # ---- another instance is made / used, the object is replaced by its copy, an attribute is read: the object under test is
        #      exactly what it was (a copy is equal to its original and shares nothing with it)
        if op[0] in cc.CROSS_OPS:
            if {k: v for k, v in st.items() if k != 'values_rows_ok'} != {k: v for k, v in prev.items() if k != 'values_rows_ok'}:
                changed = [k for k in st if k != 'values_rows_ok' and st[k] != prev.get(k)]
                bad('cross-instance|state-changed', 'op %d %s: the object differs afterwards in %s' % (i, json.dumps(op)[:120], changed))
            prev = st
            continue
        # ---- read-only hooks: nothing changes; what they return
        if op[0] == 'query':
            if {k: v for k, v in st.items() if k != 'values_rows_ok'} != {k: v for k, v in prev.items() if k != 'values_rows_ok'}:
                changed = [k for k in st if k != 'values_rows_ok' and st[k] != prev.get(k)]
                bad('hook|state-changed', 'op %d: %s changed the object (%s)' % (i, op[1], changed))
            ret = stp.get('ret')
            if op[1] == 'completions' and not (isinstance(ret, dict) and sorted(ret.get('names', [])) == sorted(prev['index'])):
                bad('hook|completions', 'op %d: _ipython_key_completions_() gave %s, the variables are %s' % (i, ret, prev['index']))
            if op[1] == 'nbytes' and isinstance(prev['nbytes'], int) and ret != {'nat': prev['nbytes'] + 0}:
                bad('hook|nbytes', 'op %d: nbytes gave %s, the series occupy %s bytes' % (i, ret, prev['nbytes']))
            if isinstance(op[1], list) and ret != {'bool': op[1][1] in rows}:
                bad('hook|contains', 'op %d: %r in obj gave %s, declared are %s' % (i, op[1][1], ret, rows))
            if op[1] == 'dir' and not (isinstance(ret, dict) and all(x in ret['names'] or x in ret.get('masked', []) for x in prev['index'])):
                bad('hook|dir', 'op %d: dir(obj) does not list the variables: %s' % (i, ret))
        # ---- (3) a failed single-variable assignment leaves every series unchanged
        single = op[0] in ('addvar', 'setitem', 'query') or (op[0] == 'setattr' and op[1] not in ('values',))
        if single and out != 'ok':
            if st['index'] != prev['index']:
                bad('failed-op|index-changed', 'op %d %s raised %s but index changed' % (i, op[0], out))
            a, b = _series(prev), _series(st)
            changed = [k for k in b if k in a and a[k] != b[k]]
            if changed:
                # (fix 5dde979: also the in-place paths convert the operand before the first cell is written)
                bad('failed-op|series-changed', 'op %d %s on %s raised %s but series %s changed' % (i, op[0], _target_names(op), out, changed))
            other = [k for k in ('adict', 'reg', 'strict', 'names', 'span', 'keys') if k in st and st[k] != prev.get(k)]
            # (`keys`: the raw key set of __dict__ - a rejected add_variable must not leave a '_' + name entry behind)
            if other:
                bad('failed-op|state-changed', 'op %d %s raised %s but the object differs afterwards in %s' % (i, op[0], out, other))
        # unknown / duplicate names must raise
        if op[0] == 'setitem' and len(op[1]) > 1 and op[1][1] not in prev['index'] and out == 'ok':
            bad('setitem|unknown-name-not-rejected', "op %d: obj[%r, ...] = v with %r not a variable did not raise" % (i, op[1][1], op[1][1]))
        if op[0] == 'addvar' and op[1] not in prev['index'] and out == 'ok' and (
                op[1] in ('attributes', 'strict') or ('_' + op[1]) in prev['adict']):
            bad('add_variable|reserved-name-accepted', "op %d: add_variable(%r) was accepted although '_%s' is already an entry of the object" % (i, op[1], op[1]))
            break
        if op[0] == 'addvar' and op[1] in prev['index'] and out != 'DuplicateNameError':
            bad('add_variable|duplicate-name', 'op %d: add_variable of existing %s gave %s' % (i, op[1], out))
        if op[0] == 'addattr' and (op[1] in prev['index'] or op[1] in prev['reg']) and out != 'DuplicateNameError':
            bad('add_attribute|duplicate-name', 'op %d: add_attribute of existing %s gave %s' % (i, op[1], out))
        # a flat sequence of the wrong length into an existing series: DimensionError (whole-series paths)
        if op[0] in ('setattr', 'setitem') and out == 'ok':
            tname = op[1] if op[0] == 'setattr' else (op[1][1] if op[1][0] == 'n' else None)
            v = op[2]
            if tname in prev['index'] and v[0] in ('L', 'T') and all(x[0] == 'S' for x in v[1]) and len(v[1]) != n:
                bad('whole-series|wrong-length-accepted', 'op %d: a sequence of %d values was accepted for a span of %d' % (i, len(v[1]), n))
        # a flat sequence whose length is neither 1 nor the number of addressed periods into a label slice: must raise
        if op[0] == 'setitem' and op[1][0] == 'sl' and out == 'ok' and op[1][1] in prev['index']:
            v = op[2]
            m = None
            if v[0] in ('L', 'T') and all(x[0] == 'S' for x in v[1]):
                m = len(v[1])
            elif v[0] == 'R':
                m = len(range(v[1], v[2], v[3]))
            k = _slice_count(case['span'], op[1][2], op[1][3], op[1][4])
            if m is not None and k is not None and m != k and m != 1:
                bad('slice|wrong-length-accepted', 'op %d: %d values were accepted for a label slice of %d periods' % (i, m, k))
        # ---- (4) strict
        if prev['strict'] and op[0] == 'setattr' and op[1] == 'strict' and out == 'AttributeError':
            bad('strict|toggle-blocked', 'op %d: strict=True and obj.strict = v raised AttributeError' % i)
        if prev['strict'] and op[0] == 'setattr' and op[1] == 'values' and out == 'AttributeError':
            # `values` is a property of the class, not a new attribute: the guard lets it through (fix 49a73ab)
            bad('strict|class-property-blocked', 'op %d: strict=True and obj.values = v raised AttributeError (%s)' % (i, stp.get('msg', '')[:60]))
        if (prev['strict'] and op[0] == 'setattr' and op[1] not in ('strict', 'values') and op[1] not in prev['index']
                and op[1] not in prev['reg']):
            if out not in ('AttributeError', 'NotImplementedError'):
                bad('strict|new-attribute-not-blocked', 'op %d: strict=True but obj.%s = v gave %s' % (i, op[1], out))
            if st['adict'] != prev['adict'] or st['reg'] != prev['reg']:
                bad('strict|attribute-created', 'op %d: strict=True but attributes changed' % i)
            hint = stp.get('hint')
            if out == 'AttributeError' and hint is not None:
                cands = [x for x in (prev['names'] if case['kind'] != 'vc' else prev['index']) if x.lower() == hint]
                import difflib
                clear = difflib.SequenceMatcher(None, op[1].lower(), hint).ratio() >= 0.6      # whatever cutoff the library uses
                if len(cands) == 1 and clear and cands[0] not in stp.get('msg', ''):
                    bad('strict|closest-not-reported', 'op %d: near-miss %s: message does not suggest %s' % (i, op[1], cands[0]))
        if prev['strict'] and op[0] == 'setattr' and op[1] in prev['reg'] and op[1] not in prev['index'] and out == 'AttributeError':
            # "updates of existing names keep working": a REGISTERED attribute (add_attribute / the constructor's own) is no new one
            bad('strict|attribute-update-blocked', 'op %d: strict=True and obj.%s = v for the registered attribute %s raised AttributeError' % (i, op[1], op[1]))
        if prev['strict'] and op[0] != 'addattr' and not (op[0] == 'setattr' and op[1] == 'strict'):
            new = [k for k in st['adict'] if k not in prev['adict']]
            if new:
                bad('strict|attribute-created', 'op %d %s: strict=True but new attribute(s) %s appeared' % (i, op[0], new))
        if prev['strict'] and out == 'AttributeError':
            if (op[0] == 'setattr' and op[1] in prev['index']) or op[0] == 'addvar' or (op[0] == 'setitem' and op[1][0] == 'n' and op[1][1] in prev['index']):
                bad('strict|update-blocked', 'op %d %s of an existing name / add_variable raised AttributeError under strict' % (i, op[0]))
        prev = st
    _reindex_failures(case, obs, prev, bad)
    return fails


def nontrivial(case, obs):
    outs = [s['out'] for s in obs.get('steps', [])]
    return any(o == 'ok' for o in outs) and any(o != 'ok' for o in outs)


def bucket(case, obs):
    outs = [s['out'] for s in obs.get('steps', [])]
    nrej = sum(1 for o in outs if o != 'ok')
    return '%s/ops%s/rej%s' % (case['kind'], '<=3' if len(outs) <= 3 else ('<=12' if len(outs) <= 12 else '<=40'),
                               '0' if nrej == 0 else ('<=3' if nrej <= 3 else '>3'))


def shrink_candidates(case):
    ops = case['ops']
    for i in range(len(ops)):
        c = copy.deepcopy(case)
        del c['ops'][i]
        yield c
    if len(ops) > 4:
        c = copy.deepcopy(case)
        c['ops'] = ops[len(ops) // 2:]
        yield c
        c = copy.deepcopy(case)
        c['ops'] = ops[:len(ops) // 2]
        yield c
    if case['kind'] != 'vc' and case.get('ivs'):
        c = copy.deepcopy(case)
        c['ivs'] = []
        yield c
