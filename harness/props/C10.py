"""C10 — label-based access addresses exactly the labelled periods."""
import copy
import itertools

import lib
import locate_common as lc

ID = 'C10'
PROPS_FILE = 'Props/C10.v'
MODEL_FILES = ['Locate/Locate.v', 'Locate/LocateK.v']
K_NAME = ('K_locate (Locate.get_item / set_item / locate / eval_bt_slice / set_pos / set_whole + LocateIndex.reg_get_loc, element type Z, run by vm_compute, vs '
          'VectorContainer / BaseModel __getitem__ / __setitem__ / _locate_period_in_span / eval on the same span, key and operand)')
RULE = ('NOT exhaustive as a whole. Enumerated completely at the tier bound: every span of length 0..N (quick N=6 on VectorContainer, N=3 on BaseModel; '
        'thorough N=9 / 7) of each type (range with non-zero origin and steps 1, 2, -1; str list; tuple; mixed hashables incl. True/1.0-style equal '
        'labels, 2.5, a pair, None; NumPy int / str arrays; NumPy datetime64[D] and [ns] arrays (n <= 3); a float array with a NaN label; pandas Index of '
        'ints / strs; PeriodIndex Y and Q (thorough: also M); DatetimeIndex D and MS) x every label of the span and every absent label of its list (same '
        'type, other type, just outside a range, a pair, the text of a present int label: 2001 as \'2001\' / \' 2001\' / \'+2001\' / \'2001.0\', and the int of a numeric-text label) for get / scalar set / locate, and x every (start, stop) pair over the labels, two absent labels '
        'and open ends with the steps {None,2,3,n+1} for get and {None,2,n+1} for scalar set on VectorContainer at quick (thorough: {None,1,2,3,n,n+1} '
        'for both; BaseModel at quick: {None,2,3,n+1} / {None,2}). SAMPLED with the run\'s rng: sequence operands (full-length, one-element, wrong length), '
        'zero and negative steps, pair / partial-string slice bounds (all of them for n <= 4, 14 + 2n bound pairs above). Fixed families: spans with '
        'repeated labels; falsy labels; numeric aliases of labels; names that are no variables; positional and whole-series writes; backticked label '
        'slices through eval(); typed series (oracle-only); mixin subclasses; histories (sibling container with the labels at other positions; on ONE '
        'object: lookups, then obj.span = <span of the same length>, then the access; a successful slice read, reads with a missing end point, then the '
        'access). Non-trivial = span of at least 2 periods and (an exception path or at least one element addressed); distinct by hash of the whole case.')
TRUSTED = ['label encoding harness/locate_common.py (Python equality of labels = structural equality of the canonical code)',
           'pandas get_loc / __contains__ answers are recorded per case and handed to the model as its oracle table; for period_range and '
           'fixed-frequency date_range spans they are ALSO compared, label by label, with the executable index model LocateIndex.reg_get_loc / '
           'reg_contains, and for every other duplicate-free pandas index with LocateIndex.plain_get_loc / plain_contains; locate_spec is proved for '
           'both models (so pandas is modelled and compared, not assumed; text labels on Period / Datetime indexes - partial-string lookups - stay recorded oracles)']
ASSUMPTIONS = ['operand values already have the dtype of the series in the Coq model (it moves data, it does not cast); NumPy\'s cast of a written value and its '
               'identical read-back through every path are checked by the direct oracle on int64 / <U2 / bool / float32 series (op kind typed), not by K',
               'spans with a REPEATED label: the oracle speaks on open-ended slices (kept finding open-slice|repeated-label-span), on labels that occur once and on '
               'absent labels, and reports KeyError for a repeated label of a NumPy-array span (kept finding); excluded (position not defined by the text): a closed '
               'bound or lookup of a label that occurs twice on list / tuple spans. Excluded: spans containing the label None; negative and zero steps (K pins NumPy\'s behaviour incl. ValueError for step 0 - stricter than the property)',
               'K is stricter than the property in two more places (a disagreement there is reported as no-failing-input-found): the identity of the stored array '
               'after element writes, and exception classes on paths the property does not constrain',
               'pandas Index.get_loc on a duplicate-free index meets locate_spec (checked on every recorded answer)',
               'a label None cannot be used as a slice bound (Python reads it as an open end)']
EXHAUSTIVE = {'quick': False, 'thorough': False}          # see RULE: which sub-space is enumerated completely and what is sampled
CASE_TIMEOUT = 30

PER_Y0 = 30          # Period('2000', 'Y').ordinal
PER_Q0 = 118         # Period('1999Q3', 'Q').ordinal
TS_D0 = 946512000000000000      # 1999-12-30
TS_M0 = 941414400000000000      # 1999-11-01
PER_M0 = 358        # Period('1999-11', 'M').ordinal


# --------------------------------------------------------------------------- implementation side
def _make(case):
    import fsic
    if case.get('prior'):
        # history: the same lookups on a sibling container with ANOTHER span (same labels, other positions) come first;
        # nothing of them may stick (e.g. a class-level cache of label -> position)
        import sys
        for k in [k for k in sys.modules if k == 'fsic' or k.startswith('fsic.')]:
            del sys.modules[k]
        import fsic
        pspan = lc.build_span(case['prior'])
        sib = fsic.core.containers.VectorContainer(pspan)
        sib.add_variable('X', [float(30 + i) for i in range(len(pspan))])
        for p in list(pspan):
            try:
                sib['X', p]
                sib['X', p:p]
                sib._locate_period_in_span(p)
            except Exception:
                pass
    span = lc.build_span(case['span'])
    n = len(span)
    data = [float(10 + i) for i in range(n)]
    other = [float(50 + i) for i in range(n)]
    # history on the SAME object: it is built on another span of the same length (span0), every label of that span is looked up
    # (label, slice, locate), then the span is reassigned (obj.span = span) - nothing remembered may survive the reassignment
    first = lc.build_span(case['span0']) if case.get('span0') else span
    if case['cls'] == 'VC':
        c = fsic.core.containers.VectorContainer(first)
        c.add_variable('X', data)
        c.add_variable('Y', other)
    else:
        bases = (fsic.BaseModel,)
        extra = {}
        if case['cls'] == 'BMA':
            from fsic.extensions import AliasMixin
            bases = (AliasMixin, fsic.BaseModel)
            extra = {'ALIASES': {'GDP': 'X'}}
        elif case['cls'] == 'BMP':
            from fsic.extensions.model import PandasIndexFeaturesMixin
            bases = (PandasIndexFeaturesMixin, fsic.BaseModel)
        M = type('M', bases, dict({'ENDOGENOUS': ['X'], 'EXOGENOUS': ['Y'], 'NAMES': ['X', 'Y'], 'CHECK': ['X']}, **extra))
        c = M(first, X=data, Y=other)
    if case.get('span0'):
        for p in list(first):
            for f in (lambda: c['X', p], lambda: c['X', p:p], lambda: c['X', p:], lambda: c._locate_period_in_span(p)):
                try:
                    f()
                except Exception:
                    pass
        try:
            c['X', :]
        except Exception:
            pass
        if case.get('inplace') and isinstance(c.span, list):
            c.span[:] = list(span)          # the SAME list object relabelled in place (nothing keyed on the span object's identity may survive)
            span = c.span
        else:
            c.span = span
    # earlier READS on the same object (each may fail): a good slice, then a slice with a missing end point, ... leave no trace
    for k in case.get('pre_reads', []):
        try:
            c['X', _key(k)]
        except Exception:
            pass
    return span, c


def _key(k):
    if 'label' in k:
        return lc.dec_label(k['label'])
    a, b, s = k['slice']
    return slice(None if a is None else lc.dec_label(a), None if b is None else lc.dec_label(b), s)


def _key_labels(case):
    op = case['op']
    out = []
    if 'key' in op:
        k = op['key']
        out += [k['label']] if 'label' in k else [k['slice'][0], k['slice'][1]]
    if op['kind'] == 'locate':
        out.append(op['label'])
    if op['kind'] == 'eval':
        for t in (op['a'], op['b']):
            if t is not None:
                out.append(['s', t])
                try:
                    out.append(['i', int(t)])
                except ValueError:
                    pass
    return [x for x in out if x is not None]


def _res(f):
    import numpy as np
    try:
        r = f()
    except Exception as e:
        return ['raise', type(e).__name__]
    if isinstance(r, np.ndarray):
        return ['ret', 'arr', lc.clist_vals(r)] if r.ndim == 1 else ['ret', 'other', repr(r.shape)]
    return ['ret', 'scalar', lc.cval(r)]


def _operand(w):
    return w['scalar'] if 'scalar' in w else list(w['seq'])


TYPED = {'int': ('int64', [10, 11, 12, 13, 14, 15, 16, 17, 18, 19]), 'str': ('<U2', ['a0', 'a1', 'a2', 'a3', 'a4', 'a5', 'a6', 'a7', 'a8', 'a9']),
         'bool': ('bool', [True, False, True, True, False, False, True, False, True, True]), 'f32': ('float32', [10.0, 11.0, 12.0, 13.0, 14.0, 15.0, 16.0, 17.0, 18.0, 19.0])}


def impl_typed(case):
    """A series of another dtype; a value that may need NumPy's cast is written through one path and read back through every path.
    Oracle-only (the Coq model moves data, it does not cast): obs carries the reads and NumPy's own cast of the value as reference."""
    import numpy as np
    import fsic
    span = lc.build_span(case['span'])
    n = len(span)
    op = case['op']
    dt, vals = TYPED[op['dtype']]
    c = fsic.core.containers.VectorContainer(span)
    c.add_variable('X', np.array(vals[:n], dtype=dt))
    before = lc.clist_vals(c.X)
    v = op['v']
    try:
        ref = ['ret', lc.cval(np.array([v]).astype(dt)[0])]
    except Exception as e:
        ref = ['raise', type(e).__name__]

    def write():
        path = op['path']
        if path == 'label':
            c['X', lc.dec_label(op['at'])] = v
        elif path == 'slice':
            c['X', lc.dec_label(op['at']):lc.dec_label(op['at'])] = v
        elif path == 'pos':
            c.X[op['at']] = v
        elif path == 'keypos':
            c['X'][op['at']] = v
        elif path == 'whole':
            c.X = v
        else:
            raise AssertionError(path)
    r = _res(write)
    obs = {'out': r if r[0] == 'raise' else ['ret', 'none'], 'ref': ref, 'before': before, 'dtype': str(c.X.dtype),
           'attr': lc.clist_vals(c.X), 'key': lc.clist_vals(c['X']),
           'bypos': [_res(lambda i=i: c.X[i]) for i in range(n)], 'bylabel': [_res(lambda p=p: c['X', p]) for p in span],
           'fullslice': _res(lambda: c['X', :]), 'span_ok': True, 'after': [], 'other': [], 'same_array': True}
    return obs


def oracle_typed(case, obs, bad):
    op = case['op']
    n = lc.span_len(case['span'])
    stored = obs['key']
    if obs['dtype'] != TYPED[op['dtype']][0]:
        bad('typed', 'dtype-changed', 'the series changed dtype: %s' % obs['dtype'])
    if obs['attr'] != stored or obs['bypos'] != [['ret', 'scalar', x] for x in stored] or obs['bylabel'] != [['ret', 'scalar', x] for x in stored] \
            or (n > 0 and obs['fullslice'] != ['ret', 'arr', stored]):
        bad('typed', 'read-paths-disagree', 'attribute / key / position / label / slice reads differ: %s %s %s %s %s' % (obs['attr'], stored, obs['bypos'], obs['bylabel'], obs['fullslice']))
    if op['path'] == 'whole':
        targets = list(range(n))
    elif op['path'] in ('pos', 'keypos'):
        targets = [op['at'] % n] if n and -n <= op['at'] < n else None
    else:
        labs = [lc.canon(j) for j in lc.span_labels(case['span'])]
        targets = [labs.index(lc.canon(op['at']))] if lc.canon(op['at']) in labs else None
    if targets is None:
        return
    if obs['out'][0] == 'raise':
        if obs['ref'][0] == 'ret':
            bad('typed', 'write-rejected', 'writing %r raised %s although NumPy casts it to %s' % (op['v'], obs['out'][1], obs['ref'][1]))
        elif stored != obs['before']:
            bad('typed', 'changed-on-error', 'the rejected write changed the series')
        return
    if obs['ref'][0] == 'ret':
        exp = list(obs['before'])
        for p in targets:
            exp[p] = obs['ref'][1]
        if stored != exp:
            bad('typed', 'wrong-periods-written', 'after writing %r the series is %s, expected %s' % (op['v'], stored, exp))


def impl(case):
    import numpy as np
    if case['op']['kind'] == 'typed':
        return impl_typed(case)
    span, c = _make(case)
    n = len(span)
    op = case['op']
    kind = op['kind']
    obs = {}
    if lc.is_pandas(case['span']):
        obs['pd'] = lc.record_pandas(span, lc.span_labels(case['span']) + _key_labels(case))
    x_before = c.__dict__['_X']

    def book():
        # public observables only (no private layout): variable names, strict flag, span labels, and what dir() makes of the
        # object's registry of attributes (a corrupted registry shows as another listing or as an exception)
        try:
            listing = sorted(x for x in dir(c) if not x.startswith('_'))
        except Exception as e:
            listing = type(e).__name__
        return [list(c.index), bool(c.strict), [lc.enc_label(p) for p in c.span], listing]
    book_before = book()
    if kind in ('getn', 'setn'):
        if kind == 'getn':
            obs['out'] = _res(lambda: c[op['name'], _key(op['key'])])
        else:
            def f():
                c[op['name'], _key(op['key'])] = _operand(op['w'])
            r = _res(f)
            obs['out'] = r if r[0] == 'raise' else ['ret', 'none']
    elif kind == 'get':
        obs['out'] = _res(lambda: c['X', _key(op['key'])])
    elif kind == 'set':
        def f():
            c['X', _key(op['key'])] = _operand(op['w'])
        r = _res(f)
        obs['out'] = r if r[0] == 'raise' else ['ret', 'none']
        if r[0] == 'ret' and 'slice' in op['key']:
            obs['sameslice'] = _res(lambda: c['X', _key(op['key'])])
    elif kind == 'eval':
        expr = 'X[%s:%s:%s]' % ('' if op['a'] is None else '`%s`' % op['a'], '' if op['b'] is None else '`%s`' % op['b'], op['s'])
        obs['out'] = _res(lambda: c.eval(expr))
    elif kind == 'locate':
        try:
            r = c._locate_period_in_span(lc.dec_label(op['label']))
            if isinstance(r, slice):
                obs['out'] = ['ret', 'arr', [1, int(r.start), int(r.stop)]]
            else:
                obs['out'] = ['ret', 'arr', [0, int(r), 1 if isinstance(r, int) else 0]]
        except Exception as e:
            obs['out'] = ['raise', type(e).__name__]
    elif kind == 'setpos':
        def f():
            if op['via'] == 'attr':
                c.X[op['i']] = op['v']
            else:
                c['X'][op['i']] = op['v']
        r = _res(f)
        obs['out'] = r if r[0] == 'raise' else ['ret', 'none']
    elif kind == 'setwhole':
        def f():
            if op['via'] == 'attr':
                c.X = _operand(op['w'])
            else:
                c['X'] = _operand(op['w'])
        r = _res(f)
        obs['out'] = r if r[0] == 'raise' else ['ret', 'none']
    else:
        raise AssertionError(kind)
    try:
        obs['book_ok'] = book() == book_before
    except Exception:
        obs['book_ok'] = False
    obs['same_array'] = c.__dict__['_X'] is x_before
    obs['after'] = lc.clist_vals(c.__dict__['_X'])
    obs['other'] = lc.clist_vals(c.__dict__['_Y'])
    obs['attr'] = lc.clist_vals(c.X)
    obs['key'] = lc.clist_vals(c['X'])
    obs['bypos'] = [_res(lambda i=i: c.X[i]) for i in range(n)]
    obs['bylabel'] = [_res(lambda p=p: c['X', p]) for p in span]
    obs['fullslice'] = _res(lambda: c['X', :])
    obs['span_ok'] = [lc.enc_label(p) for p in span] == [lc.enc_label(lc.dec_label(j)) for j in lc.span_labels(case['span'])]
    return obs


# --------------------------------------------------------------------------- Coq side
PREAMBLE = '''From Coq Require Import ZArith List Bool String.
Import ListNotations.
Require Import Fsic.Base.PyBase Fsic.Locate.Locate Fsic.Locate.LocateK.
Open Scope Z_scope.
'''


def c_key(k):
    if 'label' in k:
        return '(KLabel %s)' % lc.c_label(k['label'])
    a, b, s = k['slice']
    return '(KSlice %s %s %s)' % (lc.c_olabel(a), lc.c_olabel(b), lc.c_oZ(s))


def c_operand(w):
    if 'scalar' in w:
        return '(OScalar %s)' % lib.cZ(w['scalar'])
    return '(OSeq %s)' % lib.clist(lib.cZ(x) for x in w['seq'])


def c_bt(t):
    if t is None:
        return 'None'
    try:
        z = '(Some %s)' % lib.cZ(int(t))
    except ValueError:
        z = 'None'
    return '(Some (%s, %s))' % (lc.c_str(t), z)


def c_op(op):
    k = op['kind']
    if k == 'get':
        return '(OpGet %s)' % c_key(op['key'])
    if k == 'set':
        return '(OpSet %s %s)' % (c_key(op['key']), c_operand(op['w']))
    if k == 'eval':
        return '(OpEval %s %s %s)' % (c_bt(op['a']), c_bt(op['b']), lib.cZ(op['s']))
    if k == 'locate':
        return '(OpLocate %s)' % lc.c_label(op['label'])
    if k == 'setpos':
        return '(OpSetPos %s %s)' % (lib.cZ(op['i']), lib.cZ(op['v']))
    if k == 'setwhole':
        return '(OpSetWhole %s)' % c_operand(op['w'])
    if k == 'getn':
        return '(OpGetN %s %s)' % (lc.c_str(op['name']), c_key(op['key']))
    if k == 'setn':
        return '(OpSetN %s %s %s)' % (lc.c_str(op['name']), c_key(op['key']), c_operand(op['w']))
    raise AssertionError(op)


def _intlist(xs):
    return all(isinstance(x, int) and not isinstance(x, bool) for x in xs)


def c_out(r):
    if r[0] == 'raise':
        return '(Raise %s)' % lc.c_exn(r[1])
    if r[1] == 'none':
        return '(Ret (RArr []))'
    if r[1] == 'scalar' and _intlist([r[2]]):
        return '(Ret (RScalar %s))' % lib.cZ(r[2])
    if r[1] == 'arr' and _intlist(r[2]):
        return '(Ret (RArr %s))' % lib.clist(lib.cZ(x) for x in r[2])
    return None


def c_parts(case, obs):
    """Coq sub-terms of one case, or None if the observation lies outside what the model can represent."""
    n = lc.span_len(case['span'])
    out = c_out(obs['out'])
    byl = [c_out(r) for r in obs['bylabel']]
    if out is None or any(b is None for b in byl) or not _intlist(obs['after']) or not _intlist(obs['other']):
        return None
    return {'span': lc.c_span(case['span']),
            'data': lib.clist(lib.cZ(10 + i) for i in range(n)), 'other': lib.clist(lib.cZ(50 + i) for i in range(n)),
            'bl0': lib.clist('(Ret (RScalar %s))' % lib.cZ(10 + i) for i in range(n)),
            'op': c_op(case['op']), 'out': out, 'after': lib.clist(lib.cZ(x) for x in obs['after']), 'byl': lib.clist(byl),
            'same': lib.cbool(obs['same_array'])}


def c_case(case, obs):
    """Coq term of one case (self-contained), or None."""
    t = c_parts(case, obs)
    if t is None:
        return None
    tbl, ins = lc.c_tables(obs.get('pd', []))
    return '(mkLCase %s %s %s %s %s %s (mkLObs %s %s %s %s))' % (t['span'], tbl, ins, t['data'], t['other'], t['op'], t['out'], t['after'], t['byl'], t['same'])


def pd_spec_broken(case, obs):
    """The assumption the theorems make about pandas (locate_spec for a duplicate-free index), checked on every
    recorded answer: an element label -> its position; a label that is no element and is not a string -> an exception
    and `in` False (strings on Period / Datetime indexes are parsed by pandas: partial-string lookups, outside the spec)."""
    if 'pd' not in obs:
        return None
    labs = [lc.canon(j) for j in lc.span_labels(case['span'])]
    if len(set(labs)) != len(labs):
        return None
    for j, ans, inn in obs['pd']:
        cj = lc.canon(j)
        if cj in labs:
            if ans[0] != 'pos' or ans[1] != labs.index(cj) or inn is not True:
                return 'get_loc(%s) = %s, in = %s on %s' % (j, ans, inn, case['span'])
        elif not (j[0] == 's' and case['span']['type'] in ('period', 'datetime')) and not (j[0] == 'ts' and case['span']['type'] == 'period'):
            if ans[0] != 'raise' or inn is not False:
                return 'get_loc(%s) = %s, in = %s on %s (absent label)' % (j, ans, inn, case['span'])
    return None


GROUP = 300          # cases per group (one `let`-bound span / tables / data per group), five groups per Coq file


def correspond(cases, obs, tag, tier):
    """Cases on the same span share its term, its (merged) pandas tables and its data through `let` bindings: Coq elaborates each
    of them once per group instead of once per case.  The fast pass reports groups with a disagreement; their cases are then
    re-run one by one (self-contained terms) so that the indices returned are exact."""
    lc.reset_strings()
    bad, groups, order = [], {}, []
    for i, (c, o) in enumerate(zip(cases, obs)):
        if o.get('timeout'):
            bad.append(i)
            continue
        if c['op']['kind'] == 'typed' or _has_nan(c['span']):
            continue                  # oracle-only: the model does not cast / has no NaN label
        if not o['span_ok'] or pd_spec_broken(c, o):
            bad.append(i)
            continue
        if lc.unrepresentable(o.get('pd', [])):
            bad.append(i)
            continue
        t = c_parts(c, o)
        if t is None:
            bad.append(i)           # an observation the model cannot even express (e.g. a 2-D result)
            continue
        key = lib.jhash(c['span'])
        if key not in groups:
            groups[key] = []
            order.append(key)
        groups[key].append((i, t, o.get('pd', [])))
    items, members = [], []
    for key in order:
        lst = groups[key]
        merged, seen = [], set()
        for _, _, pd in lst:                      # same span => same answer for the same label: merge the recorded tables
            for rec in pd:
                r = repr(rec[0])
                if r not in seen:
                    seen.add(r)
                    merged.append(rec)
        tbl, ins = lc.c_tables(merged)
        t0 = lst[0][1]
        for k in range(0, len(lst), GROUP):
            chunk = lst[k:k + GROUP]
            terms = ['(mkLCase sp tb ins d o %s (mkLObs %s %s %s %s))' % (t['op'], t['out'], 'd' if t['after'] == t['data'] else t['after'],
                                                                        'bl' if t['byl'] == t['bl0'] else t['byl'], t['same']) for _, t, _ in chunk]
            items.append('(let sp := %s in let tb : list (label * loc) := %s in let ins : list (label * bool) := %s in let d : list Z := %s in '
                         'let o : list Z := %s in let bl : list (outcome (rd Z)) := %s in\n [%s])'
                         % (t0['span'], tbl, ins, t0['data'], t0['other'], t0['bl0'], ';\n  '.join(terms)))
            members.append([i for i, _, _ in chunk])
    pre = PREAMBLE + lc.string_table()
    b, errors = lib.run_coq_cases(tag, pre, items, 'gbad_indices 0%nat cs', shard=5)
    if errors:
        return sorted(bad), errors
    suspects = [i for g in b for i in members[g]]
    if suspects:
        terms = [c_case(cases[i], obs[i]) for i in suspects]
        b2, errors = lib.run_coq_cases(tag + 'x', pre, terms, 'lbad_indices 0%nat cs', shard=300)
        bad += [suspects[k] for k in b2]
    return sorted(bad), errors


def explain(case, obs):
    lc.reset_strings()
    t = c_case(case, obs)
    if t is None:
        return 'observation not representable in the model: %s' % obs.get('out')
    return lib.coq_eval('explain_C10', PREAMBLE + lc.string_table(), 'let c := %s in (snd (run_lop c), data_of (fst (run_lop c)) "X"%%string)' % t)[-2000:]


# --------------------------------------------------------------------------- the property, directly
def _pos(labs, j):
    cj = lc.canon(j)
    for i, l in enumerate(labs):
        if l == cj:
            return i
    return None


def _partial_string(case, j):
    """labels pandas parses (strings / timestamps on Period / Datetime indexes): not `labels of the span` in the property's sense"""
    return j is not None and case['span']['type'] in ('period', 'datetime') and j[0] in ('s', 'ts') and _pos([lc.canon(x) for x in lc.span_labels(case['span'])], j) is None


SIG_DT64 = 'C10|ndarray span (datetime64[ns] elements / NaN label)|present-label-KeyError'
SIG_DUP_OPEN = 'C10|open-slice|repeated-label-span'
SIG_DUP_ARR = 'C10|ndarray span|repeated-label-KeyError'


def _has_nan(spec):
    return any(j == ['f', 'nan'] for j in lc.span_labels(spec))


def oracle_dup(case, obs, labs, fails, bad):
    """Spans with a repeated label.  The text still fixes: open slice ends are the ends of the span; a label that occurs ONCE sits at
    its position; a label that is not in the span raises KeyError.  Excluded: a closed bound / a lookup of a label that occurs twice on
    list / tuple spans (its position is not defined); on a NumPy-array span such a lookup raises KeyError although the label is there
    (kept finding)."""
    sp, op, out = case['span'], case['op'], obs['out']
    n = len(labs)
    data = [10 + i for i in range(n)]
    arr = sp['type'] == 'nparr'
    cnt = lambda j: labs.count(lc.canon(j))
    pos = lambda j: labs.index(lc.canon(j))
    kind = op['kind']

    def finding(sig, what):
        fails.append({'sig': sig, 'what': what})
    exp_after = data
    if kind in ('get', 'set', 'locate'):
        k = op.get('key') or {'label': op['label']}
        if 'label' in k:
            j = k['label']
            c = cnt(j)
            if c == 0:
                if out != ['raise', 'KeyError']:
                    bad(kind + '(label)', 'absent-label-aliases' if out[0] == 'ret' else 'absent-label-' + out[1], 'label %s is not in the span: expected KeyError, got %s' % (j, out))
            elif c == 1:
                p = pos(j)
                if kind == 'get' and out != ['ret', 'scalar', data[p]]:
                    bad('get(label)', 'wrong-element', 'obj[X, %s] must be the element at position %d; got %s' % (j, p, out))
                if kind == 'locate' and (out[0] != 'ret' or out[2][:2] != [0, p]):
                    bad('locate', 'wrong-position', 'label %s is at position %d; got %s' % (j, p, out))
                if kind == 'set' and 'scalar' in op['w']:
                    exp_after = list(data)
                    exp_after[p] = op['w']['scalar']
                    if out != ['ret', 'none']:
                        bad('set(label)', 'write-rejected', 'obj[X, %s] = v raised %s' % (j, out))
                elif kind == 'set':
                    exp_after = None
            else:
                if arr and out == ['raise', 'KeyError']:
                    finding(SIG_DUP_ARR, 'label %s occurs in the NumPy-array span but obj[X, label] raises KeyError' % (j,))
                exp_after = None if out[0] == 'ret' else data
        else:
            a, b, st = k['slice']
            if (st is not None and st <= 0) or any(x is not None and cnt(x) > 1 for x in (a, b)) or ('seq' in op.get('w', {})):
                return                 # outside the property / position of a repeated label not defined / sequence operands: silent
            if any(x is not None and cnt(x) == 0 for x in (a, b)):
                if out != ['raise', 'KeyError']:
                    bad(kind + '(slice)', 'absent-label-aliases' if out[0] == 'ret' else 'absent-label-' + out[1], 'slice %s has a bound that is not in the span: expected KeyError, got %s' % (k['slice'], out))
            else:
                ps = list(range(0 if a is None else pos(a), (n - 1 if b is None else pos(b)) + 1, st or 1))
                open_end = a is None or b is None
                if kind == 'get':
                    if out != ['ret', 'arr', [data[p] for p in ps]]:
                        if open_end:
                            finding(SIG_DUP_OPEN, 'obj[X, %s] must run to the END of the span (positions %s); got %s' % (k['slice'], ps, out))
                        else:
                            bad('get(slice)', 'wrong-positions', 'obj[X, %s] must address positions %s; got %s' % (k['slice'], ps, out))
                else:
                    exp = list(data)
                    for p in ps:
                        exp[p] = op['w']['scalar']
                    if out != ['ret', 'none'] or obs['after'] != exp:
                        if open_end:
                            finding(SIG_DUP_OPEN, 'obj[X, %s] = v must write positions %s; X is %s (%s)' % (k['slice'], ps, obs['after'], out))
                        else:
                            bad('set(slice)', 'wrong-periods-written', 'obj[X, %s] = v must write positions %s; X is %s (%s)' % (k['slice'], ps, obs['after'], out))
                    exp_after = None
    elif kind == 'setpos':
        if -n <= op['i'] < n:
            exp_after = list(data)
            exp_after[op['i']] = op['v']
    elif kind == 'setwhole':
        w = op['w']
        exp_after = [w['scalar']] * n if 'scalar' in w else (list(w['seq']) if len(w['seq']) == n else data)
    else:
        exp_after = None
    if out[0] == 'raise':
        exp_after = data
    if exp_after is not None and obs['after'] != exp_after:
        bad(kind, 'wrong-periods-written' if out[0] == 'ret' else 'changed-on-error', 'X after the call is %s, expected %s' % (obs['after'], exp_after))
    # read-backs: unique labels give the stored element; a repeated label on a NumPy-array span raises KeyError (finding); the full
    # open slice is the whole stored series
    ea = obs['after']
    for i, r in enumerate(obs['bylabel']):
        if labs.count(labs[i]) == 1:
            if r != ['ret', 'scalar', ea[i]]:
                bad(kind, 'readback-label', 'obj[X, label %d] gives %s, stored %s' % (i, r, ea[i]))
        elif arr and r == ['raise', 'KeyError']:
            finding(SIG_DUP_ARR, 'label at position %d occurs in the NumPy-array span but obj[X, label] raises KeyError' % i)
    if n > 0 and obs['fullslice'] != ['ret', 'arr', ea]:
        finding(SIG_DUP_OPEN, 'obj[X, :] must be the whole series %s; got %s' % (ea, obs['fullslice']))


def oracle(case, obs):
    fails = []
    sp = case['span']
    t = sp['type']

    def bad(site, cls, what):
        fails.append({'sig': 'C10|%s|%s' % (site, cls), 'what': what})
    if obs.get('timeout'):
        bad('any', 'timeout', 'no answer within the watchdog limit')
        return fails
    if case['op']['kind'] == 'typed':
        oracle_typed(case, obs, bad)
        return fails
    labs = [lc.canon(j) for j in lc.span_labels(sp)]
    n = len(labs)
    if ('none',) in labs:
        return fails                       # None cannot bound a slice (Python reads it as an open end): excluded
    if len(set(labs)) != n:
        oracle_dup(case, obs, labs, fails, bad)
        seen = set()
        return [f for f in fails if not (f['sig'] in seen or seen.add(f['sig']))]
    if t == 'nparr_dt64' and sp['unit'] == 'ns' and n > 0:
        # KEPT FINDING: no period of a datetime64[ns] array span can be addressed by its own label (present label -> KeyError, open
        # slices -> KeyError, the int of the nanoseconds aliases the period).  While that is so the span is unusable as a whole and
        # nothing else is judged on it; once the own labels work, the ordinary statement below applies again.
        if any(r == ['raise', 'KeyError'] for r in obs['bylabel']) or obs['fullslice'] == ['raise', 'KeyError']:
            return [{'sig': SIG_DT64, 'what': 'datetime64[ns] array span: obj[X, label] over the span\'s own labels gives %s, obj[X, :] gives %s' % (obs['bylabel'][:2], obs['fullslice'])}]
    nan_pos = [i for i, l in enumerate(labs) if l == ('nan',)]
    if nan_pos:
        # the NaN label of a float array span: same defect (NaN != NaN in the element-wise comparison); everything else is judged
        hit = [i for i in nan_pos if obs['bylabel'][i] == ['raise', 'KeyError']]
        if hit:
            fails.append({'sig': SIG_DT64, 'what': 'float array span: the NaN label at position %d of the span raises KeyError' % hit[0]})
            obs = dict(obs, bylabel=[(['ret', 'scalar', obs['after'][i]] if i in hit else r) for i, r in enumerate(obs['bylabel'])])
        if any(j == ['f', 'nan'] for j in _key_labels(case)):
            return fails                   # a key written as a fresh NaN is not "the" label of the span (NaN has no equality): not judged
    data = [10 + i for i in range(n)]
    op = case['op']
    kind = op['kind']
    out = obs['out']

    def expect_positions(a, b, s):
        """-> ('raise', cls) | ('pos', [..]) | None (outside the property)"""
        if s is not None and s <= 0:
            return None
        if (a is None or b is None) and n == 0:
            return None

        def bound(j, is_stop):
            """position a bound stands for (inclusive for a stop); 'absent' -> KeyError; None -> not judged.  A text bound that pandas
            parses (partial-string lookup on a Period / Datetime index) stands for the periods pandas itself names: the recorded
            get_loc answer slice(i, k) covers positions i..k-1 (\"pandas already returns inclusive slices\")."""
            if not _partial_string(case, j):
                p = _pos(labs, j)
                return 'absent' if p is None else p
            rec = [r for r in obs.get('pd', []) if r[0] == j]
            if not rec:
                return None
            ans = rec[0][1]
            if ans[0] == 'slice':
                return ans[2] - 1 if is_stop else ans[1]
            if ans[0] == 'pos':
                return ans[1]
            return 'absent' if ans[0] == 'raise' else None
        pa = 0 if a is None else bound(a, False)
        pb = n - 1 if b is None else bound(b, True)
        if pa is None or pb is None:
            return None
        if pa == 'absent' or pb == 'absent':
            # (the start is looked up first; if it is present and the stop is not, KeyError as well)
            return ('raise', 'KeyError')
        return ('pos', list(range(pa, pb + 1, s or 1)))

    def written(ps, w, base):
        new = list(base)
        if 'scalar' in w:
            for p in ps:
                new[p] = w['scalar']
            return new
        if len(w['seq']) == len(ps):
            for p, v in zip(ps, w['seq']):
                new[p] = v
            return new
        if len(w['seq']) == 1:
            for p in ps:
                new[p] = w['seq'][0]
            return new
        return None

    exp_after = data
    site = kind
    if not obs.get('book_ok', True):
        bad(kind, 'bookkeeping-changed', 'the access changed the container\'s own bookkeeping (variable names / strict flag / span / dir() listing)')
    if kind in ('getn', 'setn'):
        # a name that is no variable: KeyError before anything is located or written, whatever the key
        if out != ['raise', 'KeyError']:
            bad('%s(unknown name)' % kind[:3], 'unknown-name-accepted' if out[0] == 'ret' else 'unknown-name-' + out[1],
                'obj[%r, key]%s: expected KeyError, got %s' % (op['name'], ' = v' if kind == 'setn' else '', out))
    elif kind in ('get', 'set'):
        k = op['key']
        site = '%s(%s)' % (kind, 'label' if 'label' in k else 'slice')
        if 'label' in k:
            j = k['label']
            if _partial_string(case, j):
                return fails
            p = _pos(labs, j)
            if p is None:
                if out != ['raise', 'KeyError']:
                    cls = 'absent-label-aliases' if out[0] == 'ret' else 'absent-label-' + out[1]
                    bad(site, cls,
                        'label %s is not in the span: expected KeyError, got %s' % (j, out))
            elif kind == 'get':
                if out != ['ret', 'scalar', data[p]]:
                    bad(site, 'wrong-element', 'obj[X, %s] must be the element at position %d (%s); got %s' % (j, p, data[p], out))
            else:
                if 'scalar' in op['w']:
                    exp_after = written([p], op['w'], data)
                    if out != ['ret', 'none']:
                        bad(site, 'write-rejected', 'obj[X, %s] = v raised %s' % (j, out))
                elif out[0] == 'ret':
                    # a sequence written to ONE period: if the code accepts it (NumPy does for a one-element sequence) the period
                    # holds that element and nothing else changed; if it rejects it nothing changed (checked below)
                    exp_after = written([p], {'scalar': op['w']['seq'][0]}, data) if len(op['w']['seq']) == 1 else None
        else:
            a, b, s = k['slice']
            e = expect_positions(a, b, s)
            if e is None:
                return fails
            if e[0] == 'raise':
                if out != ['raise', 'KeyError']:
                    cls = 'absent-label-aliases' if out[0] == 'ret' else 'absent-label-' + out[1]
                    bad(site, cls,
                        'slice %s has a bound that is not in the span: expected KeyError, got %s' % (k['slice'], out))
            elif kind == 'get':
                if out != ['ret', 'arr', [data[p] for p in e[1]]]:
                    bad(site, 'wrong-positions', 'obj[X, %s] must address positions %s; got %s' % (k['slice'], e[1], out))
            else:
                w = written(e[1], op['w'], data)
                if w is None:
                    if out[0] != 'raise':
                        bad(site, 'wrong-length-accepted', 'sequence of the wrong length was accepted')
                else:
                    exp_after = w
                    if out != ['ret', 'none']:
                        bad(site, 'write-rejected', 'obj[X, %s] = v raised %s' % (k['slice'], out))
                    elif obs.get('sameslice') != ['ret', 'arr', [w[p] for p in e[1]]]:
                        bad(site, 'readback-slice', 'reading the slice just written gives %s' % obs.get('sameslice'))
    elif kind == 'eval':
        a = None if op['a'] is None else _bt_label(sp, labs, op['a'])
        b = None if op['b'] is None else _bt_label(sp, labs, op['b'])
        if (op['a'] is not None and a is None) or (op['b'] is not None and b is None):
            if out != ['raise', 'KeyError']:
                bad('eval-label-slice', 'absent-label', 'backticked label not in the span: expected KeyError, got %s' % out)
        elif not (_partial_string(case, a) or _partial_string(case, b)):
            pa = 0 if a is None else _pos(labs, a)
            pb = n - 1 if b is None else _pos(labs, b)
            e = [data[p] for p in range(pa, pb + 1, op['s'])]
            if out != ['ret', 'arr', e]:
                bad('eval-label-slice', 'wrong-positions', 'eval(X[`%s`:`%s`:%s]) must address the same periods as obj[X, a:b:s] = %s; got %s' % (op['a'], op['b'], op['s'], e, out))
    elif kind == 'locate':
        j = op['label']
        if _partial_string(case, j):
            return fails
        p = _pos(labs, j)
        if p is None:
            if out != ['raise', 'KeyError']:
                bad('locate', 'absent-label-aliases' if out[0] == 'ret' else 'absent-label-' + out[1],
                    'label %s is not in the span: expected KeyError, got %s' % (j, out))
        elif out[0] != 'ret' or out[2][:2] != [0, p]:
            bad('locate', 'wrong-position', 'label %s is at position %d; got %s' % (j, p, out))
    elif kind == 'setpos':
        i = op['i']
        if -n <= i < n:
            exp_after = list(data)
            exp_after[i] = op['v']
            if out != ['ret', 'none']:
                bad('setpos', 'write-rejected', 'positional write raised %s' % out)
    elif kind == 'setwhole':
        w = op['w']
        if 'scalar' in w:
            exp_after = [w['scalar']] * n
        elif len(w['seq']) == n:
            exp_after = list(w['seq'])
        if out[0] == 'raise' and ('scalar' in w or len(w['seq']) == n):
            bad('setwhole', 'write-rejected', 'whole-series write raised %s' % out)
    if exp_after is None:
        return fails
    # state: exactly the addressed periods changed (nothing on a raise), the other variable untouched
    if out[0] == 'raise':
        exp_after = data
    if obs['after'] != exp_after:
        bad(site, 'wrong-periods-written' if out[0] == 'ret' else 'changed-on-error', 'X after the call is %s, expected %s' % (obs['after'], exp_after))
    if obs['other'] != [50 + i for i in range(n)]:
        bad(site, 'other-variable-changed', 'Y changed: %s' % obs['other'])
    # every read path gives back what is stored
    ea = obs['after']
    if obs['attr'] != ea or obs['key'] != ea:
        bad(site, 'readback-attr/key', 'obj.X = %s, obj[X] = %s, stored %s' % (obs['attr'], obs['key'], ea))
    if obs['bypos'] != [['ret', 'scalar', v] for v in ea]:
        bad(site, 'readback-position', 'obj.X[i] gives %s' % obs['bypos'])
    if obs['bylabel'] != [['ret', 'scalar', v] for v in ea]:
        bad(site, 'readback-label', 'obj[X, label] over the span gives %s, stored %s' % (obs['bylabel'], ea))
    if n > 0 and obs['fullslice'] != ['ret', 'arr', ea]:
        bad(site, 'readback-fullslice', 'obj[X, :] gives %s' % obs['fullslice'])
    return fails


def _bt_label(sp, labs, text):
    """the label a backticked text denotes: the str label if present, else the int label if present, else None
    (PeriodIndex: the period whose text it is)"""
    if sp['type'] == 'period':
        for j in lc.span_labels(sp):
            if _text(j) == text:
                return j
        return None
    if ('s', text) in labs:
        return ['s', text]
    try:
        z = int(text)
    except ValueError:
        return None
    return ['i', z] if ('n', 2 * z) in labs else None


def guard(case, obs):
    """No finding is kept for C10 any more (the tuple-label broadcast was repaired by fix 35fe7e2): K is compared everywhere."""
    return False


def nontrivial(case, obs):
    if lc.span_len(case['span']) < 2:
        return False
    if case['op']['kind'] == 'typed':
        return True
    out = obs['out']
    if out[0] == 'raise':
        return True
    if case['op']['kind'] == 'get' and out[1] == 'arr':
        return len(out[2]) > 0
    return True


def bucket(case, obs):
    op = case['op']
    k = op['kind']
    if 'key' in op:
        k += ':label' if 'label' in op['key'] else ':slice'
    out = obs['out']
    return '%s/%s/%s/%s' % (case['span']['type'], case['cls'], k, out[1] if out[0] == 'raise' else 'ok')


def shrink_candidates(case):
    op = case['op']
    for k in ('prior', 'span0', 'pre_reads', 'inplace'):
        if case.get(k):
            c = copy.deepcopy(case)
            del c[k]
            yield c
    if 'key' in op and 'slice' in op['key']:
        for i in range(3):
            if op['key']['slice'][i] is not None:
                c = copy.deepcopy(case)
                c['op']['key']['slice'][i] = None
                yield c
    if case['cls'] != 'VC':
        c = copy.deepcopy(case)
        c['cls'] = 'VC'
        yield c


# --------------------------------------------------------------------------- generator
def span_specs(nmax, monthly=False):
    """Every span type at every length 0..nmax."""
    specs = []
    strs = ['a', 'b', 'c', 'd', 'e', 'f', 'g', 'h', 'i']
    mixed = [['s', 'a'], ['i', 1], ['p', 2, 3], ['f', 2.5], ['i', 0], ['s', '7'], ['f', -3.0], ['p', 3, 2], ['i', -1]]
    for n in range(0, nmax + 1):
        specs.append({'type': 'range', 'start': 2000, 'step': 1, 'n': n})
        specs.append({'type': 'range', 'start': -2, 'step': 2, 'n': n})
        specs.append({'type': 'list', 'labels': [['s', x] for x in strs[:n]]})
        specs.append({'type': 'list', 'labels': mixed[:n]})
        specs.append({'type': 'nparr', 'labels': [['i', 5 + i] for i in range(n)]})
        specs.append({'type': 'nparr', 'labels': [['s', x] for x in strs[:n]]})
        specs.append({'type': 'pdindex', 'labels': [['i', 5 + 2 * i] for i in range(n)]})
        specs.append({'type': 'pdindex', 'labels': [['s', x] for x in strs[:n]]})
        specs.append({'type': 'period', 'freq': 'Y', 'start': PER_Y0, 'n': n})
        specs.append({'type': 'period', 'freq': 'Q', 'start': PER_Q0, 'n': n})
        specs.append({'type': 'datetime', 'freq': 'D', 'start': TS_D0, 'n': n})
        if n <= 4:
            specs.append({'type': 'range', 'start': 3, 'step': -1, 'n': n})
            specs.append({'type': 'tuple', 'labels': [['i', 7 - i] for i in range(n)]})
            specs.append({'type': 'datetime', 'freq': 'MS', 'start': TS_M0, 'n': n})
            specs.append({'type': 'list', 'labels': [['i', 3 * i] for i in range(n)][::-1]})
        if monthly and n <= 5:
            specs.append({'type': 'period', 'freq': 'M', 'start': PER_M0, 'n': n})
    # NumPy datetime64 array spans: [D] (object cast = datetime.date: works) and [ns] (object cast = int: KEPT FINDING); a float
    # array span with a NaN label (oracle-only)
    for n in range(0, 4):
        specs.append({'type': 'nparr_dt64', 'unit': 'ns', 'start': TS_D0, 'step': 86400 * 10 ** 9, 'n': n})
        specs.append({'type': 'nparr_dt64', 'unit': 'D', 'start': 10955, 'step': 1, 'n': n})
    specs.append({'type': 'nparr', 'labels': [['f', 1.0], ['f', 'nan'], ['f', 3.0]]})
    # spans of numeric-text strings (an int key is not the string label)
    specs.append({'type': 'list', 'labels': [['s', '2000'], ['s', '2001'], ['s', '2002']]})
    specs.append({'type': 'nparr', 'labels': [['s', '2000'], ['s', '2001'], ['s', '2002']]})
    specs.append({'type': 'pdindex', 'labels': [['s', '2000'], ['s', '2001'], ['s', '2002']]})
    # falsy labels (0, '', 0.0) first / in the middle / last: a label is never an omitted bound
    specs.append({'type': 'list', 'labels': [['s', ''], ['i', 0], ['s', 'a']]})
    specs.append({'type': 'range', 'start': -1, 'step': 1, 'n': 3})
    specs.append({'type': 'nparr', 'labels': [['i', 0], ['i', 1], ['i', 2]]})
    specs.append({'type': 'pdindex', 'labels': [['i', 2], ['i', 1], ['i', 0]]})
    specs.append({'type': 'pdindex', 'labels': [['i', 9], ['i', 5], ['i', 7], ['i', 6]]})          # unique, not monotonic
    specs.append({'type': 'list', 'labels': [['f', 1.5], ['f', 0.0], ['i', 3]]})
    return specs


def absent_labels(spec):
    t = spec['type']
    labs = lc.span_labels(spec)
    kinds = {j[0] for j in labs}
    out = []
    if t == 'period':
        out = [['per', spec['freq'], spec['start'] - 1], ['i', 2000], ['per', 'Q' if spec['freq'] != 'Q' else 'Y', 31]]
    elif t == 'datetime':
        out = [['ts', spec['start'] + 3600 * 10 ** 9], ['i', 3]]
    elif t == 'nparr_dt64':
        # one step before the start; the INTEGER of a present element (for [ns] it finds the period: the object cast holds ints)
        out = [['d64', spec['unit'], spec['start'] - spec['step']], ['i', spec['start'] + (spec['step'] if spec['n'] > 1 else 0)], ['s', 'zz']]
    elif kinds <= {'i'}:
        out = [['i', 4], ['s', 'zz'], ['f', 5.5], ['i', -1] if ['i', -1] not in labs else ['i', -77]]
        if t == 'range':
            # just before the start and just after the end (an arithmetic lookup must check both bounds), and between two labels
            out = [['i', spec['start'] - spec['step']], ['i', spec['start'] + spec['step'] * spec['n']]] + out
            if abs(spec['step']) > 1:
                out.append(['i', spec['start'] + 1])
    else:
        out = [['s', 'zz'], ['i', 1] if ['i', 1] not in labs else ['i', 99], ['s', '']]
    return [j for j in out if lc.canon(j) not in [lc.canon(x) for x in labs]]


def text_aliases(spec):
    """Absent labels of ANOTHER type whose text coincides with a present label: the decimal text of an int label ('2001', ' 2001', '+2001',
    '2001.0') on an integer span, the int of a label on a span of numeric-text strings.  By label equality they are not in the span."""
    labs = lc.span_labels(spec)
    if spec['type'] not in ('range', 'list', 'tuple', 'nparr', 'pdindex') or not labs:
        return []
    present = [lc.canon(x) for x in labs]
    out = []
    if all(j[0] == 'i' for j in labs):
        v = labs[len(labs) // 2][1]
        out = [['s', str(v)], ['s', ' %d' % v], ['s', '+%d' % v] if v >= 0 else ['s', '%d ' % v], ['s', '%d.0' % v], ['s', str(labs[0][1])]]
    elif all(j[0] == 's' and j[1].lstrip('-').isdigit() for j in labs):
        out = [['i', int(labs[len(labs) // 2][1])], ['i', int(labs[-1][1])], ['f', float(labs[0][1])]]
    res = []
    for j in out:
        if lc.canon(j) not in present and j not in res:
            res.append(j)
    return res


def partial_strings(spec):
    if spec['type'] == 'period' and spec['freq'] == 'Q':
        return [['s', '1999'], ['s', '2000'], ['s', '2000Q1'], ['s', '2001']]
    if spec['type'] == 'period' and spec['freq'] == 'M':
        return [['s', '1999'], ['s', '2000'], ['s', '2000-01'], ['s', '2000Q1']]
    if spec['type'] == 'period':
        return [['s', '2000'], ['s', '2001'], ['s', '1999']]
    if spec['type'] == 'datetime' and spec['freq'] == 'D':
        return [['s', '1999'], ['s', '2000'], ['s', '2000-01'], ['s', '2000-01-01']]
    if spec['type'] == 'datetime':
        return [['s', '1999'], ['s', '2000'], ['s', '2000-01']]
    return []


def cases_for_span(spec, cls, rng, level):
    full = level >= 1
    n = lc.span_len(spec)
    labs = lc.span_labels(spec)
    absent = absent_labels(spec)
    pair = [['p', 5, 6], ['p', 2, 5]] if spec['type'] in ('nparr', 'list', 'pdindex', 'period', 'datetime') and n <= 3 else []          # (a tuple makes Period / Datetime indexes raise InvalidIndexError: must surface as KeyError)
    texts = text_aliases(spec)
    universe = [j for j in labs if j != ['none']] + absent[:2] + texts[:1]
    out = []

    def add(op):
        out.append({'span': spec, 'cls': cls, 'op': op})
    # scalar labels: every label, every absent label, get / set / locate
    for j in labs + absent + pair + partial_strings(spec) + texts:
        add({'kind': 'get', 'key': {'label': j}})
        add({'kind': 'set', 'key': {'label': j}, 'w': {'scalar': 99}})
        add({'kind': 'locate', 'label': j})
    if labs:
        add({'kind': 'set', 'key': {'label': labs[-1]}, 'w': {'seq': [99]}})
    # the same label written as another numeric type (2001.0 for 2001; True for 1): Python equality, so the same period
    if spec['type'] in ('range', 'list', 'tuple', 'nparr'):
        for j in [x for x in (labs[:1] + labs[-1:]) if x[0] == 'i']:
            alias = ['f', float(j[1])]
            add({'kind': 'get', 'key': {'label': alias}})
            add({'kind': 'set', 'key': {'label': alias}, 'w': {'scalar': 99}})
            add({'kind': 'locate', 'label': alias})
            add({'kind': 'get', 'key': {'slice': [alias, None, 2]}})
            add({'kind': 'set', 'key': {'slice': [None, alias, None]}, 'w': {'scalar': 99}})
        if ['i', 1] in labs:
            add({'kind': 'get', 'key': {'label': ['b', True]}})
            add({'kind': 'set', 'key': {'label': ['b', True]}, 'w': {'scalar': 99}})
    # every (start, stop, step)
    steps = [None, 1, 2, 3] + ([n] if n > 3 else []) + [n + 1]
    get_steps = steps if level >= 1 else [None, 2, 3, n + 1]
    set_steps = steps if level >= 2 else ([None, 2, n + 1] if level == 1 else [None, 2])
    bounds = [None] + universe
    for a, b in itertools.product(bounds, bounds):
        for s in get_steps:
            add({'kind': 'get', 'key': {'slice': [a, b, s]}})
        for s in set_steps:
            add({'kind': 'set', 'key': {'slice': [a, b, s]}, 'w': {'scalar': 99}})
    # sequences: full-length, one-element, wrong length; zero / negative steps; pairs and partial strings as bounds
    extra_bounds = bounds + pair[:1] + partial_strings(spec)
    pool = list(itertools.product(extra_bounds, extra_bounds))
    picks = pool if full and n <= 4 else rng.sample(pool, min(len(pool), 14 + 2 * n))
    for a, b in picks:
        s = rng.choice([None, 1, 2, 3])
        pa = 0 if a is None else next((i for i, x in enumerate(labs) if lc.canon(x) == lc.canon(a)), None)
        pb = n - 1 if b is None else next((i for i, x in enumerate(labs) if lc.canon(x) == lc.canon(b)), None)
        cnt = len(range(pa, pb + 1, s or 1)) if pa is not None and pb is not None else rng.randint(0, 2)
        add({'kind': 'set', 'key': {'slice': [a, b, s]}, 'w': {'seq': [70 + i for i in range(cnt)]}})
        add({'kind': 'set', 'key': {'slice': [a, b, s]}, 'w': {'seq': [70 + i for i in range(rng.choice([1, cnt + 1, max(0, cnt - 1)]))]}})
        add({'kind': 'get', 'key': {'slice': [a, b, rng.choice([0, -1, -2, -1])]}})
        add({'kind': 'set', 'key': {'slice': [a, b, rng.choice([0, -1, -2])]}, 'w': {'scalar': 99}})
        if a in partial_strings(spec) or b in partial_strings(spec) or a in pair or b in pair:
            add({'kind': 'get', 'key': {'slice': [a, b, s]}})
            add({'kind': 'set', 'key': {'slice': [a, b, s]}, 'w': {'scalar': 99}})
    # names that are no variables ('attributes' / 'strict': '_' + name IS an entry of the object's __dict__)
    for nm in ('Q', 'attributes', 'strict'):
        for j in labs[:2] + absent[:1]:
            add({'kind': 'getn', 'name': nm, 'key': {'label': j}})
            add({'kind': 'setn', 'name': nm, 'key': {'label': j}, 'w': {'scalar': 99}})
        for sl in ([None, None, None], [labs[0] if labs else None, labs[-1] if labs else None, 2]):
            add({'kind': 'getn', 'name': nm, 'key': {'slice': sl}})
            add({'kind': 'setn', 'name': nm, 'key': {'slice': sl}, 'w': {'scalar': 99} if nm != 'attributes' else {'seq': [70]}})
    # positional and whole-series writes, read back by label
    for i in range(-n - 1, n + 1):
        add({'kind': 'setpos', 'i': i, 'v': 99, 'via': 'attr' if i % 2 else 'key'})
    for via in ('attr', 'key'):
        add({'kind': 'setwhole', 'w': {'scalar': 99}, 'via': via})
        add({'kind': 'setwhole', 'w': {'seq': [70 + i for i in range(n)]}, 'via': via})
        add({'kind': 'setwhole', 'w': {'seq': [70 + i for i in range(n + 1)]}, 'via': via})
    # label slices through eval(): spans whose labels have a plain text form
    if all(j[0] in ('i', 's') and (j[0] == 'i' or (j[1].isalnum() and j[1])) for j in labs) or spec['type'] == 'period':
        texts = [None] + [_text(j) for j in labs] + ['zz', '4']
        for a, b in itertools.product(texts, texts):
            if a is None and b is None:
                continue
            for s in ((1, 2) if level >= 2 or (level == 1 and (n <= 4 or a is None or b is None)) else (rng.choice([1, 2, 3]),)):
                add({'kind': 'eval', 'a': a, 'b': b, 's': s})
    return out


def _text(j):
    if j[0] == 'per':
        return str(lc.dec_label(j))
    return str(j[1])


def dup_specs():
    return [{'type': 'list', 'labels': [['s', 'a'], ['s', 'b'], ['s', 'a']]}, {'type': 'nparr', 'labels': [['i', 1], ['i', 2], ['i', 1]]},
            {'type': 'tuple', 'labels': [['s', 'a'], ['s', 'b'], ['s', 'b']]},
            {'type': 'list', 'labels': [['i', 1], ['i', 2], ['i', 1], ['i', 3]]},
            {'type': 'list', 'labels': [['s', 'a'], ['i', 1], ['b', True], ['f', 1.0]]},
            {'type': 'nparr', 'labels': [['i', 1], ['i', 2], ['i', 1], ['i', 3]]},
            {'type': 'nparr', 'labels': [['s', 'a'], ['s', 'a']]},
            {'type': 'tuple', 'labels': [['i', 4], ['i', 4], ['i', 5]]},
            {'type': 'list', 'labels': [['none'], ['i', 1], ['i', 2]]}]


def history_cases():
    """the accesses of a span after the same labels were looked up on a sibling container where they sit at other positions"""
    out = []
    pairs = [({'type': 'list', 'labels': [['s', x] for x in 'abcd']}, {'type': 'list', 'labels': [['s', x] for x in 'dcba']}),
             ({'type': 'range', 'start': 2000, 'step': 1, 'n': 4}, {'type': 'range', 'start': 1998, 'step': 1, 'n': 6}),
             ({'type': 'nparr', 'labels': [['i', 5 + i] for i in range(4)]}, {'type': 'nparr', 'labels': [['i', 8 - i] for i in range(4)]}),
             ({'type': 'pdindex', 'labels': [['i', 5 + 2 * i] for i in range(4)]}, {'type': 'pdindex', 'labels': [['i', 11 - 2 * i] for i in range(4)]}),
             ({'type': 'period', 'freq': 'Q', 'start': PER_Q0, 'n': 4}, {'type': 'period', 'freq': 'Q', 'start': PER_Q0 - 2, 'n': 6})]
    for spec, prior in pairs:
        labs = lc.span_labels(spec)
        for j in labs:
            out.append({'span': spec, 'cls': 'VC', 'prior': prior, 'op': {'kind': 'get', 'key': {'label': j}}})
            out.append({'span': spec, 'cls': 'VC', 'prior': prior, 'op': {'kind': 'set', 'key': {'label': j}, 'w': {'scalar': 99}}})
            out.append({'span': spec, 'cls': 'VC', 'prior': prior, 'op': {'kind': 'locate', 'label': j}})
        for a, b in itertools.product(labs, labs):
            out.append({'span': spec, 'cls': 'VC', 'prior': prior, 'op': {'kind': 'get', 'key': {'slice': [a, b, 2]}}})
    return out


def typed_cases():
    """series of other dtypes; values of the dtype and values NumPy has to cast (2.5 into int64, 'abc' into <U2, 7 into bool, ...)"""
    out = []
    spans = [{'type': 'range', 'start': 2000, 'step': 1, 'n': 3}, {'type': 'list', 'labels': [['s', 'a'], ['s', 'b'], ['s', 'c']]},
             {'type': 'nparr', 'labels': [['i', 5], ['i', 6], ['i', 7]]}, {'type': 'period', 'freq': 'Q', 'start': PER_Q0, 'n': 3}]
    values = {'int': [7, -3, 2.5, -0.5, True, '12', 'abc', 2 ** 40], 'str': ['zz', 'z', 'abc', '', 12, 2.5, True], 'bool': [False, True, 0, 7, 0.0, 'x', ''],
              'f32': [2.5, 0.1, 7, True, '3.5', 1e40]}
    for spec in spans:
        labs = lc.span_labels(spec)
        for dt, vs in values.items():
            for v in vs:
                for path, at in (('label', labs[1]), ('slice', labs[2]), ('pos', -1), ('keypos', 0), ('whole', None), ('label', labs[0])):
                    out.append({'span': spec, 'cls': 'VC', 'op': {'kind': 'typed', 'dtype': dt, 'path': path, 'at': at, 'v': v}})
    return out


def history_cases2():
    """histories on ONE object: (1) lookups on span0, span reassigned to a span of the same length (shifted window, reversed, other
    type), then the access; (2) a successful slice read, then reads with a missing end point, then the access"""
    out = []
    strs = lambda t: [['s', x] for x in t]
    groups = [({'type': 'range', 'start': 2000, 'step': 1, 'n': 4}, [{'type': 'range', 'start': 2001, 'step': 1, 'n': 4}, {'type': 'range', 'start': 1999, 'step': 1, 'n': 4},
                                                                      {'type': 'range', 'start': 2003, 'step': -1, 'n': 4}, {'type': 'list', 'labels': [['i', 2003 - i] for i in range(4)]}]),
              ({'type': 'list', 'labels': strs('abcd')}, [{'type': 'list', 'labels': strs('bcde')}, {'type': 'list', 'labels': strs('dcba')}, {'type': 'tuple', 'labels': strs('cdab')},
                                                           {'type': 'nparr', 'labels': strs('bcda')}]),
              ({'type': 'nparr', 'labels': [['i', 5 + i] for i in range(4)]}, [{'type': 'nparr', 'labels': [['i', 6 + i] for i in range(4)]}, {'type': 'nparr', 'labels': [['i', 8 - i] for i in range(4)]},
                                                                                 {'type': 'list', 'labels': [['i', 4 + i] for i in range(4)]}]),
              ({'type': 'pdindex', 'labels': [['i', 5 + 2 * i] for i in range(4)]}, [{'type': 'pdindex', 'labels': [['i', 7 + 2 * i] for i in range(4)]}, {'type': 'pdindex', 'labels': [['i', 11 - 2 * i] for i in range(4)]}]),
              ({'type': 'period', 'freq': 'Q', 'start': PER_Q0, 'n': 4}, [{'type': 'period', 'freq': 'Q', 'start': PER_Q0 + 1, 'n': 4}, {'type': 'period', 'freq': 'Q', 'start': PER_Q0 - 2, 'n': 4}]),
              ({'type': 'datetime', 'freq': 'D', 'start': TS_D0, 'n': 4}, [{'type': 'datetime', 'freq': 'D', 'start': TS_D0 + 86400 * 10 ** 9, 'n': 4}])]
    for span0, targets in groups:
        for spec in targets + [span0]:
            labs = lc.span_labels(spec)
            absent = [j for j in lc.span_labels(span0) if lc.canon(j) not in [lc.canon(x) for x in labs]][:2] + absent_labels(spec)[:1]
            for cls in ('VC', 'BM'):
                base = {'span': spec, 'cls': cls}
                if spec is not span0:
                    base['span0'] = span0
                else:
                    continue
                for j in labs + absent:
                    out.append(dict(base, op={'kind': 'get', 'key': {'label': j}}))
                    out.append(dict(base, op={'kind': 'set', 'key': {'label': j}, 'w': {'scalar': 99}}))
                    out.append(dict(base, op={'kind': 'locate', 'label': j}))
                for a, b in itertools.product([None] + labs + absent[:1], repeat=2):
                    out.append(dict(base, op={'kind': 'get', 'key': {'slice': [a, b, 2]}}))
                    out.append(dict(base, op={'kind': 'set', 'key': {'slice': [a, b, None]}, 'w': {'scalar': 99}}))
                if span0['type'] == 'list' and spec['type'] == 'list':
                    for j in labs + absent:          # the list span relabelled IN PLACE
                        out.append(dict(base, inplace=True, op={'kind': 'get', 'key': {'label': j}}))
                        out.append(dict(base, inplace=True, op={'kind': 'get', 'key': {'slice': [j, None, None]}}))
                        out.append(dict(base, inplace=True, op={'kind': 'set', 'key': {'label': j}, 'w': {'scalar': 99}}))
    # good slice, bad slice(s), then the access
    for spec in [g[0] for g in groups]:
        labs = lc.span_labels(spec)
        miss = absent_labels(spec)[0]
        good = {'slice': [labs[0], labs[2], None]}
        for bad in ({'slice': [labs[1], miss, None]}, {'slice': [miss, labs[2], None]}, {'slice': [labs[1], miss, 2]}):
            for pre in ([good, bad], [good, bad, bad], [bad, good, bad]):
                for cls in ('VC', 'BM'):
                    base = {'span': spec, 'cls': cls, 'pre_reads': pre}
                    out.append(dict(base, op={'kind': 'get', 'key': bad}))
                    out.append(dict(base, op={'kind': 'set', 'key': bad, 'w': {'scalar': 99}}))
                    out.append(dict(base, op={'kind': 'get', 'key': good}))
                    out.append(dict(base, op={'kind': 'get', 'key': {'label': miss}}))
                    out.append(dict(base, op={'kind': 'get', 'key': {'slice': [labs[3], labs[3], None]}}))
    return out


def gen(rng, tier):
    nvc, nbm = (6, 3) if tier == 'quick' else (9, 7)
    cases = history_cases() + history_cases2() + typed_cases()
    for spec in span_specs(nvc, monthly=tier != 'quick'):
        cases += cases_for_span(spec, 'VC', rng, 1 if tier == 'quick' else 2)
    for spec in span_specs(nbm):
        cases += cases_for_span(spec, 'BM', rng, 0 if tier == 'quick' else 2)
    for spec in dup_specs():
        cases += cases_for_span(spec, 'VC', rng, 1)
    # the same accessors reached through mixin subclasses (aliases, pandas reindex mixin)
    for spec in ({'type': 'range', 'start': 2000, 'step': 1, 'n': 3}, {'type': 'list', 'labels': [['s', x] for x in 'abc']},
                 {'type': 'nparr', 'labels': [['i', 5 + i] for i in range(3)]}, {'type': 'period', 'freq': 'Q', 'start': PER_Q0, 'n': 3}):
        for cls in ('BMA', 'BMP'):
            cases += cases_for_span(spec, cls, rng, 0)
    if tier != 'quick':
        # longer spans (nothing may depend on the span being short)
        longs = [{'type': 'range', 'start': 1990, 'step': 1, 'n': 12}, {'type': 'range', 'start': 1950, 'step': 2, 'n': 40},
                 {'type': 'list', 'labels': [['s', 'p%02d' % i] for i in range(12)]}, {'type': 'nparr', 'labels': [['i', 100 - 3 * i] for i in range(12)]},
                 {'type': 'pdindex', 'labels': [['i', (7 * i) % 29] for i in range(12)]}, {'type': 'period', 'freq': 'Q', 'start': PER_Q0, 'n': 12},
                 {'type': 'datetime', 'freq': 'D', 'start': TS_D0, 'n': 12}]
        for spec in longs:
            cases += cases_for_span(spec, 'VC', rng, 0)
    return cases
