"""C18 — an alias is indistinguishable from the variable it names (fsic.extensions.common.AliasMixin)."""
import copy
import json
import signal

import lib
import container_common as cc
from props import C09 as c09

ID = 'C18'
PROPS_FILE = 'Props/C18.v'
MODEL_FILES = ['Container/Container.v', 'Container/Alias.v']
K_NAME = ('K_alias (Alias.alias_construct / alias_init_model / alias_step / alias_getitem / alias_getattr_var / export over '
          'Container.np_step, OCaml extraction, vs AliasMixin over BaseModel / BaseLinker: constructor outcome, the shortened alias map, '
          'outcome + full container state after every operation made through aliases, final reads through aliases, titles and data '
          'sources of to_dataframe(use_aliases=True))')
RULE = ('alias maps of up to 6 entries over a model of 1-4 variables (one-to-one, many-to-one, chains of length 2-4, aliases of aliases, '
        'self-maps, 2- and 3-cycles, aliases of undeclared variables, aliases named like a variable / status / an attribute or method of the '
        'object (all to be refused by the constructor), add_variable of an alias name afterwards), PREFERRED_NAMES subsets '
        '(none, aliases, variables, ambiguous, duplicated), constructor keywords through aliases (incl. an alias and its target together), '
        'then C09 operation sequences (<= 25 ops, incl. the read-only hooks _ipython_key_completions_ / dir() / in / nbytes) made through '
        'randomly chosen aliases, cross-instance steps (siblings made by copy()/deepcopy/reindex() and operated on, the object replaced by its '
        'copy, alias attribute reads before them), class families (the class under test extends its parent\'s ALIASES or is extended by a '
        'subclass; the other class instantiated before / after), reads by name / label / label slice / attribute, copy() and reindex() of the final object, '
        'a final solve() of a two-variable equation written through aliases; every run is compared with a canonical twin (no AliasMixin, '
        'operated through the ends of the declared chains). Non-trivial = constructed, and (an operation through an alias was accepted, '
        'or the export renamed a column). Distinct by hash of the case.')
TRUSTED = ['harness/container_common.py (case encoding, real-object driver, OCaml driver text, extraction via ExtrOcamlBasic/ExtrOcamlString)',
           'the twin is built by the harness: chain ends are computed by following the DECLARED ALIASES (independent of fsic)',
           'difflib.get_close_matches is an oracle: its answer is recorded from the run and handed to the model']
ASSUMPTIONS = c09.ASSUMPTIONS + ['ALIASES is a dict of str -> str (no key twice)']
EXHAUSTIVE = {'quick': False, 'thorough': False}
CASE_TIMEOUT = 60            # wall clock per case, first import of numpy / pandas / fsic included: ample also on a loaded machine
HANDLES_TIMEOUT = True
SOURCES = ['extensions/common.py', 'core/containers.py', 'core/interfaces.py', 'tools.py']

VARS = ['X', 'Y', 'Z', 'W']
INTERNAL = '_V'                 # a variable whose name starts with '_': left out of to_dataframe() unless include_internal=True
ATTR_NAMES = ('lags', 'check', 'names', 'values', 'solve', 'copy', 'aliases', 'ALIASES', 'span')
# attributes / methods every aliased model has: an alias named like one must be refused by the constructor (fix 4e03fd0)
ALIAS_NAMES = ['A', 'B', 'C', 'D', 'y', 'Ax', '_a', '_gdp', '__x']     # also names with leading underscores (accepted by the constructor)
CTOR_KEYWORDS = ('default_value',)   # constructor keywords that are NOT kept as attributes (an alias of that name passes the clash check)
SPANS = [[10, 11, 12], [0, 1, 2, 3], [5], [2000, 2001, 2002, 2003, 2004], [3, 1, 2]]
S = c09.S


# --------------------------------------------------------------------------- the declared chains, followed by the harness
def chain_end(aliases, x):
    """The variable an alias stands for: follow the DECLARED map (self-maps are no aliases). None = the chain never ends."""
    d = {k: v for k, v in aliases}
    for _ in range(len(d) + 2):
        if x in d and d[x] != x:
            x = d[x]
        else:
            return x
    return None


def cyclic(aliases):
    return any(chain_end(aliases, k) is None for k, _ in aliases)


def canon_key(aliases, k):
    if k[0] in ('n', 'l', 'sl'):
        return [k[0], chain_end(aliases, k[1])] + list(k[2:])
    return list(k)


def canon_op(aliases, op):
    """The same operation through the underlying names (what one would do on a model without aliases)."""
    t = op[0]
    if t == 'setattr':
        return ['setattr', chain_end(aliases, op[1]), op[2]]
    if t == 'setitem':
        return ['setitem', canon_key(aliases, op[1]), op[2]]
    if t == 'replace':
        # keywords in call order; two keywords may name ONE variable (an alias and its target), which a call on the twin cannot
        # spell: apply_twin() performs such a call as the item assignments it stands for
        return ['replace', [[chain_end(aliases, k), v] for k, v in op[1]]]
    if t == 'query' and isinstance(op[1], list):
        return ['query', [op[1][0], chain_end(aliases, op[1][1])]]
    if t == 'fork':
        return ['fork', op[1], canon_op(aliases, op[2])]
    if t == 'sib':
        return ['sib', canon_op(aliases, op[1])]
    if t == 'getattr':
        return ['getattr', chain_end(aliases, op[1])]
    return op            # add_variable / add_attribute take the name literally; the other hooks take no name


def apply_twin(obj, op):
    if op[0] == 'replace' and len({k for k, _ in op[1]}) != len(op[1]):
        for k, v in op[1]:
            o, info = cc.apply_op(obj, ['setitem', ['n', k], v])
            if o != 'ok':
                return o, info
        return 'ok', {}
    return cc.apply_op(obj, op)


def names_of(aliases, target):
    """Every name (the variable itself and its aliases, direct or chained) that stands for `target`."""
    return [target] + [k for k, _ in aliases if k != target and chain_end(aliases, k) == target]


# --------------------------------------------------------------------------- generator
def rand_aliases(rng, names):
    r = rng.random()
    keys = list(ALIAS_NAMES)
    rng.shuffle(keys)
    al = []
    targets = list(names) if names else ['X']
    if r < 0.08:
        return []
    n = rng.choice([1, 1, 2, 2, 3, 3, 4, 5, 6])
    keys = keys[:n]
    for i, k in enumerate(keys):
        q = rng.random()
        if q < 0.55 or i == len(keys) - 1:
            v = rng.choice(targets) if rng.random() < 0.9 else rng.choice(['Q', 'V'])     # rarely: an undeclared variable
        else:
            v = rng.choice(keys[i + 1:])                                                  # an alias of a LATER alias: acyclic chains
        al.append([k, v])
    rng.shuffle(al)                 # dict order is not chain order
    q = rng.random()
    if q < 0.07:                    # self-map
        al.insert(rng.randint(0, len(al)), [rng.choice(['S1', 'X', 'Y']), None])
        al = [[k, (k if v is None else v)] for k, v in al]
    elif q < 0.10 and len(al) >= 2:  # 2-cycle
        a, b = al[0][0], al[1][0]
        al[0][1], al[1][1] = b, a
    elif q < 0.12 and len(al) >= 3:  # 3-cycle
        a, b, c = al[0][0], al[1][0], al[2][0]
        al[0][1], al[1][1], al[2][1] = b, c, a
    elif q < 0.18 and names:        # an alias named like a variable / like the status column: refused by the constructor (fix 4e03fd0)
        k = rng.choice(list(names) + ['status'])
        others = [x for x in names if x != k]
        if others and all(kk != k for kk, _ in al):
            al.append([k, rng.choice(others)])
    seen = set()
    out = []
    for k, v in al:                 # a dict holds a key once
        if k not in seen:
            seen.add(k)
            out.append([k, v])
    return out


def rand_preferred(rng, aliases, names):
    r = rng.random()
    if r < 0.4 or not aliases:
        return [] if rng.random() < 0.8 else rng.sample(list(names), min(len(names), 1))
    pool = [k for k, _ in aliases] + list(names)
    if r < 0.8:
        # unambiguous: at most one name per underlying variable
        chosen, seen = [], set()
        for p in rng.sample(pool, min(len(pool), rng.randint(1, 3))):
            e = chain_end(aliases, p)
            if e not in seen:
                seen.add(e)
                chosen.append(p)
        return chosen
    if r < 0.86:
        return rng.sample(pool, min(len(pool), rng.randint(2, 4)))          # possibly ambiguous
    if r < 0.92:
        return rng.sample(pool, min(len(pool), 1)) + [rng.choice(['nosuch', 'Q'])]   # a preferred name that is neither alias nor variable
    p = rng.choice(pool)
    return [p, p]                                                           # a duplicate


def rename(rng, aliases, name, p=0.65):
    """Some name of the same variable (mostly an alias when there is one)."""
    opts = names_of(aliases, name) if not cyclic(aliases) else [name]
    if len(opts) > 1 and rng.random() < p:
        return rng.choice(opts[1:])
    return name


def through_aliases(rng, aliases, op):
    t = op[0]
    op = copy.deepcopy(op)
    if t == 'setattr':
        op[1] = rename(rng, aliases, op[1])
    elif t == 'setitem' and op[1][0] in ('n', 'l', 'sl'):
        op[1][1] = rename(rng, aliases, op[1][1])
    elif t == 'replace':
        seen = set()
        kvs = []
        for k, v in op[1]:
            k = rename(rng, aliases, k)
            if k not in seen:               # Python keywords are unique (two DIFFERENT names of one variable may remain)
                seen.add(k)
                kvs.append([k, v])
        op[1] = kvs
    elif t == 'query' and isinstance(op[1], list):
        op[1][1] = rename(rng, aliases, op[1][1], p=0.8)
    elif t == 'fork':
        op[2] = through_aliases(rng, aliases, op[2])
    elif t == 'sib':
        op[1] = through_aliases(rng, aliases, op[1])
    elif t == 'getattr':
        op[1] = rename(rng, aliases, op[1], p=0.9)          # an alias is read by attribute BEFORE what follows
    return op


def rand_case(rng, max_ops):
    kind = 'model' if rng.random() < 0.75 else 'linker'
    span = list(rng.choice(SPANS))
    n = len(span)
    names = rng.sample(VARS, rng.randint(1, 4))
    if rng.random() < 0.15:
        names.insert(rng.randint(0, len(names)), INTERNAL)
    aliases = rand_aliases(rng, names)
    if aliases and not cyclic(aliases) and rng.random() < 0.02:
        aliases.append([rng.choice(CTOR_KEYWORDS), rng.choice(names)])      # an alias named like a constructor keyword (kept finding)
    if aliases and not cyclic(aliases) and rng.random() < 0.04:
        # (not `span` for a linker: there span is a constructor KEYWORD, which AliasMixin would hand on under the variable's name)
        aliases.append([rng.choice([a for a in ATTR_NAMES if not (kind == 'linker' and a == 'span')]), rng.choice(names)])
    case = {'kind': kind, 'span': span, 'strict': kind == 'model' and rng.random() < 0.2, 'names': names,
            'dreq': rng.choice(['f', 'f', 'f', 'f', 'i', 's', 'b']), 'default': S(rng.choice([['f', 0], ['i', 1], ['f', 3]])),
            'aliases': aliases, 'preferred': rand_preferred(rng, aliases, names), 'extra': 0, 'ops': [], 'ivs': []}
    if kind == 'linker' and rng.random() < 0.4:
        case['extra'] = 2 * n
    # constructor keywords, through aliases; sometimes an alias AND its target (the later keyword must win, one storage)
    ivs = []
    def kwval():
        q = rng.random()
        if q < 0.4:
            return S(rng.choice([['i', 1], ['i', 7], ['f', 5], ['f', -1], ['b', 1]]))
        if q < 0.75:
            return ['L', [S(['i', rng.randint(-3, 12)]) for _ in range(n)]]
        return c09.rand_operand(rng, n, allow_obj=False)
    for x in rng.sample(names + ['Q'], rng.randint(0, min(3, len(names) + 1)) if rng.random() < 0.7 else 0):
        if x == 'Q' and rng.random() < 0.7:
            continue
        ivs.append([rename(rng, aliases, x), kwval()])
        if rng.random() < 0.2:
            ivs.append([rename(rng, aliases, x, p=0.9), kwval()])
    seen = set()
    case['ivs'] = [kv for kv in ivs if not (kv[0] in seen or seen.add(kv[0]))]       # Python keywords are unique
    pool = list(names) + (['Q'] if rng.random() < 0.3 else []) + ([rng.choice([a for a in ALIAS_NAMES if not a.startswith('_')])] if rng.random() < 0.15 else [])
    # (an alias name in the pool: add_variable(<alias name>) after construction is the door the constructor cannot close)
    rows = len(names)
    for _ in range(rng.randint(1, max_ops)):
        op = c09.rand_op(rng, span, kind, rows, pool=pool, book=False)
        if op[0] == 'addvar':
            rows += 1
        if op[0] == 'addattr' and aliases and not cyclic(aliases) and rng.random() < 0.25:
            op[1] = rng.choice(aliases)[0]          # add_attribute(<alias name>): the second door of the kept finding
        case['ops'].append(through_aliases(rng, aliases, op))
    # reads through aliases on the final state
    reads = []
    for _ in range(rng.randint(1, 4)):
        nm = rename(rng, aliases, rng.choice(pool), p=0.8)
        q = rng.random()
        if q < 0.3:
            reads.append(['a', nm])
        else:
            k = c09.rand_key(rng, span, [nm])
            if len(k) > 1:
                k[1] = nm if rng.random() < 0.9 else k[1]
            reads.append(['g', k])
    case['reads'] = reads
    if kind == 'model' and rng.random() < 0.5:
        top = max(span + [0])
        case['rx'] = rng.choice([span[1:] + [top + 1], [top + 2] + span, list(reversed(span)), span[:1], span + [top + 1, top + 2]])
    # class hierarchy: the class under test is a subclass extending its parent's ALIASES, or the parent of such a subclass; the
    # other class is instantiated before or after it
    case['fkw'] = {'status': rng.random() < 0.7, 'iterations': rng.random() < 0.7, 'include_internal': rng.random() < 0.3}
    case['family'] = None
    if aliases and not cyclic(aliases) and rng.random() < 0.3:
        case['family'] = {'role': rng.choice(['sub', 'parent']), 'split': rng.randint(0, len(aliases)), 'other_first': rng.random() < 0.5}
    # a final solve of  lhs[t] = 2 * rhs[t] + 1  written through aliases (float models only)
    case['solve'] = None
    if kind == 'model' and case['dreq'] == 'f' and len(names) >= 2 and n > 0 and rng.random() < 0.6:
        a, b = rng.sample(names, 2)
        case['solve'] = [rename(rng, aliases, a, p=0.8), rename(rng, aliases, b, p=0.8)]
    return case


def fixed_cases():
    li = lambda *xs: ['L', [S(['i', x]) for x in xs]]      # noqa: E731
    base = {'kind': 'model', 'span': [10, 11, 12], 'strict': False, 'names': ['X', 'Y', 'Z'], 'dreq': 'f', 'default': S(['f', 0]),
            'extra': 0, 'ivs': [], 'preferred': [], 'reads': [], 'solve': None, 'family': None, 'ops': [],
            'fkw': {'status': True, 'iterations': True, 'include_internal': False}}
    out = []

    def mk(**kw):
        c = copy.deepcopy(base)
        c.update(kw)
        out.append(c)
    chain3 = [['A', 'B'], ['B', 'C'], ['C', 'X'], ['D', 'X'], ['y', 'Y']]
    ops = [['setitem', ['l', 'A', 11], S(['i', 9])], ['setattr', 'D', li(1, 1, 1)], ['setitem', ['sl', 'B', 10, 11, None], li(4, 5)],
           ['replace', [['y', S(['i', 2])], ['C', S(['i', 3])]]], ['setitem', ['n', 'A'], li(7, 8, 9)], ['setattr', 'A', li(1, 2)],
           ['query', 'completions'], ['query', 'completions'], ['query', 'dir'], ['query', 'nbytes'], ['query', ['contains', 'X']],
           ['query', ['contains', 'Q']], ['setattr', 'D', li(2, 2, 2)], ['query', 'completions']]
    mk(aliases=chain3, preferred=['A', 'y'], ops=ops, ivs=[['B', li(1, 2, 3)], ['Z', S(['i', 7])], ['X', li(4, 5, 6)]],
       reads=[['g', ['n', 'A']], ['g', ['l', 'B', 11]], ['g', ['sl', 'C', 10, 11, None]], ['a', 'D'], ['a', 'y']], solve=['A', 'y'])
    mk(aliases=chain3, preferred=[], ops=ops, reads=[['g', ['n', 'B']]])
    for st in (True, False):
        for it in (True, False):
            for incl in (True, False):
                mk(names=['X', '_V', 'Y'], aliases=[['A', 'X'], ['v', '_V'], ['y', 'Y']], preferred=['v'] if incl else ['A'],
                   ops=[['setattr', 'v', li(1, 2, 3)]], fkw={'status': st, 'iterations': it, 'include_internal': incl})
    mk(aliases=[['lags', 'X']], ops=[['setattr', 'lags', S(['i', 5])], ['getattr', 'lags']], reads=[['a', 'lags'], ['g', ['n', 'lags']]])   # refused since 4e03fd0
    # class hierarchies (the parent / the subclass is instantiated first), an alias read by attribute before copy()/reindex()
    cross = [['getattr', 'A'], ['getattr', 'y'], ['become', 'copy'], ['setattr', 'A', li(5, 6, 7)], ['getattr', 'B'], ['setitem', ['l', 'D', 11], S(['i', 1])],
             ['getattr', 'D'], ['become', 'reindex'], ['setitem', ['sl', 'C', 10, 11, None], li(8, 9)], ['getattr', 'A'], ['sib', ['setattr', 'B', li(0, 0, 0)]],
             ['fork', 'deepcopy', ['setattr', 'y', S(['i', 4])]], ['getattr', 'y'], ['query', 'completions'], ['setattr', 'D', S(['i', 2])]]
    for role in ('sub', 'parent'):
        for first in (True, False):
            for split in (0, 2, 5):
                mk(aliases=chain3, preferred=['A', 'y'], ops=cross, family={'role': role, 'split': split, 'other_first': first},
                   reads=[['g', ['n', 'A']], ['a', 'D'], ['a', 'y']], solve=['A', 'y'])
    mk(aliases=[['A', 'X'], ['B', 'A'], ['c', 'Q']], ops=[['query', ['contains', n]] for n in ('A', 'B', 'X', 'c', 'Q', 'Y')])   # `in` through aliases (fix 0f38318)
    mk(aliases=[['B', 'C'], ['A', 'B'], ['C', 'D'], ['D', 'X']], preferred=['C'], ops=ops[:3], reads=[['g', ['l', 'A', 10]]])   # chain of 4, dict order scrambled
    chain6 = [['a%d' % i, 'a%d' % (i + 1)] for i in range(1, 6)] + [['a6', 'X']]
    ops6 = [['setitem', ['l', 'a1', 11], S(['i', 9])], ['setattr', 'a3', li(1, 1, 1)], ['query', 'completions'], ['query', ['contains', 'a2']]]
    mk(aliases=chain6, preferred=['a1'], ops=ops6, ivs=[['a2', li(1, 2, 3)]], reads=[['g', ['n', 'a1']], ['a', 'a5']])   # chain of 6: 3 passes
    mk(aliases=list(reversed(chain6)), preferred=['a4'], ops=ops6, reads=[['g', ['l', 'a6', 10]]])
    mk(aliases=chain6[:5] + [['a6', 'a1']])                                                   # 6-cycle
    mk(aliases=[['Y', 'Y'], ['A', 'X']], ops=ops[:2])                                          # self-map
    mk(aliases=[['A', 'A']], ops=[['setattr', 'A', S(['i', 1])]])
    mk(aliases=[['X', 'Y'], ['Y', 'X']])                                                      # 2-cycle (was a hang before adac991)
    mk(aliases=[['A', 'B'], ['B', 'C'], ['C', 'A'], ['D', 'X']])                              # 3-cycle
    mk(aliases=[['Z', 'Y']], ops=[['setattr', 'Z', li(1, 2, 3)]], reads=[['g', ['n', 'Z']]])   # alias named like a variable: refused since 4e03fd0
    mk(aliases=[['status', 'X']])
    for k in ('iterations', 'values', 'solve', 'copy', 'names', 'aliases', 'preferred_names', 'ALIASES', 'span', 'index', '_X', '_strict', 'strict'):
        mk(aliases=[['A', 'Y'], [k, 'X']], ops=[['setattr', 'A', li(1, 2, 3)]])
    mk(aliases=[['Z', 'A'], ['A', 'Y']], ops=[['setattr', 'A', li(1, 2, 3)]])                  # ... at the head of a chain
    mk(aliases=[['B', 'Z'], ['Z', 'Y']], ops=[['setattr', 'B', li(1, 2, 3)]])                  # ... in the middle of a chain
    mk(aliases=[['Z', 'Z'], ['A', 'Y']], ops=[['setattr', 'Z', li(1, 2, 3)]])                  # a self-map is no alias: accepted
    mk(kind='linker', strict=False, aliases=[['submodels', 'X']])
    mk(kind='linker', strict=False, aliases=[['sizes', 'X']])
    # the door the constructor cannot close (kept finding): a variable added later under an alias name
    mk(aliases=[['A', 'X']], ops=[['addvar', 'A', li(1, 2, 3), None], ['setattr', 'A', li(4, 5, 6)]], reads=[['g', ['n', 'A']]])
    mk(aliases=[['A', 'X']], ops=[['addvar', 'A', li(1, 2, 3), None], ['setattr', 'values', S(['i', 5])]])
    # ... and through add_attribute (also under strict=True): an entry stored under the alias name
    for st in (False, True):
        mk(names=['X', 'Y'], strict=st, aliases=[['A', 'X']], ivs=[['X', li(1, 2, 3)]],
           ops=[['addattr', 'A', S(['i', 99])], ['setattr', 'A', S(['i', 5])], ['getattr', 'A']], reads=[['a', 'A'], ['g', ['n', 'A']]])
    mk(aliases=[['A', 'B'], ['B', 'X']], ops=[['addattr', 'B', S(['i', 1])], ['getattr', 'A'], ['getattr', 'B']], reads=[['a', 'B']])
    # an alias named like a constructor keyword that is no attribute: M(span, default_value=5) silently becomes X=5 (kept finding)
    mk(names=['X', 'Y'], aliases=[['default_value', 'X']], default=S(['i', 5]))
    mk(names=['X', 'Y'], aliases=[['A', 'Y'], ['default_value', 'A']], default=S(['f', 3]), ops=[['setattr', 'A', li(1, 2, 3)]])
    mk(kind='linker', strict=False, names=['X', 'Y'], aliases=[['default_value', 'X']], default=S(['i', 5]))
    mk(aliases=[['A', 'X'], ['B', 'X']], preferred=['A', 'B'])                                # ambiguous preferences
    mk(aliases=[['A', 'X']], preferred=['A', 'X'])
    mk(aliases=[['A', 'B'], ['B', 'X']], preferred=['X', 'A'])
    mk(aliases=[['A', 'X'], ['B', 'X']], preferred=['B'])
    mk(aliases=[['A', 'X'], ['B', 'X']], preferred=['X'])
    mk(aliases=[['A', 'X'], ['B', 'X'], ['c', 'Y']], preferred=['Y'])
    mk(aliases=[['A', 'X'], ['c', 'Y'], ['B', 'X']], preferred=['A'])            # aliases of X not adjacent in dict order
    mk(aliases=[['B', 'X'], ['c', 'Y'], ['A', 'X'], ['d', 'Y']], preferred=['B', 'Y'])
    mk(aliases=[['A', 'X'], ['B', 'X'], ['c', 'Y']], preferred=['c', 'Z'])
    mk(aliases=[['A', 'X']], strict=True, ops=[['setattr', 'A', S(['i', 1])], ['setattr', 'Ax', S(['i', 1])], ['setattr', 'x', S(['i', 1])]],
       ivs=[['A', S(['i', 3])]])
    mk(aliases=[['A', 'X']], strict=True, ivs=[['Ax', S(['i', 3])]])
    # alias names with leading underscores: read / written / solved through like any other alias
    under = [['_output', '_gdp'], ['_gdp', 'Y'], ['__x', 'X'], ['_a', 'Z']]
    mk(aliases=under, preferred=['_output', '__x'], ivs=[['_gdp', li(1, 2, 3)], ['__x', S(['i', 7])]],
       ops=[['getattr', '_gdp'], ['getattr', '_output'], ['setattr', '_output', li(4, 5, 6)], ['getattr', '__x'], ['setitem', ['l', '_gdp', 11], S(['i', 9])],
            ['setitem', ['sl', '__x', 10, 11, None], li(8, 9)], ['replace', [['_a', S(['i', 2])]]], ['query', ['contains', '_gdp']], ['query', 'completions'],
            ['query', 'dir'], ['become', 'copy'], ['getattr', '_a'], ['sib', ['setattr', '_gdp', li(0, 0, 0)]], ['getattr', '_output']],
       reads=[['a', '_gdp'], ['a', '_output'], ['a', '__x'], ['a', '_a'], ['g', ['n', '_gdp']], ['g', ['l', '_output', 11]]], solve=['_output', '__x'])
    mk(aliases=under, strict=True, ops=[['setattr', '_gdp', li(1, 2, 3)], ['getattr', '_gdp']], reads=[['a', '_output']], solve=['_gdp', '_a'])
    mk(kind='linker', strict=False, aliases=under, ops=[['setattr', '_output', li(1, 2, 3)], ['getattr', '_gdp']], reads=[['a', '_a'], ['a', '_output']])
    mk(aliases=[['A', 'Q']], ops=[['setattr', 'A', S(['i', 1])], ['addvar', 'Q', S(['i', 1]), None], ['setattr', 'A', S(['i', 2])]],
       reads=[['a', 'A'], ['g', ['n', 'A']]])
    return out


def gen(rng, tier):
    cases = fixed_cases()
    n_rand = 4000 if tier == "quick" else 60000
    for i in range(n_rand):
        cases.append(rand_case(rng, 25 if i % 3 else 6))
    return cases


# --------------------------------------------------------------------------- the real side
class _Hang(BaseException):
    pass


def _alarm(signum, frame):
    raise _Hang()


def _make_evaluate(lhs, rhs):
    def _evaluate(self, t, **kwargs):
        getattr(self, lhs)[t] = 2 * getattr(self, rhs)[t] + 1
    return _evaluate


def _build(case, aliased):
    """The aliased object, or its canonical twin (no AliasMixin, keywords through the chain ends)."""
    c = copy.deepcopy(case)
    al = case['aliases']
    ev = None
    if case.get('solve'):
        lhs, rhs = case['solve']
        ev = _make_evaluate(lhs, rhs) if aliased else _make_evaluate(chain_end(al, lhs), chain_end(al, rhs))
    if not aliased:
        d = {}
        for k, v in case['ivs']:
            d[chain_end(al, k)] = v
        c['ivs'] = [[k, v] for k, v in d.items()]
        c.pop('aliases')
        c.pop('preferred')
    kind = c['kind']
    import fsic
    try:
        cls = cc.make_class(kind, c['names'], c.get('aliases'), c.get('preferred'), evaluate=ev)
        other = None
        fam = case.get('family')
        if aliased and fam:
            from fsic.extensions import AliasMixin
            base = {'model': fsic.BaseModel, 'linker': fsic.BaseLinker}[kind]
            ns = {'NAMES': list(c['names']), 'ENDOGENOUS': [], 'EXOGENOUS': list(c['names']), 'CHECK': []}
            if ev is not None:
                ns['_evaluate'] = ev
            k = fam['split']
            if fam['role'] == 'sub':
                parent = type('P', (AliasMixin, base), dict(ns, ALIASES=dict(al[:k]), PREFERRED_NAMES=[]))
                cls = type('Q', (parent,), {'ALIASES': {**parent.ALIASES, **dict(al[k:])}, 'PREFERRED_NAMES': list(c.get('preferred') or [])})
                other = parent
            else:
                cls = type('P', (AliasMixin, base), dict(ns, ALIASES=dict(al), PREFERRED_NAMES=list(c.get('preferred') or [])))
                first = c['names'][0] if c['names'] else 'X'
                other = type('Q', (cls,), {'ALIASES': {**cls.ALIASES, 'zz1': first, 'zz2': 'zz1'}, 'PREFERRED_NAMES': []})

        def make_other():
            if other is None:
                return
            try:
                if kind == 'model':
                    other(list(c['span']))
                else:
                    other(None, span=list(c['span']))
            except _Hang:
                raise
            except Exception:          # noqa: BLE001 - the other class of the family is only a bystander
                pass
        if fam and aliased and fam['other_first']:
            make_other()
        if ev is not None:
            cls.ENDOGENOUS = [chain_end(al, case['solve'][0])]
            cls.CHECK = [chain_end(al, case['solve'][0])]
        kw = {k: cc.py_of_operand(v) for k, v in c['ivs']}
        if kind == 'model':
            obj = cls(list(c['span']), strict=c['strict'], dtype=cc.py_dreq(c['dreq']), default_value=cc.py_of_operand(c['default']), **kw)
        elif c.get('extra', 0):
            sub_cls = type('Sub', (fsic.BaseModel,), {'NAMES': ['P', 'Q'], 'ENDOGENOUS': [], 'EXOGENOUS': ['P', 'Q'], 'CHECK': []})
            obj = cls({'A': sub_cls(list(c['span']))}, dtype=cc.py_dreq(c['dreq']), default_value=cc.py_of_operand(c['default']), **kw)
        else:
            obj = cls(None, span=list(c['span']), dtype=cc.py_dreq(c['dreq']), default_value=cc.py_of_operand(c['default']), **kw)
        if fam and aliased and not fam['other_first']:
            make_other()
        return obj, 'ok'
    except _Hang:
        raise
    except BaseException as e:             # noqa: BLE001 - the class is the observation
        if isinstance(e, (KeyboardInterrupt, SystemExit, MemoryError)):
            raise
        return None, type(e).__name__


def _read(obj, r):
    import numpy as np
    try:
        if r[0] == 'a':
            v = getattr(obj, r[1])
        else:
            v = obj[cc.py_of_key(r[1])]
        if isinstance(v, np.ndarray):
            return {'ok': [cc.canon_cell(x) for x in v.ravel().tolist()], 'array': True}
        if isinstance(v, (list, tuple, dict, str)) and r[0] == 'a':
            return {'attr': type(v).__name__}
        return {'ok': [cc.canon_cell(v.item() if hasattr(v, 'item') else v)], 'array': False}
    except BaseException as e:             # noqa: BLE001
        if isinstance(e, (KeyboardInterrupt, SystemExit, MemoryError, _Hang)):
            raise
        return type(e).__name__


def _frame(obj, **kw):
    try:
        df = obj.to_dataframe(**kw)
        cols = [str(c) for c in df.columns]
        data = [[cc.canon_cell(x) for x in df.iloc[:, j].tolist()] for j in range(len(cols))]
        return {'cols': cols, 'data': data, 'index': [cc.canon_cell(x) for x in df.index.tolist()]}
    except BaseException as e:             # noqa: BLE001
        if isinstance(e, (KeyboardInterrupt, SystemExit, MemoryError, _Hang)):
            raise
        return type(e).__name__


_HANG_SEEN = [False]


def impl(case):
    import numpy, pandas, fsic, fsic.extensions       # noqa: F401,E401 - loaded before the clock starts
    al = case['aliases']
    # Construction takes milliseconds of CPU; a constructor that has burnt a full second of this process's CPU time does not
    # return (the clock is the process's own CPU time, so a busy machine cannot fake a hang). Once seen in this worker,
    # further such cases are cut short.
    old = signal.signal(signal.SIGVTALRM, _alarm)
    try:
        try:
            signal.setitimer(signal.ITIMER_VIRTUAL, 0.05 if _HANG_SEEN[0] else 1.0)
            a_obj, a_init = _build(case, True)
            signal.setitimer(signal.ITIMER_VIRTUAL, 0)
        except _Hang:
            signal.setitimer(signal.ITIMER_VIRTUAL, 0)
            _HANG_SEEN[0] = True
            return {'init': 'hang', 'steps': []}
    finally:
        signal.setitimer(signal.ITIMER_VIRTUAL, 0)
        signal.signal(signal.SIGVTALRM, old)
    res = {'init': a_init, 'steps': []}
    cyc = cyclic(al)
    if cyc:
        return res
    t_obj, t_init = _build(case, False)
    res['twin_init'] = t_init
    if t_obj is not None:
        # which alias names are names of the object without aliases (variables, entries of its __dict__, attributes of its class)
        # or of the mixin itself: recorded from the twin, which knows nothing of the aliases
        from fsic.extensions import AliasMixin
        res['classattrs'] = sorted({k for k, _ in al if hasattr(type(t_obj), k) or hasattr(AliasMixin, k)})
        res['twin_has'] = sorted({k for k, _ in al if k in t_obj.__dict__['index'] or k in t_obj.__dict__ or k in res['classattrs']
                                  or k in ('aliases', 'preferred_names')})
    if a_obj is None or t_obj is None:
        return res
    res['aliases'] = [[k, v] for k, v in (a_obj.__dict__.get('aliases') or {}).items()]
    declared = list(case['names'])
    res['st0'] = cc.observe(a_obj, declared)
    res['twin_diff0'] = cc.diff_state(res['st0'], cc.observe(t_obj, declared))
    a_sib = t_sib = None
    for op in case['ops']:
        if op[0] in cc.CROSS_OPS:
            a_obj, a_sib, ia = cc.cross_step(a_obj, a_sib, op, case['span'])
            t_obj, t_sib, it = cc.cross_step(t_obj, t_sib, canon_op(al, op), case['span'], apply=apply_twin)
            st = cc.observe(a_obj, declared)
            step = {'out': 'ok', 'st': st, 'hint': None, 'twin_out': 'ok', 'twin_diff': cc.diff_state(st, cc.observe(t_obj, declared)),
                    'aux': ia, 'twin_aux': it, 'aliases_kept': dict(a_obj.__dict__.get('aliases') or {}) == dict(res['aliases'])}
            if a_sib is not None and t_sib is not None and op[0] != 'getattr':
                step['sib_diff'] = cc.diff_state(cc.observe(a_sib), cc.observe(t_sib))
            res['steps'].append(step)
            continue
        hint = None
        if op[0] == 'setattr':
            hint = cc.closest_hint(a_obj, a_obj.__dict__.get('aliases', {}).get(op[1], op[1]))
        o, info = cc.apply_op(a_obj, op)
        o2, info2 = apply_twin(t_obj, canon_op(al, op))
        if op[0] == 'addvar' and o == 'ok':
            declared.append(op[1])
        st = cc.observe(a_obj, declared)
        step = {'out': o, 'st': st, 'hint': hint, 'twin_out': o2, 'twin_diff': cc.diff_state(st, cc.observe(t_obj, declared))}
        if 'msg' in info:
            step['msg'] = info['msg']
        if 'ret' in info:
            step['ret'] = info['ret']
            step['twin_ret'] = info2.get('ret')
        res['steps'].append(step)
    # storage: the aliased object holds exactly what the twin holds, plus the two bookkeeping entries
    ka, kt = set(a_obj.__dict__), set(t_obj.__dict__)
    res['dict_extra'] = sorted(ka - kt)
    res['dict_extra_arrays'] = sorted(k for k in ka - kt if hasattr(a_obj.__dict__[k], 'nbytes'))
    res['dict_missing'] = sorted(kt - ka)
    res['nbytes'] = [int(sum(v.nbytes for k, v in o.__dict__.items() if k.startswith('_') and hasattr(v, 'nbytes'))) for o in (a_obj, t_obj)]
    # reads
    res['reads'] = []
    for r in case.get('reads', []):
        tr = ['a', chain_end(al, r[1])] if r[0] == 'a' else ['g', canon_key(al, r[1])]
        res['reads'].append([_read(a_obj, r), _read(t_obj, tr)])
    # export
    fkw = case.get('fkw') or {}
    res['frame_alias'] = _frame(a_obj, use_aliases=True, **fkw)
    res['frame_noalias'] = _frame(a_obj, **fkw)
    res['frame_twin'] = _frame(t_obj, **fkw)
    res['final_names'] = list(a_obj.__dict__.get('names', []))
    if case.get('rx') is not None:
        res['reindex'] = cc.reindex_observation(a_obj, case['rx'], declared)
        res['twin_reindex'] = cc.reindex_observation(t_obj, case['rx'], declared)
    # copies: the same object again (aliases kept, no series under alias names), as the twin's copies
    res['copies'] = {}
    sp = list(case['span'])
    top = max(sp + [0])
    new_span = sp[1:] + [top + 1, top + 2]
    for label, make in (('copy', lambda o: o.copy()), ('reindex', lambda o: o.reindex(list(new_span)))):
        outs, objs = [], []
        for o in (a_obj, t_obj):
            try:
                objs.append(make(o))
                outs.append('ok')
            except BaseException as e:             # noqa: BLE001
                if isinstance(e, (KeyboardInterrupt, SystemExit, MemoryError)):
                    raise
                objs.append(None)
                outs.append(type(e).__name__)
        entry = {'outs': outs}
        if objs[0] is not None and objs[1] is not None:
            entry['diff'] = cc.diff_state(cc.observe(objs[0], declared), cc.observe(objs[1], declared))
            entry['aliases_kept'] = dict(objs[0].__dict__.get('aliases') or {}) == dict(a_obj.__dict__.get('aliases') or {})
            entry['extra_arrays'] = sorted(k for k in set(objs[0].__dict__) - set(objs[1].__dict__) if hasattr(objs[0].__dict__[k], 'nbytes'))
            entry['same_class'] = type(objs[0]) is type(a_obj)
        res['copies'][label] = entry
    # generated solution code sees the same data
    if case.get('solve'):
        outs = []
        for o in (a_obj, t_obj):
            try:
                o.solve(max_iter=5, failures='ignore', errors='ignore')
                outs.append('ok')
            except BaseException as e:             # noqa: BLE001
                if isinstance(e, (KeyboardInterrupt, SystemExit, MemoryError)):
                    raise
                outs.append(type(e).__name__)
        res['solve'] = {'outs': outs, 'diff': cc.diff_state(cc.observe(a_obj, declared), cc.observe(t_obj, declared))}
    return res


# --------------------------------------------------------------------------- correspondence with the Coq model
def _k_compare(case, m, o):
    """None when the model's run equals the implementation's."""
    if 'driver_error' in m:
        return 'driver error: ' + m['driver_error']
    if m['init'] != o['init']:
        return 'constructor: model=%s impl=%s' % (m['init'], o['init'])
    if m['init'] != 'ok':
        return None
    if dict(map(tuple, m.get('aliases') or [])) != dict(map(tuple, o.get('aliases') or [])):     # the map, not its key order
        return 'self.aliases: model=%s impl=%s' % (m.get('aliases'), o.get('aliases'))
    d = cc.diff_state(m['st0'], o['st0'])
    if d:
        return 'after construction: ' + d
    for i, (ms, r) in enumerate(zip(m['steps'], o['steps'])):
        if ms['out'] != r['out']:
            return 'op %d outcome: model=%s impl=%s' % (i, ms['out'], r['out'])
        if ('ret' in ms or 'ret' in r) and not cc.same_query_result(ms.get('ret'), r.get('ret')):
            return 'op %d returned: model=%s impl=%s' % (i, json.dumps(ms.get('ret'))[:200], json.dumps(r.get('ret'))[:200])
        d = cc.diff_state(ms['st'], r['st'])
        if d:
            return 'after op %d: %s' % (i, d)
    if len(m['steps']) != len(o['steps']):
        return 'different number of steps'
    d = cc.compare_reindex(m, o)
    if d:
        return d
    final = o['steps'][-1]['st'] if o['steps'] else o['st0']
    series = {v[0]: v[3] for v in final['vars']}
    # reads
    core = ['values', 'size', 'nbytes', 'strict', 'span', 'index', 'names', 'dtype', 'status', 'iterations']
    for j, (mr, rr) in enumerate(zip(m.get('reads', []), o.get('reads', []))):
        real = rr[0]
        rd = case['reads'][j]
        if rd[0] == 'a':
            nm = chain_end(case['aliases'], rd[1])
            if rd[1] in final['adict'] or nm in final['adict'] or nm in core or rd[1] in core:
                continue                  # a plain attribute / property of that name is found first: not a read of a series
        if isinstance(mr, dict):
            if not (isinstance(real, dict) and real.get('ok') == mr['ok']):
                return 'read %d: model=%s impl=%s' % (j, mr, real)
        elif real != mr:
            return 'read %d: model=%s impl=%s' % (j, mr, real)
    # export: titles, and the variable whose series fills each column
    me, fr = m.get('export'), o.get('frame_alias')
    if fr == 'KeyError' and not isinstance(me, str) and any(src not in series for _, src in me):
        return None                   # a column of an alias-named variable whose alias points at no variable: model[k] itself fails
    if isinstance(me, str) or isinstance(fr, str):
        if me != fr:
            return 'export: model=%s impl=%s' % (me, fr if isinstance(fr, str) else 'frame')
        return None
    if len(me) != len(fr['cols']):
        return 'export titles: model=%s impl=%s' % ([t for t, _ in me], fr['cols'])
    plain = o['frame_twin']['cols'] if isinstance(o.get('frame_twin'), dict) and len(o['frame_twin']['cols']) == len(me) else None
    al, prefd = case['aliases'], {chain_end(case['aliases'], p) for p in case['preferred']}
    for j, ((t, _), tr) in enumerate(zip(me, fr['cols'])):
        if t == tr:
            continue
        # WHICH of several names titles a column is fixed by the property only where a preferred name is declared for that
        # variable; elsewhere any of the column's names is as good as the model's choice (no verdict on such a difference)
        c = plain[j] if plain else None
        if c is not None and c not in prefd and (tr == c or chain_end(al, tr) == c):
            continue
        return 'export titles: model=%s impl=%s' % ([x for x, _ in me], fr['cols'])
    for j, (t, src) in enumerate(me):
        if series.get(src) != fr['data'][j]:
            return 'export column %d (%s): model fills it from %s, impl data differs' % (j, t, src)
    return None


def _has_object_series(o):
    for st in [o.get('st0')] + [s['st'] for s in o.get('steps', [])]:
        if st and any(v[1] == 'O' for v in st['vars']):
            return True
    return False


def correspond(cases, obs, tag, tier):
    lines, idx = [], []
    for i, (c, o) in enumerate(zip(cases, obs)):
        if o.get('timeout') or o.get('init') == 'hang':
            continue
        hints = [s.get('hint') for s in o.get('steps', [])]
        lines.append(cc.enc_case(dict(c, classattrs=o.get('classattrs', [])), hints))
        idx.append(i)
    res, e = cc.run_model(lines)
    if e:
        return [], [e]
    bad = []
    for i, m in zip(idx, res):
        if _k_compare(cases[i], m, obs[i]):
            bad.append(i)
    bad += [i for i, o in enumerate(obs) if o.get('timeout') or o.get('init') == 'hang']
    return sorted(bad), []


def explain(case, obs):
    hints = [s.get('hint') for s in obs.get('steps', [])]
    res, e = cc.run_model([cc.enc_case(dict(case, classattrs=obs.get('classattrs', [])), hints)])
    if e:
        return e
    return {'first_difference': _k_compare(case, res[0], obs), 'model': res[0]}


def shadowed(case, obs=None):
    """Alias names under which a variable or an attribute was added AFTER construction (add_variable / add_attribute take the name
    literally and do not know the aliases): the class of the kept finding add_variable-or-add_attribute|alias-name-accepted. With the observation: only add_variable calls that
    were ACCEPTED count. (Alias names that clash at construction are refused by the constructor since fix 4e03fd0.)"""
    added = set()
    steps = (obs or {}).get('steps')
    for i, op in enumerate(case['ops']):
        if op[0] in ('addvar', 'addattr') and (steps is None or (i < len(steps) and steps[i]['out'] == 'ok')):
            added.add(op[1])
    return sorted(k for k, v in case['aliases'] if k != v and k in added)


def guard(case, obs):
    """After an ACCEPTED add_variable(<alias name>) (the kept finding) the values setter re-enters the alias-resolving __setattr__
    with the shadowed VARIABLE name; the model mirrors the shadowing for item / attribute access and for the export, not for that
    re-entry: K is silent for such histories, the oracle speaks. Elsewhere K is compared (C09's own guard apart)."""
    if shadowed(case, obs) and (case.get('rx') is not None
                           or any((op[0] in ('setattr', 'addattr') and op[1] == 'values') or op[0] in cc.CROSS_OPS for op in case['ops'])):
        return True          # (reindex() too walks `index` through the alias-resolving __getitem__)
    if any(chain_end(case['aliases'], k) != k and k in CTOR_KEYWORDS for k, _ in case['aliases']) and not cyclic(case['aliases']):
        return True          # the model's constructor takes default_value as a parameter, not as a renamable keyword (kept finding)
    return c09.guard(case, obs)


# --------------------------------------------------------------------------- the property, directly on observations
def _ambiguous(case):
    ends = [chain_end(case['aliases'], p) for p in case['preferred']]
    return len(set(ends)) != len(ends)


def oracle(case, obs):
    """The failures of _oracle, with exactly the class of the kept finding folded into its signature: a failure is attributed to
    `add_variable-or-add_attribute|alias-name-accepted` only if a variable / attribute was added under an alias name and the failing step goes through that name
    (or its variable) or is an operation that walks ALL variables through self[...] (values, nbytes, dir, copies, reindex, export,
    solve). Everything else stays what it is."""
    al = case['aliases']
    sh = set(shadowed(case, obs))
    related = sh | {chain_end(al, k) for k in sh}
    keep, folded = [], []
    for f in _oracle(case, obs):
        touch = f.pop('touch', None)
        if f['sig'].startswith('C18|__init__|'):
            keep.append(f)
        elif sh and (touch == 'walk' or (touch and set(touch) & related)):
            folded.append(f)
        else:
            keep.append(f)
    if folded:
        keep.append({'sig': 'C18|add_variable-or-add_attribute|alias-name-accepted', 'what': 'add_variable / add_attribute(%s) was accepted although that is an alias (of %s): %s' % (
            sorted(sh), sorted(chain_end(al, k) for k in sh), '; '.join(f['what'] for f in folded)[:400])})
    return keep


def _oracle(case, obs):
    fails = []

    def bad(sig, what, touch=None):
        fails.append({'sig': 'C18|' + sig, 'what': what, 'touch': touch})

    def names_of_op(op):
        ns = set(c09._target_names(op))
        if op[0] in ('fork', 'sib'):
            ns |= set(c09._target_names(op[-1]))
        if op[0] == 'getattr':
            ns.add(op[1])
        return ns | {chain_end(al, n) for n in ns}
    al = case['aliases']
    if obs.get('timeout') or obs.get('init') == 'hang':
        bad('__init__|does-not-return', 'AliasMixin.__init__ does not return for ALIASES=%s' % dict(al))
        return fails
    if cyclic(al):
        # not an alias map the property speaks about; the constructor must not accept it silently as if it were one
        if obs['init'] == 'ok':
            bad('__init__|cycle-accepted', 'circular ALIASES %s accepted' % dict(al))
        return fails
    if _ambiguous(case):
        if obs['init'] == 'ok':
            bad('PREFERRED_NAMES|ambiguity-accepted', 'PREFERRED_NAMES %s name one variable twice under ALIASES %s but the constructor '
                'accepted them' % (case['preferred'], dict(al)))
        return fails
    # ---- an alias named like a variable or like an attribute of the object cannot be "indistinguishable from the variable it
    #      names" (reads and writes through it go different ways): the constructor must refuse it
    clash = sorted(k for k, _ in al if chain_end(al, k) != k and k in obs.get('twin_has', []))
    if clash and obs.get('twin_init') == 'ok':
        if obs['init'] == 'ok':            # (WHICH exception: compared with the model, K)
            bad('__init__|clashing-alias-accepted', 'ALIASES %s: %s are also names of variables / attributes of the object, the constructor gave %s' % (
                dict(al), clash, obs['init']))
        return fails
    # ---- an alias named like a constructor keyword that the object does not keep as an attribute (default_value): the keyword is
    #      renamed on its way to the constructor - M(span, default_value=5) becomes M(span, X=5). Kept finding (same family); the
    #      object was not built from the arguments its twin got, so nothing further is judged
    kwal = sorted(k for k, _ in al if chain_end(al, k) != k and k in CTOR_KEYWORDS)
    if kwal:
        if obs['init'] == 'ok':
            bad('__init__|alias-named-like-constructor-keyword', 'ALIASES %s: %s is a keyword of the constructor; it was accepted and the keyword '
                'went to the variable %s instead%s' % (dict(al), kwal, [chain_end(al, k) for k in kwal],
                                                       (': ' + obs['twin_diff0'][:160]) if obs.get('twin_diff0') else ''))
        return fails
    ends = [chain_end(al, k) for k, _ in case['ivs']]
    if len(set(ends)) != len(ends):
        # two keywords for one variable: no call on the twin is "the same operation"; only the storage claim is judged
        if obs['init'] == 'ok' and obs.get('twin_init') == 'ok' and (obs.get('dict_extra_arrays') or obs.get('dict_missing')):
            bad('storage|extra-entries', 'the aliased object holds %s more / %s fewer entries than its twin' % (obs.get('dict_extra'), obs.get('dict_missing')), touch='walk')
        return fails
    # ---- constructor keywords through aliases = the same keywords through the variables
    if obs['init'] != obs.get('twin_init'):
        bad('__init__|differs-from-twin', 'constructor with keywords %s gave %s, the twin with the underlying names gave %s' % (
            [k for k, _ in case['ivs']], obs['init'], obs.get('twin_init')), touch=set(k for k, _ in case['ivs']) | {chain_end(al, k) for k, _ in case['ivs']})
        return fails
    if obs['init'] != 'ok':
        return fails
    if obs.get('twin_diff0'):
        bad('__init__|differs-from-twin', 'after construction: ' + obs['twin_diff0'], touch=set(k for k, _ in case['ivs']) | {chain_end(al, k) for k, _ in case['ivs']})
    # ---- every write through an alias = the same write on the underlying variable
    for i, (op, stp) in enumerate(zip(case['ops'], obs['steps'])):
        if op[0] in ('addvar', 'addattr') and stp['out'] == 'ok' and chain_end(al, op[1]) != op[1]:
            # storage under an alias name: reads and writes through that name go different ways from here on
            bad('%s|alias-name-accepted' % op[0], "op %d: %s(%r, ...) was accepted although %r is an alias of %r" % (
                i, {'addvar': 'add_variable', 'addattr': 'add_attribute'}[op[0]], op[1], op[1], chain_end(al, op[1])), touch={op[1]})
        if stp['out'] != stp['twin_out']:
            bad('%s|differs-from-twin' % op[0], 'op %d %s through %s gave %s, on the twin %s' % (i, op[0], c09._target_names(op), stp['out'], stp['twin_out']), touch=('walk' if ((op[0] in ('setattr', 'addattr') and op[1] == 'values') or op[0] in ('fork', 'sib', 'become')) else names_of_op(op)))
            break
        if stp['twin_diff']:
            bad('%s|differs-from-twin' % op[0], 'op %d %s through %s: state differs from the twin: %s' % (i, op[0], c09._target_names(op), stp['twin_diff'][:200]), touch=('walk' if ((op[0] in ('setattr', 'addattr') and op[1] == 'values') or op[0] in ('fork', 'sib', 'become')) else names_of_op(op)))
            break
        if op[0] in cc.CROSS_OPS:
            ia, it = stp.get('aux', {}), stp.get('twin_aux', {})
            if op[0] == 'getattr' and chain_end(al, op[1]) in stp['st']['adict']:
                ia = it = {}                # a plain attribute of that name was made by the history itself: not a read of a variable
            if ia != it:
                bad('cross-instance|differs-from-twin', 'op %d %s: %s, on the twin %s' % (i, json.dumps(op)[:100], str(ia)[:100], str(it)[:100]), touch=(names_of_op(op) if op[0] == 'getattr' else 'walk'))
            elif stp.get('sib_diff'):
                bad('cross-instance|differs-from-twin', 'op %d %s: the other instance differs from the twin\'s: %s' % (i, json.dumps(op)[:100], stp['sib_diff'][:160]), touch='walk')
            elif not stp.get('aliases_kept', True):
                bad('cross-instance|aliases-lost', 'op %d %s: the object no longer carries its aliases' % (i, json.dumps(op)[:100]), touch='walk')
        if op[0] == 'query':
            # read-only hooks: the state was compared with the twin above (the twin's hook certainly changes nothing of ITS aliases);
            # what they return: the twin's answer, plus the alias names where names are listed
            a, t = stp.get('ret'), stp.get('twin_ret')
            alias_names = [k for k, v in al if k != v]
            if op[1] == 'completions' and not (isinstance(a, dict) and isinstance(t, dict) and sorted(a['names']) == sorted(t['names'] + alias_names)):
                bad('hook|completions', 'op %d: _ipython_key_completions_() gave %s; variables %s + aliases %s expected' % (i, a, t, alias_names), touch='walk')
            elif op[1] == 'dir' and not (isinstance(a, dict) and isinstance(t, dict)
                                         and a['names'] == sorted(t['names'] + [x for x in alias_names if x not in a.get('masked', [])])):
                bad('hook|dir', 'op %d: dir(obj) gave %s; the twin lists %s, aliases %s' % (i, a, t, alias_names), touch='walk')
            elif op[1] == 'nbytes' and a != t:
                bad('hook|nbytes', 'op %d: nbytes gave %s, the twin %s' % (i, a, t), touch='walk')
            elif isinstance(op[1], list) and a != t:
                bad('contains|alias-differs-from-variable', 'op %d: %r in obj gave %s, but %r in obj gives %s and item access through both names is the same' % (
                    i, op[1][1], a, chain_end(al, op[1][1]), t), touch=names_of_op(op))
    # ---- no additional storage
    if obs.get('dict_extra_arrays') or obs.get('dict_missing'):
        # the mixin's own bookkeeping (the alias map, the preferred names) is no series; anything array-like is storage
        bad('storage|extra-entries', 'the aliased object holds %s more (arrays: %s) / %s fewer entries than its twin' % (
            obs.get('dict_extra'), obs.get('dict_extra_arrays'), obs.get('dict_missing')), touch='walk')
    elif obs.get('nbytes') and obs['nbytes'][0] != obs['nbytes'][1]:
        bad('storage|extra-bytes', 'series storage %s bytes vs %s in the twin' % tuple(obs['nbytes']), touch='walk')
    # ---- reads
    final = obs['steps'][-1]['st'] if obs['steps'] else obs['st0']
    for r, (a, t) in zip(case.get('reads', []), obs.get('reads', [])):
        if r[0] == 'a' and chain_end(al, r[1]) in final['adict']:
            continue            # a plain attribute of that name was made by the history itself: not a read of a variable
        if a != t:
            bad('read|differs-from-twin', 'read %s gave %s, the twin %s' % (r, str(a)[:80], str(t)[:80]), touch={r[1] if r[0] == 'a' else (r[1][1] if len(r[1]) > 1 else '')} | {chain_end(al, r[1] if r[0] == 'a' else (r[1][1] if len(r[1]) > 1 else ''))})
            break
    if 'reindex' in obs and 'copy' not in final['adict']:
        a, t = obs['reindex'], obs.get('twin_reindex')
        if isinstance(a, dict) and isinstance(t, dict):
            d = cc.diff_state(a, t)
            if d:
                bad('reindex|differs-from-twin', 'reindex(%s): %s' % (case['rx'], d[:200]), touch='walk')
        elif a != t:
            bad('reindex|differs-from-twin', 'reindex(%s) gave %s, on the twin %s' % (case['rx'], str(a)[:60], str(t)[:60]), touch='walk')
    # ---- copy() / reindex(): still an aliased object, equal to the twin's copy, nothing stored under alias names
    for label, c in sorted((obs.get('copies') or {}).items()):
        if c['outs'][0] != c['outs'][1]:
            bad('%s|differs-from-twin' % label, '%s() gave %s, on the twin %s' % (label, c['outs'][0], c['outs'][1]), touch='walk')
        elif c['outs'][0] == 'ok':
            if c.get('diff'):
                bad('%s|differs-from-twin' % label, '%s(): %s' % (label, c['diff'][:200]), touch='walk')
            if not c.get('aliases_kept') or not c.get('same_class'):
                bad('%s|aliases-lost' % label, '%s() does not return an object of the same class with the same aliases' % label, touch='walk')
            if c.get('extra_arrays'):
                bad('%s|storage-under-alias-names' % label, '%s() holds arrays %s that the twin does not' % (label, c['extra_arrays']), touch='walk')
    # ---- generated solution code
    sv = obs.get('solve')
    if sv and (sv['outs'][0] != sv['outs'][1] or sv['diff']):
        bad('solve|differs-from-twin', 'solve() of %s[t] = 2 * %s[t] + 1: %s, state difference %s' % (case['solve'][0], case['solve'][1], sv['outs'], sv['diff']),
            touch='walk')
    # ---- export
    fa, fn, ft = obs.get('frame_alias'), obs.get('frame_noalias'), obs.get('frame_twin')
    if isinstance(ft, str):
        return fails
    def exbad(sig, what):
        bad(sig, what, touch='walk')
    if isinstance(fn, str) or fn != ft:
        exbad('to_dataframe|plain-export-differs', 'to_dataframe() differs from the twin: %s' % (fn if isinstance(fn, str) else fn['cols']))
    if isinstance(fa, str):
        exbad('to_dataframe|raises', 'to_dataframe(use_aliases=True) raised %s' % fa)
    else:
        if len(fa['cols']) != len(ft['cols']):
            exbad('to_dataframe|column-dropped', 'columns %s exported as %s' % (ft['cols'], fa['cols']))
        elif len(set(fa['cols'])) != len(fa['cols']):
            exbad('to_dataframe|column-duplicated', 'columns %s exported as %s' % (ft['cols'], fa['cols']))
        if len(fa['cols']) == len(ft['cols']):
            if fa['data'] != ft['data'] or fa['index'] != ft['index']:
                exbad('to_dataframe|data-changed', 'the data under %s is not the data under %s' % (fa['cols'], ft['cols']))
            for c, t in zip(ft['cols'], fa['cols']):
                if t != c and chain_end(al, t) != c:
                    exbad('to_dataframe|bad-title', 'column %s is titled %s, which is not one of its names' % (c, t))
                for p in case['preferred']:
                    if chain_end(al, p) == c and t != p:
                        exbad('to_dataframe|preferred-not-used', 'column %s is titled %s although %s is its preferred name' % (c, t, p))
    return fails


def _alias_used(case, obs):
    keys = {k for k, v in case['aliases'] if k != v}
    for op, stp in zip(case['ops'], obs.get('steps', [])):
        if stp['out'] == 'ok' and op[0] in ('setattr', 'setitem', 'replace') and keys & set(c09._target_names(op)):
            return True
    return False


def nontrivial(case, obs):
    if obs.get('init') != 'ok' or not obs.get('steps') and not case['aliases']:
        return False
    fa, ft = obs.get('frame_alias'), obs.get('frame_twin')
    renamed = isinstance(fa, dict) and isinstance(ft, dict) and fa['cols'] != ft['cols']
    return _alias_used(case, obs) or renamed


def _topology(case):
    al = case['aliases']
    if not al:
        return 'none'
    if cyclic(al):
        return 'cycle'
    tags = []
    if any(k == v for k, v in al):
        tags.append('self')
    keys = {k for k, v in al if k != v}
    depth = 0
    for k in keys:
        d, x, m = 0, k, dict(al)
        while x in m and m[x] != x:
            x = m[x]
            d += 1
        depth = max(depth, d)
    if depth >= 2:
        tags.append('chain%d' % min(depth, 4))
    ends = [chain_end(al, k) for k in keys]
    if len(set(ends)) < len(ends):
        tags.append('many1')
    if keys & (set(case['names']) | {'status', 'iterations'}):
        tags.append('shadow')
    return '+'.join(tags) or 'simple'


def bucket(case, obs):
    pref = 'pref0' if not case['preferred'] else ('ambig' if _ambiguous(case) else 'pref')
    return '%s/%s/%s/%s' % (case['kind'], _topology(case), pref, obs.get('init') if obs.get('init') in ('ok', 'hang') else 'init-raises')


def shrink_candidates(case):
    ops = case['ops']
    for i in range(len(ops)):
        c = copy.deepcopy(case)
        del c['ops'][i]
        yield c
    if len(ops) > 4:
        c = copy.deepcopy(case)
        c['ops'] = ops[:len(ops) // 2]
        yield c
    for key in ('ivs', 'reads', 'preferred'):
        if case.get(key):
            c = copy.deepcopy(case)
            c[key] = []
            yield c
    if case.get('solve'):
        c = copy.deepcopy(case)
        c['solve'] = None
        yield c
    if case.get('family'):
        c = copy.deepcopy(case)
        c['family'] = None
        yield c
    for i in range(len(case['aliases'])):
        c = copy.deepcopy(case)
        del c['aliases'][i]
        yield c
