"""Shared by C02 / C06 / C04 / C05 / C17: scripted-model cases, implementation driver, Coq encoding."""
import itertools
import math

import lib

TOL = 1e-10
ERRMODES = {'raise': 'ERaise', 'skip': 'ESkip', 'ignore': 'EIgnore', 'replace': 'EReplace'}
ST = {'-': 'Unsolved', '.': 'Solved', 'F': 'Failed', 'E': 'ErrorSt', 'S': 'Skipped'}
EXN = {'ValueError': 'ValueError', 'IndexError': 'IndexError', 'KeyError': 'KeyError', 'NonConvergenceError': 'NonConvergenceError',
       'UnboundLocalError': 'UnboundLocalError', 'TypeError': 'TypeError', 'AttributeError': 'AttributeError'}


def k_comparable(case):
    """False for cases the correspondence does not compare: an INVALID `errors` value — the statements prescribe nothing for it (whether
    ValueError comes at once or only when a non-finite value turns up is free); such cases are still generated and run for the oracles"""
    if case.get('kind') == 'hist':
        return all(c['opts']['errors'] in ERRMODES for c in case['calls'] if 'opts' in c)
    return case.get('opts', {}).get('errors', 'raise') in ERRMODES


def canon_log(evpos, t_call, n):
    """The hook / pass events (kind, POSITION, iteration) re-spelled the way the CALLER spelled the period: the statements do not say
    whether a hook sees t or t + len(span) for a negative t, so the observation is independent of it (the model logs t as passed)."""
    if t_call is not None and t_call < 0:
        return [[k, (p - n if p == t_call + n else p), it] for k, p, it in evpos]
    return [list(e) for e in evpos]


def nextafter(x, y):
    return math.nextafter(x, y)


PALETTE_FINITE = [0.0, TOL, nextafter(TOL, 0.0), nextafter(TOL, 1.0), 1.0, 1.5, -TOL, 2.5e-11, -1.0]
PALETTE_BAD = [float('nan'), float('inf'), float('-inf')]


# --------------------------------------------------------------------------- implementation side
def impl_solve_t(case):
    """Runs the real BaseModel.solve_t / solve_period on a scripted model; returns the canonical observation."""
    import numpy as np
    import fsic
    import scripted
    cls = scripted.make_class(fsic.BaseModel, case['nvars'], case['check'], case['endo'])
    n = case['n']
    span = list(range(2000, 2000 + n))
    m = scripted.instantiate(cls, span, case['vals'], case['status'], case['iters'], case['scripts'],
                             lags=case.get('lags', 0), leads=case.get('leads', 0))
    o = case['opts']
    kw = solve_kwargs(o, case.get('kwargs'))
    cause_is_original = None
    try:
        if case.get('entry', 'solve_t') == 'solve_period':
            r = m.solve_period(span[case['t'] if case['t'] >= 0 else case['t'] + n], **kw)
        else:
            r = m.solve_t(case['t'], **kw)
        out = ['ret', bool(r)]
    except Exception as e:  # the observation: class and class of the chained cause
        c = e.__cause__
        out = ['raise', type(e).__name__, type(c).__name__ if c is not None else None]
        last = m.__dict__.get('_last_exc')
        if last is not None:
            # an exception came out of a hook / _evaluate: is what surfaced a NEW exception chained to that very object?
            cause_is_original = (c is last) and (e is not last)
    return {
        'out': out,
        'vals': [[lib.fhex(x) for x in m.__dict__['_V%d' % i]] for i in range(case['nvars'])],
        'status': [str(x) for x in m.__dict__['_status']],
        'iters': [int(x) for x in m.__dict__['_iterations']],
        'log': canon_log(m.__dict__['_evpos'], model_t(case), n),
        'passvecs': [[lib.fhex(x) for x in v] for v in m.__dict__['_passvecs']],
        'raised': m.__dict__['_raised'],
        'blocked': [[b[0], b[1], lib.fhex(float.fromhex(b[2]) if b[2].startswith(('0x', '-0x')) else float(b[2]))] for b in m.__dict__['_blocked']],
        'warn_stored': m.__dict__.get('_warn_stored', []),
        'cause_is_original': cause_is_original,
    }


# --------------------------------------------------------------------------- Coq encoding
def c_action(a):
    k = a[0]
    if k in ('set', 'setlist'):          # 'setlist' = the same store written as a whole-series list assignment (array rebound)
        return '(ASet %d %s)' % (a[1], lib.cfloat(a[2]))
    if k == 'setlistkeep':               # no value changes: x * 1 + (-0.0) = x for every float, NaN / inf / -0.0 included
        return '(AAffine %d %s %d %s)' % (a[1], lib.cfloat(lib.fhex(1.0)), a[1], lib.cfloat(lib.fhex(-0.0)))
    if k == 'warnset':
        return '(AWarnSet %d %s)' % (a[1], lib.cfloat(a[2]))
    if k == 'raise':
        return '(ARaise %d)' % a[1]
    if k == 'setat':
        return '(ASetAt %d %s %s)' % (a[1], lib.cZ(a[2]), lib.cfloat(a[3]))
    if k == 'affine':
        return '(AAffine %d %s %d %s)' % (a[1], lib.cfloat(a[2]), a[3], lib.cfloat(a[4]))
    raise AssertionError(a)


def c_scripts(sc):
    items = []
    for p, ps in sorted(sc.items(), key=lambda kv: int(kv[0])):
        items.append('(%d%%nat, mkPS %s %s %s)' % (int(p), lib.clist(map(c_action, ps.get('before', []))),
                                                  lib.clist(lib.clist(map(c_action, acts)) for acts in ps.get('passes', [])),
                                                  lib.clist(map(c_action, ps.get('after', [])))))
    return lib.clist(items)


DFLT_RECORD = {'solve_t': 'dflt_solve_t', 'solve_period': 'dflt_solve_period', 'solve': 'dflt_solve', 'iter_periods': 'dflt_solve', 'iter_next': 'dflt_solve', 'iter_protocol': 'dflt_solve'}
FIELD = {'min_iter': 'min_iter', 'max_iter': 'max_iter', 'tol': 'tol', 'offset': 'offset', 'failures': 'fail_raise', 'errors': 'errors',
         'catch_first_error': 'catch_first'}


def c_opts(o, entry='solve_t'):
    """the model's option record; a keyword the call OMITS is taken from the record of regenerated defaults (SolverDefaults.v)"""
    vals = {'min_iter': lib.cZ(o['min_iter']), 'max_iter': lib.cZ(o['max_iter']), 'tol': lib.cfloat(o['tol']), 'offset': lib.cZ(o['offset']),
            'failures': lib.cbool(o['failures'] == 'raise'), 'errors': ERRMODES.get(o['errors'], 'EInvalid'),
            'catch_first_error': lib.cbool(o['catch_first_error'])}
    for k in o.get('omit', ()):
        vals[k] = '(%s %s)' % (FIELD[k], DFLT_RECORD.get(entry, 'dflt_solve_t'))
    return '(mkOpts %s %s %s %s %s %s %s)' % tuple(vals[k] for k in OPT_KEYS)


def c_event(e):
    if e[0] == 'before':
        return '(EvBefore %s)' % lib.cZ(e[1])
    return '(%s %s %d%%nat)' % ('EvPass' if e[0] == 'pass' else 'EvAfter', lib.cZ(e[1]), e[2])


def c_state(vals, status, iters, log):
    return '(mkState %s %s %s %s)' % (lib.clist(lib.clist(lib.cfloat(x) for x in row) for row in vals),
                                      lib.clist(ST[s] for s in status), lib.clist(lib.cZ(i) for i in iters), lib.clist(map(c_event, log)))


def c_outcome(out, cause_tag):
    if out[0] == 'ret':
        return '(Ret %s)' % lib.cbool(out[1])
    cls, cause = out[1], out[2]
    if cls == 'SolutionError':
        return '(Raise (SolutionError %s))' % ('None' if cause is None else '(Some %d)' % cause_tag.get(cause, 99))
    return '(Raise %s)' % EXN.get(cls, 'OtherError')


def c_desc(case):
    return '(mkDesc %s %s %d%%nat %d%%nat)' % (lib.clist('%d%%nat' % i for i in case['check']), lib.clist('%d%%nat' % i for i in case['endo']),
                                             case.get('lags', 0), case.get('leads', 0))


PREAMBLE = '''From Coq Require Import PrimFloat ZArith List Bool.
Import ListNotations.
Require Import Fsic.Base.PyBase Fsic.Solver.Solver Fsic.Solver.SolverF Fsic.Solver.SolverDefaults.
Open Scope float_scope. Open Scope Z_scope.
'''


def model_t(case):
    # solve_period resolves the label to its (non-negative) position and passes that to solve_t
    if case.get('entry') == 'solve_period' and case['t'] < 0:
        return case['t'] + case['n']
    return case['t']


def c_tcase(case, obs):
    import scripted
    return '(mkCase %s %s %s %s %s %s %s)' % (
        c_scripts(resolved_scripts(case)), c_desc(case), c_opts(case['opts'], case.get('entry', 'solve_t')), lib.cZ(model_t(case)),
        c_state(case['vals'], case['status'], case['iters'], []),
        c_state(obs['vals'], obs['status'], obs['iters'], obs['log']),
        c_outcome(obs['out'], scripted.CAUSE_TAG))


def correspond_solve_t(cases, obs, tag):
    items = [c_tcase(c, o) for c, o in zip(cases, obs)]
    return lib.run_coq_cases(tag, PREAMBLE, items, 'bad_indices check_tcase 0%nat cs')


def explain_solve_t(case, obs):
    return lib.coq_eval('explain', PREAMBLE, 'f_solve_t %s %s %s %s %s' % (
        c_scripts(resolved_scripts(case)), c_desc(case), c_opts(case['opts'], case.get('entry', 'solve_t')), lib.cZ(model_t(case)),
        c_state(case['vals'], case['status'], case['iters'], [])))[-3000:]


# --------------------------------------------------------------------------- generators
def base_case(nvars=2, check=(0,), endo=(0,), n=4, t=1, **opts):
    o = dict(min_iter=0, max_iter=3, tol=lib.fhex(TOL), offset=0, failures='raise', errors='raise', catch_first_error=True)
    o.update(opts)
    return {'nvars': nvars, 'check': list(check), 'endo': list(endo), 'n': n, 't': t,
            'vals': [[lib.fhex(0.25 * (i + 1) + 0.125 * p) for p in range(n)] for i in range(nvars)],
            'status': ['-'] * n, 'iters': [-1] * n, 'opts': o, 'scripts': {}, 'entry': 'solve_t'}


def value_script(seqs, check):
    """seqs[k][j] = value of check variable j after pass k+1 -> list of passes (actions)."""
    return [[['set', check[j], lib.fhex(v)] for j, v in enumerate(vec) if v is not None] for vec in seqs]


def lattice_cases(rng, max_len, palette, n_random, fault_kinds=False):
    """Exhaustive outcome sequences of one check variable up to max_len x the option lattice (sampled product),
    then random multi-variable ones."""
    cases = []
    opts_lattice = []
    for max_iter in range(0, max_len + 1):
        for min_iter in range(0, max_iter + 2):
            for failures in ('raise', 'ignore'):
                opts_lattice.append((min_iter, max_iter, failures))
    for L in range(0, max_len + 1):
        for seq in itertools.product(range(len(palette)), repeat=L):
            # every sequence is run with a few lattice points: all of them when short, sampled when long
            pts = opts_lattice if L <= 1 else rng.sample(opts_lattice, 3)
            for (mn, mx, fl) in pts:
                c = base_case(min_iter=mn, max_iter=mx, failures=fl)
                c['vals'][0][1] = lib.fhex(0.0)
                c['scripts'] = {'1': {'passes': value_script([[palette[i]] for i in seq], [0])}}
                cases.append(c)
    return cases


# =========================================================================== multi-period solves (C05; C06 'skip moves on')
# span types: how the span object is searched by _locate_period_in_span -> the model's lookup kind
#   0 = span.index (list / tuple / range)   1 = the fallback (NumPy array)   2 = answers recorded from the run (PeriodIndex: get_loc
#   parses strings and partial dates)   3 = pandas Index of plain labels (modelled get_loc: SolveAllSpan.locate_getloc)
SPAN_KIND = {'range': 0, 'list_str': 0, 'tuple_str': 0, 'list_dup': 0, 'np_int': 1, 'np_str': 1, 'np_dup': 1,
             'pd_int': 3, 'pd_str': 3, 'period_q': 2, 'pd_dup': 3, 'pd_dupnm': 3, 'list_dupnm': 0, 'np_dupnm': 1,
             # spans holding a FALSY label (the integer 0, the empty string) at position 1: a label is a label, never "not given"
             'range0': 0, 'list_empty': 0, 'np_int0': 1, 'pd_int0': 3,
             # repeated INNER labels, unambiguous end labels (n >= 4): adjacent repeat p0 p1 p1 p3 .., non-monotonic repeat p0 q p2 q p4 ..
             'list_dupin': 0, 'np_dupin': 1, 'pd_dupin': 3, 'list_dupin_nm': 0, 'np_dupin_nm': 1, 'pd_dupin_nm': 3,
             # 4 = quarterly PeriodIndex with the MODELLED lookup (SolveAllPeriod.locate_qindex: labels are quarter ordinals
             # 4*year + quarter - 1, a year string is the key -(year)); period_q keeps the recorded table as a cross-check
             'period_qm': 4, 'period_qm_late': 4,
             # 5 = pandas IntervalIndex (get_loc answers with numpy.int64: kept finding of C05, SolveAllSpan.locate_interval)
             'pd_interval': 5,
             # range spans with a step other than 1, both signs: integers strictly BETWEEN two periods are in bounds but are no periods
             'range_s5': 0, 'range_neg2': 0}
STEPPED = ('range_s5', 'range_neg2')
PERIOD_MODELLED = ('period_qm', 'period_qm_late')
# spans of integer labels that histories reindex (labels are their own ids, so ids stay meaningful across reindex())
RX_KIND = {'rx_list': 0, 'rx_tuple': 0, 'rx_np': 1, 'rx_pd': 3}
SPAN_KIND.update(RX_KIND)


def span_from_labels(span_type, labels):
    import numpy as np
    if span_type == 'rx_list':
        return list(labels)
    if span_type == 'rx_tuple':
        return tuple(labels)
    if span_type == 'rx_np':
        return np.array(labels, dtype=int)
    if span_type == 'rx_pd':
        import pandas as pd
        return pd.Index(list(labels))
    raise AssertionError(span_type)
SPAN_NODUP = ('range', 'list_str', 'tuple_str', 'np_int', 'np_str', 'pd_int', 'pd_str', 'period_q', 'range0', 'list_empty', 'np_int0', 'pd_int0',
              'period_qm', 'period_qm_late', 'rx_list', 'rx_tuple', 'rx_np', 'rx_pd', 'pd_interval', 'range_s5', 'range_neg2')
INT_LABELS = ('range', 'np_int', 'pd_int', 'range0', 'np_int0', 'pd_int0', 'rx_list', 'rx_tuple', 'rx_np', 'rx_pd', 'range_s5', 'range_neg2')


def make_span(span_type, n):
    import numpy as np
    strs = ['p%d' % i for i in range(n)]
    dups = ['p%d' % (0 if i == 1 else i) for i in range(n)]          # label of period 1 repeats period 0
    dupnm = ['p%d' % (1 if i == 0 else 0 if i == 1 else 1 if i == 2 else i) for i in range(n)]   # p1 p0 p1 p3 ...: repeated, not monotonic
    dupin = ['p%d' % (1 if i == 2 else i) for i in range(n)]                  # p0 p1 p1 p3 p4: periods 1 and 2 share a label
    dupin_nm = ['q' if i in (1, 3) else 'p%d' % i for i in range(n)]            # p0 q p2 q p4: periods 1 and 3 share a label
    if span_type in RX_KIND:
        return span_from_labels(span_type, list(range(2000, 2000 + n)))
    if span_type in ('list_dupin', 'list_dupin_nm'):
        return dupin if span_type == 'list_dupin' else dupin_nm
    if span_type in ('np_dupin', 'np_dupin_nm'):
        lab = dupin if span_type == 'np_dupin' else dupin_nm
        return np.array(lab, dtype=str) if n else np.array([], dtype=str)
    if span_type == 'range':
        return range(2000, 2000 + n)
    if span_type == 'range_s5':
        return range(2000, 2000 + 5 * n, 5)
    if span_type == 'range_neg2':
        return range(2010, 2010 - 2 * n, -2)
    if span_type == 'list_str':
        return strs
    if span_type == 'tuple_str':
        return tuple(strs)
    if span_type == 'range0':
        return range(-1, n - 1)
    if span_type == 'list_empty':
        return ['' if i == 1 else 'p%d' % i for i in range(n)]
    if span_type == 'np_int0':
        return np.arange(-1, n - 1)
    if span_type == 'list_dup':
        return dups
    if span_type == 'list_dupnm':
        return dupnm
    if span_type == 'np_dupnm':
        return np.array(dupnm, dtype=str) if n else np.array([], dtype=str)
    if span_type == 'np_int':
        return np.arange(2000, 2000 + n)
    if span_type == 'np_str':
        return np.array(strs, dtype=str) if n else np.array([], dtype=str)
    if span_type == 'np_dup':
        return np.array(dups, dtype=str) if n else np.array([], dtype=str)
    import pandas as pd
    if span_type == 'pd_int':
        return pd.Index(list(range(2000, 2000 + n)))
    if span_type == 'pd_str':
        return pd.Index(strs, dtype=object)
    if span_type == 'pd_dup':
        return pd.Index(dups, dtype=object)
    if span_type == 'pd_dupnm':
        return pd.Index(dupnm, dtype=object)
    if span_type == 'pd_int0':
        return pd.Index(list(range(-1, n - 1)))
    if span_type == 'pd_interval':
        return pd.IntervalIndex.from_breaks(list(range(n + 1)))
    if span_type in ('pd_dupin', 'pd_dupin_nm'):
        return pd.Index(dupin if span_type == 'pd_dupin' else dupin_nm, dtype=object)
    if span_type in ('period_q', 'period_qm'):
        return pd.period_range('2000Q1', periods=n, freq='Q')
    if span_type == 'period_qm_late':
        return pd.period_range('2000Q3', periods=n, freq='Q')      # two quarters of 2000, the rest in 2001 (and 2002)
    raise AssertionError(span_type)


def label_of(span_type, span, n, spec):
    """spec: None | ['pos', i] | ['str', i] (PeriodIndex: the period written as a string) | ['unknown'] | ['partial']"""
    if spec is None:
        return None
    k = spec[0]
    if k == 'pos':
        return span[spec[1]]
    if k == 'pos_np':
        import numpy as np
        return np.int64(span[spec[1]])                 # the label of period i as a NumPy integer
    if k in ('between', 'between_np'):
        # an integer strictly between period i and the next one (inside the bounds of the range, but not a period)
        lab = span[spec[1]] + (1 if span.step > 0 else -1)
        if k == 'between_np':
            import numpy as np
            return np.int64(lab)
        return lab
    if k == 'str':
        return str(span[spec[1]])
    if k == 'partial' and span_type in ('period_q',) + PERIOD_MODELLED:
        return str(spec[1]) if len(spec) > 1 else '2000'   # a year against a quarterly index: get_loc returns a slice (KeyError if no match)
    if span_type in INT_LABELS:
        return 1999 if k == 'unknown' else -7
    if span_type in ('period_q',) + PERIOD_MODELLED:
        import pandas as pd
        return pd.Period('1990Q1', freq='Q')
    return 'zz' if k == 'unknown' else 'yy'


def span_ids(span, n, span_type=None):
    """label id of every position = first position holding an equal label (quarterly PeriodIndex with the modelled lookup: the
    quarter ordinal 4*year + quarter - 1)"""
    if span_type in PERIOD_MODELLED:
        return [4 * int(x.year) + int(x.quarter) - 1 for x in span]
    if span_type in RX_KIND:
        return [int(x) for x in span]
    ids = []
    for i in range(n):
        j = 0
        while not bool(span[j] == span[i]):
            j += 1
        ids.append(j)
    return ids


def spec_id(case, ids, spec):
    n = case['n']
    if spec is None:
        return None
    if case['span_type'] in PERIOD_MODELLED:
        if spec[0] in ('pos', 'str'):
            return ids[spec[1]]                     # the Period object and its full string denote the same quarter
        if spec[0] == 'partial':
            return -int(spec[1] if len(spec) > 1 else 2000)
        return 4 * 1990                             # 'unknown': 1990Q1
    if spec[0] in ('pos', 'pos_np'):
        return ids[spec[1]]
    if spec[0] == 'str':
        return n + 10 + spec[1]
    if spec[0] in ('between', 'between_np'):
        return n + 30 + spec[1]                     # no period carries it
    return n + 5 if spec[0] == 'unknown' else n + 6


# flipped to True together with kind 4 of SolveAllF.f_locate (the modelled PeriodIndex lookup)
MODELLED_PERIOD_KEYS = True


def label_specs(span_type, n):
    """the label specifications tried as start / end / solve_period argument on a span of this type"""
    sp = [None] + [['pos', i] for i in range(n)] + [['unknown']]
    if span_type == 'period_q':
        sp += [['str', i] for i in range(n)] + [['partial']]
    if span_type in STEPPED:
        sp += [['pos_np', i] for i in range(n)] + [['between', i] for i in range(n)] + [['between_np', i] for i in range(n)]
    if span_type in PERIOD_MODELLED and MODELLED_PERIOD_KEYS:
        # full strings, and year strings matching no / some / (for longer spans) other quarters of the index
        sp += [['str', i] for i in range(n)] + [['partial', 1999], ['partial', 2000], ['partial', 2001]]
    return sp


# the DOCUMENTED keyword defaults of solve_t / solve_period / solve (what the oracles assume for a keyword a call omits; the model
# takes the values of the working tree from the regenerated constants, Solver/SolverDefaults.v; Props/C02.v pins them)
DEFAULTS = {'min_iter': 0, 'max_iter': 100, 'tol': None, 'offset': 0, 'failures': 'raise', 'errors': 'raise', 'catch_first_error': True}
OPT_KEYS = ('min_iter', 'max_iter', 'tol', 'offset', 'failures', 'errors', 'catch_first_error')


def with_omitted(o, omit):
    """options in which the keywords `omit` are NOT passed: their entries hold the documented defaults"""
    o = dict(o)
    for k in omit:
        o[k] = lib.fhex(TOL) if k == 'tol' else DEFAULTS[k]
    o['omit'] = sorted(omit)
    return o


def random_omit(rng, o, p=0.15):
    """with probability p leave out some (sometimes all) of the seven solver keywords"""
    if rng.random() >= p:
        return o
    r = rng.random()
    omit = list(OPT_KEYS) if r < 0.25 else rng.sample(OPT_KEYS, rng.randint(1, 3))
    return with_omitted(o, omit)


def solve_kwargs(o, extra=None):
    kw = dict(min_iter=o['min_iter'], max_iter=o['max_iter'], tol=lib.unhex(o['tol']), offset=o['offset'],
              failures=o['failures'], errors=o['errors'], catch_first_error=o['catch_first_error'])
    for k in o.get('omit', ()):
        del kw[k]
    for k, v in (extra or {}).items():
        kw[k] = lib.unhex(v)
    return kw


def resolved_scripts(case):
    """scripts with the kwargs-dependent statements ('setkw') turned into plain stores of the value they have under the case's extra
    keyword arguments — what the model is given (the model has no kwargs; dropping the forwarding makes the real run differ)"""
    kw = case.get('kwargs') or {}

    def res(acts):
        out = []
        for a in acts:
            if a[0] == 'setkw':
                import numpy as np
                out.append(['set', a[1], lib.fhex(float(np.float64(lib.unhex(a[2])) + np.float64(lib.unhex(kw[a[3]]) if a[3] in kw else 0.0)))])
            else:
                out.append(a)
        return out
    return {p: {'before': res(ps.get('before', [])), 'passes': [res(x) for x in ps.get('passes', [])], 'after': res(ps.get('after', []))}
            for p, ps in case['scripts'].items()}


def observe_state(m, nvars, names=None):
    names = names or ['V%d' % i for i in range(nvars)]
    return {
        'vals': [[lib.fhex(x) for x in m.__dict__['_' + nm]] for nm in names],
        'status': [str(x) for x in m.__dict__['_status']],
        'iters': [int(x) for x in m.__dict__['_iterations']],
        'log': [list(e) for e in m.__dict__['_evpos']],          # positions (solve / solve_period / iter_periods hand positions on)
        'passvecs': [[lib.fhex(x) for x in v] for v in m.__dict__['_passvecs']],
        'raised': m.__dict__['_raised'],
    }


def label_counts(case):
    """how many periods carry the label of each position (1 everywhere for spans without repeated labels)"""
    n = case['n']
    span = make_span(case['span_type'], n)
    ids = span_ids(span, n, case['span_type'])
    return [ids.count(ids[i]) for i in range(n)]


def expected_range(case):
    """What the property says start/end denote, computed from the case alone (never from fsic):
    ('range', a, b) | ('keyerror',) | ('empty',) | None (outside the statement: a label carried by several periods of a list /
    tuple span — the lookup .index silently takes the first one —, a span too short for the lags / leads).
    A label carried by several periods of a NumPy / pandas span does not resolve to a single position: KeyError."""
    n = case['n']
    cnt = label_counts(case) if case['span_type'] not in SPAN_NODUP else [1] * n
    kind = SPAN_KIND[case['span_type']]

    def one(spec, dflt):
        if spec is None:
            return dflt if 0 <= dflt < n else None
        if spec[0] in ('pos', 'str', 'pos_np'):
            if cnt[spec[1]] >= 2:
                return 'bad' if kind in (1, 3) else None
            return spec[1]
        return 'bad'
    if n == 0:
        bad = [s for s in (case['start'], case['end']) if s is not None]
        return ('keyerror',) if bad else ('empty',)
    a = one(case['start'], case.get('lags', 0))
    b = one(case['end'], n - 1 - case.get('leads', 0))
    if a == 'bad' or b == 'bad':
        return ('keyerror',)
    if a is None or b is None:
        return None
    return ('range', a, b)


def impl_solve(case):
    """solve(start=, end=) / solve_period(label) on a scripted model over the requested span type, and the same work done by
    a twin instance through a plain loop of solve_t over the positions the property names."""
    import fsic
    import scripted
    n = case['n']
    cls = scripted.make_class(fsic.BaseModel, case['nvars'], case['check'], case['endo'])

    def fresh():
        return scripted.instantiate(cls, make_span(case['span_type'], n), case['vals'], case['status'], case['iters'], case['scripts'],
                                    lags=case.get('lags', 0), leads=case.get('leads', 0))
    obs = run_solve_and_twin(case, fresh, case['nvars'], None)
    del obs['_m']
    return obs


def run_solve_and_twin(case, fresh, nvars, names):
    n = case['n']
    span = make_span(case['span_type'], n)
    kw = solve_kwargs(case['opts'], case.get('kwargs'))
    ids = span_ids(span, n, case['span_type'])

    def lab_id(lab):
        for j in range(n):
            if bool(span[j] == lab):
                return ids[j]
        return -1
    m = fresh()
    start = label_of(case['span_type'], span, n, case['start'])
    end = label_of(case['span_type'], span, n, case['end'])
    try:
        if case['entry'] == 'solve_period':
            out = ['ret', bool(m.solve_period(start, **kw))]
        elif case['entry'] == 'iter_next':
            first = next(m.iter_periods(start=start, end=end))        # the first (position, label) pair
            out = ['ret', [lab_id(first[1])], [int(first[0])], [False], [type(first[0]).__name__], 1]
        elif case['entry'] == 'iter_protocol':
            # the whole protocol on ONE PeriodIter: next, next, list (all pairs again), list (repeatable), len
            pi = m.iter_periods(start=start, end=end)
            a = next(pi)
            b = next(pi)
            pairs = [a, b] + list(pi) + list(pi)
            out = ['ret', [lab_id(lab) for _, lab in pairs], [int(t) for t, _ in pairs], [False] * len(pairs),
                   [type(t).__name__ for t, _ in pairs], int(len(pi))]
        elif case['entry'] == 'iter_periods':
            pi = m.iter_periods(start=start, end=end)
            pairs = list(pi)
            out = ['ret', [lab_id(lab) for _, lab in pairs], [int(t) for t, _ in pairs], [False] * len(pairs),
                   [type(t).__name__ for t, _ in pairs], int(len(pi))]
        else:
            labels, indexes, solved = m.solve(start=start, end=end, **kw)
            out = ['ret', [lab_id(x) if x is not None else None for x in labels], [int(x) if x is not None else None for x in indexes],
                   [bool(x) if x is not None else None for x in solved], [type(x).__name__ for x in indexes]]
    except Exception as e:
        c = e.__cause__
        out = ['raise', type(e).__name__, type(c).__name__ if c is not None else None]
    obs = {'out': out, 'ipkw': m.__dict__.get('_ipkw', [])}
    obs.update(observe_state(m, nvars, names))
    # the span lookup's answers (pandas spans: the model's `locate` oracle is this table; other spans: checked against it)
    loc = {}
    probe = fresh()
    for key, lab in [(ids[i], span[i]) for i in range(n)] + [(spec_id(case, ids, s), label_of(case['span_type'], span, n, s))
                                                            for s in (case['start'], case['end']) if s is not None]:
        try:
            r = probe._locate_period_in_span(lab)
            import numbers
            if type(r) is int:
                loc[str(key)] = ['int', int(r)]
            elif isinstance(r, numbers.Integral) and not isinstance(r, bool):
                loc[str(key)] = ['intlike', int(r), type(r).__name__]      # an integer that is no built-in int (e.g. numpy.int64)
            else:
                loc[str(key)] = ['other', type(r).__name__]
        except Exception as e:
            loc[str(key)] = ['fail', type(e).__name__]
    obs['loc'] = loc
    obs['ids'] = ids
    # the twin: a loop of solve_t over the positions the statement names
    exp = expected_range(case)
    if exp is not None and exp[0] == 'range' and case['entry'] not in ('iter_periods', 'iter_next', 'iter_protocol'):
        tw = fresh()
        flags, tout = [], None
        rng_ = [exp[1]] if case['entry'] == 'solve_period' else range(exp[1], exp[2] + 1)
        for t in rng_:
            try:
                flags.append(bool(tw.solve_t(t, **kw)))
            except Exception as e:
                c = e.__cause__
                tout = ['raise', type(e).__name__, type(c).__name__ if c is not None else None, t]
                break
        twin = {'out': tout if tout is not None else ['ret', flags]}
        twin.update(observe_state(tw, nvars, names))
        obs['twin'] = twin
    obs['_m'] = m
    return obs


def c_locres(x):
    if x[0] == 'int':
        return '(LInt %s)' % lib.cZ(x[1])
    return 'LOther' if x[0] == 'other' else 'LFail'


def c_scase(case, obs):
    import scripted
    ids = obs['ids']
    opt = lambda s: 'None' if s is None else '(Some %s)' % lib.cZ(spec_id(case, ids, s))
    out = obs['out']
    if out[0] == 'raise':
        xout = c_outcome(out, scripted.CAUSE_TAG)
    elif case['entry'] == 'solve_period':
        xout = '(Ret (1%%nat, [(%s, 0, %s)]))' % (lib.cZ(spec_id(case, ids, case['start'])), lib.cbool(out[1]))
    else:
        vis = ['(%s, %s, %s)' % (lib.cZ(l), lib.cZ(t), lib.cbool(b)) for l, t, b in zip(out[1], out[2], out[3]) if t is not None]
        xout = '(Ret (%d%%nat, %s))' % (out[5] if case['entry'] in ('iter_periods', 'iter_next', 'iter_protocol') else len(out[1]), lib.clist(vis))
    tbl = lib.clist('(%s, %s)' % (lib.cZ(int(k)), c_locres(v)) for k, v in sorted(obs['loc'].items(), key=lambda kv: int(kv[0])))
    return '(mkSCase %s %s %s %d%%nat %s %s %d%%nat %s %s %s %s %s)' % (
        c_scripts(resolved_scripts(case)), c_desc(case), c_opts(case['opts'], case['entry']), SPAN_KIND[case['span_type']],
        lib.clist(lib.cZ(i) for i in ids), tbl, {'solve_period': 1, 'iter_periods': 2, 'iter_next': 3, 'iter_protocol': 4}.get(case['entry'], 0),
        opt(case['start']), opt(case['end']),
        c_state(case['vals'], case['status'], case['iters'], []),
        c_state(obs['vals'], obs['status'], obs['iters'], obs['log']), xout)


PREAMBLE_ALL = '''From Coq Require Import PrimFloat ZArith List Bool.
Import ListNotations.
Require Import Fsic.Base.PyBase Fsic.Solver.Solver Fsic.Solver.SolverF Fsic.Solver.SolverDefaults Fsic.Solver.SolveAll Fsic.Solver.SolveAllF.
Open Scope float_scope. Open Scope Z_scope.
'''


def correspond_solve(cases, obs, tag):
    items = [c_scase(c, o) for c, o in zip(cases, obs)]
    return lib.run_coq_cases(tag, PREAMBLE_ALL, items, 'bad_indices check_scase 0%nat cs')


def explain_solve(case, obs):
    return lib.coq_eval('explain_all', PREAMBLE_ALL, 'run_scase %s' % c_scase(case, obs))[-3000:]


def solve_case(span_type='range', n=4, start=None, end=None, entry='solve', nvars=2, check=(0,), endo=(0,), lags=0, leads=0, **opts):
    c = base_case(nvars=nvars, check=check, endo=endo, n=n, t=0, **opts)
    del c['t']
    c.update({'span_type': span_type, 'start': start, 'end': end, 'entry': entry, 'lags': lags, 'leads': leads})
    return c


def settle_passes(var, values):
    return [[['set', var, lib.fhex(v)]] for v in values]


# --------------------------------------------------------------------------- parser-built models under solve()
def recording_class(Base):
    """Subclass of a parser-built model that logs hook / pass events and the column of period t before and after every pass
    (same bookkeeping keys as the scripted models)."""
    class Rec(Base):
        def _col(self, t):
            return [float(self.__dict__['_' + nm][t]) for nm in self.names]

        def solve_t_before(self, t, *, errors='raise', catch_first_error=True, iteration=None, **kwargs):
            self.__dict__['_evlog'].append(['before', int(t), int(iteration)])
            self.__dict__['_evpos'].append(['before', int(t if t >= 0 else t + len(self.span)), int(iteration)])
            super().solve_t_before(t, errors=errors, catch_first_error=catch_first_error, iteration=iteration, **kwargs)

        def _evaluate(self, t, *, errors='raise', catch_first_error=True, iteration=None, **kwargs):
            self.__dict__['_evlog'].append(['pass', int(t), int(iteration)])
            self.__dict__['_evpos'].append(['pass', int(t if t >= 0 else t + len(self.span)), int(iteration)])
            try:
                super()._evaluate(t, errors=errors, catch_first_error=catch_first_error, iteration=iteration, **kwargs)
            except Exception as e:
                self.__dict__['_raised'].append(['pass', int(t), int(iteration), type(e).__name__])
                raise
            finally:
                self.__dict__['_cols'].append([int(t), int(iteration), self._col(t)])
                self.__dict__['_passvecs'].append([float(self.__dict__['_' + nm][t]) for nm in self.check])

        def solve_t_after(self, t, *, errors='raise', catch_first_error=True, iteration=None, **kwargs):
            self.__dict__['_evlog'].append(['after', int(t), int(iteration)])
            self.__dict__['_evpos'].append(['after', int(t if t >= 0 else t + len(self.span)), int(iteration)])
            super().solve_t_after(t, errors=errors, catch_first_error=catch_first_error, iteration=iteration, **kwargs)
    return Rec


def impl_solve_parsed(case):
    """solve() / solve_period() of a model built by the real parser (class-level LAGS / LEADS from its equations) and the twin
    loop of solve_t; the columns recorded after every pass of every period become the script of the Coq model."""
    import fsic
    import scripted
    n = case['n']
    Rec = recording_class(fsic.build_model(fsic.parse_model(case['equations'])))

    def fresh():
        m = Rec(make_span(case['span_type'], n))
        for nm, vals in case['init'].items():
            if nm in m.names:
                m.__dict__['_' + nm][:] = [lib.unhex(x) for x in vals]
        for k in ('_evlog', '_evpos', '_passvecs', '_raised', '_cols'):
            m.__dict__[k] = []
        return m
    m0 = fresh()
    names = list(m0.names)
    vals0 = [[lib.fhex(x) for x in m0.__dict__['_' + nm]] for nm in names]
    c2 = dict(case, lags=int(m0.lags), leads=int(m0.leads))
    obs = run_solve_and_twin(c2, fresh, len(names), names)
    m = obs.pop('_m')
    raised = {(r[1] if r[1] >= 0 else r[1] + n, r[2]): r[3] for r in m.__dict__['_raised']}
    scripts = {}
    for t, k, colv in m.__dict__['_cols']:
        p = t if t >= 0 else t + n
        acts = [['set', i, lib.fhex(x)] for i, x in enumerate(colv)]
        if (p, k) in raised:
            acts.append(['raise', scripted.CAUSE_TAG.get(raised[(p, k)], 99)])
        passes = scripts.setdefault(str(p), {'passes': []})['passes']
        while len(passes) < k - 1:
            passes.append([])
        passes.append(acts)
    obs['as_scripted'] = {'nvars': len(names), 'check': [names.index(x) for x in m.check], 'endo': [names.index(x) for x in m.endogenous],
                          'lags': int(m0.lags), 'leads': int(m0.leads), 'n': n, 'vals': vals0, 'status': ['-'] * n, 'iters': [-1] * n,
                          'opts': case['opts'], 'scripts': scripts, 'entry': case['entry'], 'span_type': case['span_type'],
                          'start': case['start'], 'end': case['end'], 'kind': 'parsed'}
    return obs


# =========================================================================== histories of public solver calls on one instance (C06)
def _hist_state(m, nvars):
    return ([[lib.fhex(x) for x in m.__dict__['_V%d' % i]] for i in range(nvars)], [str(x) for x in m.__dict__['_status']],
            [int(x) for x in m.__dict__['_iterations']])


def _apply_edit(m, call, st, n):
    """the state edits of a history; returns the object to go on with"""
    api = call['api']
    if api == 'copy':
        return m.copy()
    if api == 'reindex_same':
        return m.reindex(make_span(st, n))
    if api == 'reindex':
        return m.reindex(span_from_labels(st, call['labels']))
    if api == 'set_row':
        setattr(m, 'V%d' % call['var'], [lib.unhex(x) for x in call['values']])
        return m
    if api == 'set_cell':
        getattr(m, 'V%d' % call['var'])[call['pos']] = lib.unhex(call['value'])
        return m
    raise AssertionError(api)


EDITS = ('copy', 'reindex_same', 'reindex', 'set_row', 'set_cell')


def impl_hist(case):
    """Runs a history of solve_t / solve_period / solve calls (exceptions caught) interleaved with copy(), reindex(same span),
    whole-series list assignments and direct cell assignments on ONE scripted model instance.  A twin instance goes through the
    same history with every solve() replaced by the plain loop of solve_t over the positions the statement names and every
    solve_period(label) by solve_t(position); after each step outcome class and (values, status, iterations) are compared."""
    import fsic
    import scripted
    n, st = case['n'], case['span_type']
    cls = scripted.make_class(fsic.BaseModel, case['nvars'], case['check'], case['endo'])
    span = make_span(st, n)
    ids = span_ids(span, n, st)

    def fresh():
        return scripted.instantiate(cls, make_span(st, n), case['vals'], case['status'], case['iters'], case['scripts'],
                                    lags=case.get('lags', 0), leads=case.get('leads', 0))
    m, tw = fresh(), fresh()
    twin_ok, twin_diff = True, []

    def lab_id(lab):
        for j in range(n):
            if bool(span[j] == lab):
                return ids[j]
        return -1
    outs, snaps, steps = [], [], []
    KEYS = ('_evpos', '_passvecs', '_raised', '_blocked', '_warn_stored')
    for k, call in enumerate(case['calls']):
        if call['api'] in EDITS:
            m = _apply_edit(m, call, st, n)
            if twin_ok:
                tw = _apply_edit(tw, call, st, n)
            if call['api'] == 'reindex':
                span = span_from_labels(st, call['labels'])
                n = len(call['labels'])
                ids[:] = [int(x) for x in call['labels']]
            outs.append(['ret', [], [], []])
            snaps.append([str(x) for x in m.__dict__['_status']])
            steps.append(None)
            continue
        kw = solve_kwargs(call['opts'])
        pre = _hist_state(m, case['nvars'])
        marks = {key: len(m.__dict__.get(key, [])) for key in KEYS}
        try:
            if call['api'] == 'solve_t':
                outs.append(['ret', bool(m.solve_t(call['t'], **kw))])
            elif call['api'] == 'solve_period':
                outs.append(['ret', bool(m.solve_period(label_of(st, span, n, call['start']), **kw))])
            else:
                labels, indexes, solved = m.solve(start=label_of(st, span, n, call['start']), end=label_of(st, span, n, call['end']), **kw)
                outs.append(['ret', [lab_id(x) for x in labels], [int(x) for x in indexes], [bool(x) for x in solved]])
        except Exception as e:
            c = e.__cause__
            outs.append(['raise', type(e).__name__, type(c).__name__ if c is not None else None])
        snaps.append([str(x) for x in m.__dict__['_status']])
        sl = {key: m.__dict__.get(key, [])[marks[key]:] for key in KEYS}
        steps.append({'pre': list(pre), 'post': list(_hist_state(m, case['nvars'])),
                      'log': canon_log(sl['_evpos'], call['t'] if call['api'] == 'solve_t' else None, len(pre[1])),
                      'passvecs': [[lib.fhex(x) for x in v] for v in sl['_passvecs']], 'raised': sl['_raised'],
                      'blocked': [[b[0], b[1], lib.fhex(float.fromhex(b[2]) if b[2].startswith(('0x', '-0x')) else float(b[2]))] for b in sl['_blocked']],
                      'warn_stored': sl['_warn_stored']})
        # ---- the twin: single-period calls only
        if not twin_ok:
            continue
        if call['api'] == 'solve_t':
            want = None
            try:
                want = ['ret', bool(tw.solve_t(call['t'], **kw))]
            except Exception as e:
                c = e.__cause__
                want = ['raise', type(e).__name__, type(c).__name__ if c is not None else None]
        else:
            exp = expected_range(dict(case, n=n, start=call['start'], end=call.get('end'), entry=call['api']))
            if exp is None or exp[0] == 'empty':
                twin_ok = False
                continue
            if call['api'] == 'solve' and call['opts']['min_iter'] > call['opts']['max_iter']:
                want = ['raise', 'ValueError']          # solve() tests min_iter / max_iter before it looks at the labels
            elif exp[0] == 'keyerror':
                want = ['raise', 'KeyError']
            else:
                positions = [exp[1]] if call['api'] == 'solve_period' else list(range(exp[1], exp[2] + 1))
                flags, want = [], None
                for t in positions:
                    try:
                        flags.append(bool(tw.solve_t(t, **kw)))
                    except Exception as e:
                        c = e.__cause__
                        want = ['raise', type(e).__name__, type(c).__name__ if c is not None else None]
                        break
                if want is None:
                    want = ['ret', flags[0]] if call['api'] == 'solve_period' else ['ret', [ids[q] for q in positions], positions, flags]
        got = outs[-1]
        if got[:len(want)] != want or _hist_state(m, case['nvars']) != _hist_state(tw, case['nvars']):
            twin_diff.append([k, got[:4], want, _hist_state(m, case['nvars'])[1:], _hist_state(tw, case['nvars'])[1:]])
    obs = {'outs': outs, 'snaps': snaps, 'ids': span_ids(make_span(st, case['n']), case['n'], st), 'twin_diff': twin_diff, 'steps': steps}
    obs.update(observe_state(m, case['nvars']))
    obs['log'] = [e for st_ in steps if st_ is not None for e in st_['log']]      # every step in its caller's spelling
    return obs


def c_hcall(case, ids, call):
    opt = lambda sp: 'None' if sp is None else '(Some %s)' % lib.cZ(spec_id(case, ids, sp))
    if call['api'] in ('copy', 'reindex_same'):
        return 'HCopy'
    if call['api'] == 'reindex':
        return '(HReindex %s)' % lib.clist(lib.cZ(x) for x in call['labels'])
    if call['api'] == 'set_row':
        return '(HSetRow %d%%nat %s)' % (call['var'], lib.clist(lib.cfloat(x) for x in call['values']))
    if call['api'] == 'set_cell':
        return '(HSetCell %d%%nat %s %s)' % (call['var'], lib.cZ(call['pos']), lib.cfloat(call['value']))
    if call['api'] == 'solve_t':
        return '(HSolveT %s %s)' % (c_opts(call['opts'], 'solve_t'), lib.cZ(call['t']))
    if call['api'] == 'solve_period':
        return '(HSolvePeriod %s %s)' % (c_opts(call['opts'], 'solve_period'), lib.cZ(spec_id(case, ids, call['start'])))
    return '(HSolve %s %s %s)' % (c_opts(call['opts'], 'solve'), opt(call['start']), opt(call['end']))


def c_hout(case, ids, call, out):
    import scripted
    if out[0] == 'raise':
        return c_outcome(out, scripted.CAUSE_TAG)
    if call['api'] in EDITS:
        return '(Ret (0%nat, []))'
    if call['api'] == 'solve_t':
        return '(Ret (1%%nat, [(0, %s, %s)]))' % (lib.cZ(call['t']), lib.cbool(out[1]))
    if call['api'] == 'solve_period':
        return '(Ret (1%%nat, [(%s, 0, %s)]))' % (lib.cZ(spec_id(case, ids, call['start'])), lib.cbool(out[1]))
    vis = ['(%s, %s, %s)' % (lib.cZ(l), lib.cZ(t), lib.cbool(b)) for l, t, b in zip(out[1], out[2], out[3])]
    return '(Ret (%d%%nat, %s))' % (len(out[1]), lib.clist(vis))


def c_hcase(case, obs):
    ids0 = list(obs['ids'])
    ids, calls, outs = list(ids0), [], []
    for c, o in zip(case['calls'], obs['outs']):
        calls.append(c_hcall(case, ids, c))          # the label ids of the span current at that step
        outs.append(c_hout(case, ids, c, o))
        if c['api'] == 'reindex':
            ids = [int(x) for x in c['labels']]
    return '(mkHCase %s %s %d%%nat %s %s %s %s %s)' % (
        c_scripts(case['scripts']), c_desc(case), SPAN_KIND[case['span_type']], lib.clist(lib.cZ(i) for i in ids0),
        lib.clist(calls),
        c_state(case['vals'], case['status'], case['iters'], []),
        c_state(obs['vals'], obs['status'], obs['iters'], obs['log']),
        lib.clist(outs))


PREAMBLE_HIST = PREAMBLE_ALL.replace('Fsic.Solver.SolveAllF.', 'Fsic.Solver.SolveAllF Fsic.Solver.SolveAllHistF.')


def correspond_hist(cases, obs, tag):
    items = [c_hcase(c, o) for c, o in zip(cases, obs)]
    return lib.run_coq_cases(tag, PREAMBLE_HIST, items, 'bad_indices check_hcase 0%nat cs')


def explain_hist(case, obs):
    c = c_hcase(case, obs)
    return lib.coq_eval('explain_hist', PREAMBLE_HIST, 'let c := %s in run_hist (h_scripts c) (h_desc c) (h_kind c) (h_calls c) (h_state c, h_span c)' % c)[-3000:]


HIST_TYPES = ['range', 'list_str', 'tuple_str', 'np_int', 'np_str', 'pd_int', 'pd_str', 'period_qm', 'range0', 'list_dupin', 'np_dupin_nm', 'pd_dupin',
              'np_dup', 'np_dupnm', 'rx_list', 'rx_np', 'rx_pd', 'rx_tuple', 'rx_np', 'rx_pd']


def hist_case(rng, errs=('raise', 'raise', 'skip', 'skip', 'ignore', 'replace')):
    """A history on one instance: solver calls (solve_t with both spellings of t, solve_period, solve; each with its own options,
    offsets included; models with and without lags / leads) interleaved with copy(), reindex(same span), whole-series list
    assignments and direct cell assignments (NaN included); periods are re-solved, so statuses get overwritten."""
    n = rng.choice([2, 3, 4])
    st = rng.choice(HIST_TYPES)
    lags, leads = (rng.choice([0, 1]), rng.choice([0, 1])) if rng.random() < 0.35 else (0, 0)
    c = solve_case(span_type=st, n=n, nvars=2, check=(0,), endo=(0,), lags=lags, leads=leads)
    c['kind'] = 'hist'
    del c['opts'], c['start'], c['end'], c['entry']
    bad = [float('nan'), float('inf'), float('-inf')]
    scripts = {}
    for p in range(n + (3 if st in RX_KIND else 0)):
        r = rng.random()
        v = 1.5 + p
        vals = [1.0 + p, v, v, v]
        if r < 0.2:
            vals[rng.randrange(3)] = rng.choice(bad)
        elif r < 0.3:
            vals = [1.0, 2.0, 1.0, 2.0]
        passes = settle_passes(0, vals)
        if 0.3 <= r < 0.38:
            passes[rng.randrange(3)] = [['raise', rng.choice([10, 12, 20, 21, 22, 23])]]
        elif 0.38 <= r < 0.46:
            passes[rng.randrange(3)] = [['warnset', 0, lib.fhex(rng.choice([float('inf'), 3.0]))]]
        elif 0.46 <= r < 0.6:
            # a pass that depends on the state: V0 := 0.5 * V0 + const (so seeding by offset / assignments matters)
            passes = [[['affine', 0, lib.fhex(0.5), 0, lib.fhex(1.0 + p)]] for _ in range(6)]
        scripts[str(p)] = {'passes': passes}
        if rng.random() < 0.05:
            scripts[str(p)]['after' if rng.random() < 0.5 else 'before'] = [['raise', 13]]
    c['scripts'] = with_list_assignments(rng, scripts, 0.15)
    specs = label_specs(st, n)
    calls = []
    labels = list(range(2000, 2000 + n))
    fresh_label = [3000]
    for _ in range(rng.randint(2, 7)):
        r = rng.random()
        if st in RX_KIND and rng.random() < 0.2 and calls:
            # reindex() onto another span: periods prepended / appended / dropped / reversed, so labels move to other positions
            how = rng.choice(['prepend', 'prepend', 'append', 'drop_first', 'reverse', 'same'])
            if how == 'prepend' and len(labels) <= n + 1:
                labels = [fresh_label[0]] + labels
                fresh_label[0] += 1
            elif how == 'append' and len(labels) <= n + 1:
                labels = labels + [fresh_label[0]]
                fresh_label[0] += 1
            elif how == 'drop_first' and len(labels) > 2:
                labels = labels[1:]
            elif how == 'reverse':
                labels = labels[::-1]
            calls.append({'api': 'reindex', 'labels': list(labels)})
            specs = label_specs(st, len(labels))
            continue
        if r < 0.1:
            calls.append({'api': 'copy'})
            continue
        if r < 0.15 and st in SPAN_NODUP and st not in PERIOD_MODELLED and st not in RX_KIND:
            calls.append({'api': 'reindex_same'})
            continue
        if r < 0.25:
            calls.append({'api': 'set_row', 'var': rng.randrange(2), 'values': [lib.fhex(rng.choice([0.0, 1.0, 2.5, -1.0] + (bad if rng.random() < 0.3 else [])))
                                                                                for _ in range(len(labels))]})
            continue
        if r < 0.35:
            p = rng.randrange(len(labels))
            calls.append({'api': 'set_cell', 'var': rng.randrange(2), 'pos': p if rng.random() < 0.7 else p - len(labels),
                          'value': lib.fhex(rng.choice([float('nan'), float('nan'), float('inf'), 0.0, 7.0]))})
            continue
        mx = rng.choice([1, 2, 3, 4, 5, 8])
        o = dict(min_iter=rng.choice([0, 0, 1, 2, mx]) if rng.random() < 0.9 else mx + 1, max_iter=mx, tol=lib.fhex(rng.choice([1e-10, 1e-10, 0.75])),
                 offset=rng.choice([0, 0, 0, -1, 1, -2]), failures=rng.choice(['raise', 'ignore']),
                 errors=rng.choice(errs) if rng.random() < 0.95 else 'bogus', catch_first_error=rng.random() < 0.5)
        o = random_omit(rng, o, 0.12)
        api = rng.choice(['solve_t', 'solve_t', 'solve_period', 'solve', 'solve'])
        if api == 'solve_t':
            p = rng.randrange(len(labels))
            calls.append({'api': api, 't': p if rng.random() < 0.6 else p - len(labels), 'opts': o})
        elif api == 'solve_period':
            calls.append({'api': api, 'start': rng.choice(specs[1:]), 'opts': o})
        else:
            calls.append({'api': api, 'start': rng.choice(specs + [None, None]), 'end': rng.choice(specs + [None, None]), 'opts': o})
    c['calls'] = calls
    return c


def hist_steps_as_solve_t(case, obs):
    """Every solve_t step of a history, and every solve_period step whose label names one period, as a stand-alone solve_t-format
    (case, observation) pair: the state before the step is the case's initial state, the slices of the event / pass records made
    during the step are its observation.  Lets the single-call statements be evaluated at EVERY step of a history."""
    for k, (call, step) in enumerate(zip(case['calls'], obs['steps'])):
        if step is None or call['api'] not in ('solve_t', 'solve_period'):
            continue
        if call['api'] == 'solve_t':
            t, entry = call['t'], 'solve_t'
        else:
            exp = expected_range(dict(case, n=len(step['pre'][1]), start=call['start'], end=None, entry='solve_period'))
            if exp is None or exp[0] != 'range':
                continue
            t, entry = exp[1], 'solve_period'
        c = {'nvars': case['nvars'], 'check': case['check'], 'endo': case['endo'], 'n': len(step['pre'][1]), 't': t, 'vals': step['pre'][0],
             'status': step['pre'][1], 'iters': step['pre'][2], 'opts': call['opts'], 'scripts': case['scripts'], 'entry': entry,
             'lags': case.get('lags', 0), 'leads': case.get('leads', 0)}
        o = {'out': obs['outs'][k], 'vals': step['post'][0], 'status': step['post'][1], 'iters': step['post'][2], 'log': step['log'],
             'passvecs': step['passvecs'], 'raised': step['raised'], 'blocked': step['blocked'], 'warn_stored': step['warn_stored']}
        yield k, c, o


def default_probe_scripts(p):
    """scripts (for check variable 0 at position p) whose outcome depends on one of the keyword defaults:
    never converging (max_iter, failures), converged from the first pass on (min_iter), a move of 2.5e-11 / 5e-10 per pass (tol),
    a NaN / a warning at pass 2 (errors, catch_first_error), state-dependent (offset)"""
    osc = [[['affine', 0, lib.fhex(-1.0), 0, lib.fhex(1.0)]] for _ in range(120)]
    return {
        'oscillating': {'passes': osc},
        'settled': {'passes': [[['affine', 0, lib.fhex(1.0), 0, lib.fhex(0.0)]] for _ in range(4)]},
        'creep-small': {'passes': [[['affine', 0, lib.fhex(1.0), 0, lib.fhex(2.5e-11)]] for _ in range(4)]},
        'creep-large': {'passes': [[['affine', 0, lib.fhex(1.0), 0, lib.fhex(5e-10)]] for _ in range(120)]},
        'nan-at-2': {'passes': [[['set', 0, lib.fhex(1.0)]], [['set', 0, 'nan']], [['set', 0, lib.fhex(1.0)]], [['set', 0, lib.fhex(1.0)]]]},
        'warn-at-2': {'passes': [[['set', 0, lib.fhex(1.0)]], [['warnset', 0, lib.fhex(3.0)]], [['set', 0, lib.fhex(3.0)]], [['set', 0, lib.fhex(3.0)]]]},
        'halving': {'passes': [[['affine', 0, lib.fhex(0.5), 0, lib.fhex(1.0)]] for _ in range(60)]},
    }


def default_probe_omissions():
    return [[k] for k in OPT_KEYS] + [list(OPT_KEYS), ['min_iter', 'max_iter'], ['failures', 'errors', 'catch_first_error']]


def with_list_assignments(rng, scripts, p=0.15, check=(0,)):
    """With probability p turn the plain stores of one period's script (pre-hook, passes, post-hook) into whole-series list assignments
    (`model.V_i = [...]`, which rebinds the backing array); either all of them or only those of the pre-hook / the first passes."""
    if rng.random() >= p or not scripts:
        return scripts
    key = rng.choice(sorted(scripts))
    ps = scripts[key]
    mode = rng.choice(['all', 'all', 'first-pass', 'before', 'random'])

    def conv(acts, pr):
        return [['setlist', a[1], a[2]] if a[0] == 'set' and rng.random() < pr else a for a in acts]
    out = dict(ps)
    if 'before' in ps:
        out['before'] = conv(ps['before'], 1.0 if mode in ('all', 'before') else (0.5 if mode == 'random' else 0.0))
    if 'passes' in ps:
        out['passes'] = [conv(acts, 1.0 if mode == 'all' or (mode == 'first-pass' and i == 0) else (0.5 if mode == 'random' else 0.0))
                         for i, acts in enumerate(ps['passes'])]
    if 'after' in ps:
        out['after'] = conv(ps['after'], 1.0 if mode == 'all' else 0.0)
    if mode == 'before' and not any(a[0] == 'setlist' for a in out.get('before', [])):
        # a pre-hook that loads the starting value of a check variable from a list (the value it already has: semantics unchanged)
        out['before'] = list(out.get('before', [])) + [['setlistkeep', rng.choice(list(check) or [0])]]
    scripts = dict(scripts)
    scripts[key] = out
    return scripts
