"""Shared by C02 / C06 / C04 / C05 / C17: scripted-model cases, implementation driver, Coq encoding."""
import itertools
import math

import lib

TOL = 1e-10
ERRMODES = {'raise': 'ERaise', 'skip': 'ESkip', 'ignore': 'EIgnore', 'replace': 'EReplace'}
ST = {'-': 'Unsolved', '.': 'Solved', 'F': 'Failed', 'E': 'ErrorSt', 'S': 'Skipped'}
EXN = {'ValueError': 'ValueError', 'IndexError': 'IndexError', 'KeyError': 'KeyError', 'NonConvergenceError': 'NonConvergenceError',
       'UnboundLocalError': 'UnboundLocalError', 'TypeError': 'TypeError', 'AttributeError': 'AttributeError'}


def nextafter(x, y):
    return math.nextafter(x, y)


PALETTE_FINITE = [0.0, TOL, nextafter(TOL, 0.0), nextafter(TOL, 1.0), 1.0, 1.5, -TOL, 2.5e-11, -1.0]
PALETTE_BAD = [float('nan'), float('inf'), float('-inf')]


# --------------------------------------------------------------------------- implementation side
def impl_solve_t(case):
    """Runs the real BaseModel.solve_t / solve_period on a scripted model; returns the canonical observation."""
    import numpy as np
    import fsic
    import scripted
    cls = scripted.make_class(fsic.BaseModel, case['nvars'], case['check'], case['endo'])
    n = case['n']
    span = list(range(2000, 2000 + n))
    m = scripted.instantiate(cls, span, case['vals'], case['status'], case['iters'], case['scripts'],
                             lags=case.get('lags', 0), leads=case.get('leads', 0))
    o = case['opts']
    kw = dict(min_iter=o['min_iter'], max_iter=o['max_iter'], tol=lib.unhex(o['tol']), offset=o['offset'],
              failures=o['failures'], errors=o['errors'], catch_first_error=o['catch_first_error'])
    try:
        if case.get('entry', 'solve_t') == 'solve_period':
            r = m.solve_period(span[case['t'] if case['t'] >= 0 else case['t'] + n], **kw)
        else:
            r = m.solve_t(case['t'], **kw)
        out = ['ret', bool(r)]
    except Exception as e:  # the observation: class and class of the chained cause
        c = e.__cause__
        out = ['raise', type(e).__name__, type(c).__name__ if c is not None else None]
    return {
        'out': out,
        'vals': [[lib.fhex(x) for x in m.__dict__['_V%d' % i]] for i in range(case['nvars'])],
        'status': [str(x) for x in m.__dict__['_status']],
        'iters': [int(x) for x in m.__dict__['_iterations']],
        'log': m.__dict__['_evlog'],
        'passvecs': [[lib.fhex(x) for x in v] for v in m.__dict__['_passvecs']],
        'raised': m.__dict__['_raised'],
        'blocked': [[b[0], b[1], lib.fhex(float.fromhex(b[2]) if b[2].startswith(('0x', '-0x')) else float(b[2]))] for b in m.__dict__['_blocked']],
    }


# --------------------------------------------------------------------------- Coq encoding
def c_action(a):
    k = a[0]
    if k == 'set':
        return '(ASet %d %s)' % (a[1], lib.cfloat(a[2]))
    if k == 'warnset':
        return '(AWarnSet %d %s)' % (a[1], lib.cfloat(a[2]))
    if k == 'raise':
        return '(ARaise %d)' % a[1]
    if k == 'setat':
        return '(ASetAt %d %s %s)' % (a[1], lib.cZ(a[2]), lib.cfloat(a[3]))
    if k == 'affine':
        return '(AAffine %d %s %d %s)' % (a[1], lib.cfloat(a[2]), a[3], lib.cfloat(a[4]))
    raise AssertionError(a)


def c_scripts(sc):
    items = []
    for p, ps in sorted(sc.items(), key=lambda kv: int(kv[0])):
        items.append('(%d%%nat, mkPS %s %s %s)' % (int(p), lib.clist(map(c_action, ps.get('before', []))),
                                                  lib.clist(lib.clist(map(c_action, acts)) for acts in ps.get('passes', [])),
                                                  lib.clist(map(c_action, ps.get('after', [])))))
    return lib.clist(items)


def c_opts(o):
    return '(mkOpts %s %s %s %s %s %s %s)' % (lib.cZ(o['min_iter']), lib.cZ(o['max_iter']), lib.cfloat(o['tol']), lib.cZ(o['offset']),
                                              lib.cbool(o['failures'] == 'raise'), ERRMODES.get(o['errors'], 'EInvalid'), lib.cbool(o['catch_first_error']))


def c_event(e):
    if e[0] == 'before':
        return '(EvBefore %s)' % lib.cZ(e[1])
    return '(%s %s %d%%nat)' % ('EvPass' if e[0] == 'pass' else 'EvAfter', lib.cZ(e[1]), e[2])


def c_state(vals, status, iters, log):
    return '(mkState %s %s %s %s)' % (lib.clist(lib.clist(lib.cfloat(x) for x in row) for row in vals),
                                      lib.clist(ST[s] for s in status), lib.clist(lib.cZ(i) for i in iters), lib.clist(map(c_event, log)))


def c_outcome(out, cause_tag):
    if out[0] == 'ret':
        return '(Ret %s)' % lib.cbool(out[1])
    cls, cause = out[1], out[2]
    if cls == 'SolutionError':
        return '(Raise (SolutionError %s))' % ('None' if cause is None else '(Some %d)' % cause_tag.get(cause, 99))
    return '(Raise %s)' % EXN.get(cls, 'OtherError')


def c_desc(case):
    return '(mkDesc %s %s %d%%nat %d%%nat)' % (lib.clist('%d%%nat' % i for i in case['check']), lib.clist('%d%%nat' % i for i in case['endo']),
                                             case.get('lags', 0), case.get('leads', 0))


PREAMBLE = '''From Coq Require Import PrimFloat ZArith List Bool.
Import ListNotations.
Require Import Fsic.Base.PyBase Fsic.Solver.Solver Fsic.Solver.SolverF.
Open Scope float_scope. Open Scope Z_scope.
'''


def model_t(case):
    # solve_period resolves the label to its (non-negative) position and passes that to solve_t
    if case.get('entry') == 'solve_period' and case['t'] < 0:
        return case['t'] + case['n']
    return case['t']


def c_tcase(case, obs):
    import scripted
    return '(mkCase %s %s %s %s %s %s %s)' % (
        c_scripts(case['scripts']), c_desc(case), c_opts(case['opts']), lib.cZ(model_t(case)),
        c_state(case['vals'], case['status'], case['iters'], []),
        c_state(obs['vals'], obs['status'], obs['iters'], obs['log']),
        c_outcome(obs['out'], scripted.CAUSE_TAG))


def correspond_solve_t(cases, obs, tag):
    items = [c_tcase(c, o) for c, o in zip(cases, obs)]
    return lib.run_coq_cases(tag, PREAMBLE, items, 'bad_indices check_tcase 0%nat cs')


def explain_solve_t(case, obs):
    return lib.coq_eval('explain', PREAMBLE, 'f_solve_t %s %s %s %s %s' % (
        c_scripts(case['scripts']), c_desc(case), c_opts(case['opts']), lib.cZ(model_t(case)),
        c_state(case['vals'], case['status'], case['iters'], [])))[-3000:]


# --------------------------------------------------------------------------- generators
def base_case(nvars=2, check=(0,), endo=(0,), n=4, t=1, **opts):
    o = dict(min_iter=0, max_iter=3, tol=lib.fhex(TOL), offset=0, failures='raise', errors='raise', catch_first_error=True)
    o.update(opts)
    return {'nvars': nvars, 'check': list(check), 'endo': list(endo), 'n': n, 't': t,
            'vals': [[lib.fhex(0.25 * (i + 1) + 0.125 * p) for p in range(n)] for i in range(nvars)],
            'status': ['-'] * n, 'iters': [-1] * n, 'opts': o, 'scripts': {}, 'entry': 'solve_t'}


def value_script(seqs, check):
    """seqs[k][j] = value of check variable j after pass k+1 -> list of passes (actions)."""
    return [[['set', check[j], lib.fhex(v)] for j, v in enumerate(vec) if v is not None] for vec in seqs]


def lattice_cases(rng, max_len, palette, n_random, fault_kinds=False):
    """Exhaustive outcome sequences of one check variable up to max_len x the option lattice (sampled product),
    then random multi-variable ones."""
    cases = []
    opts_lattice = []
    for max_iter in range(0, max_len + 1):
        for min_iter in range(0, max_iter + 2):
            for failures in ('raise', 'ignore'):
                opts_lattice.append((min_iter, max_iter, failures))
    for L in range(0, max_len + 1):
        for seq in itertools.product(range(len(palette)), repeat=L):
            # every sequence is run with a few lattice points: all of them when short, sampled when long
            pts = opts_lattice if L <= 1 else rng.sample(opts_lattice, 3)
            for (mn, mx, fl) in pts:
                c = base_case(min_iter=mn, max_iter=mx, failures=fl)
                c['vals'][0][1] = lib.fhex(0.0)
                c['scripts'] = {'1': {'passes': value_script([[palette[i]] for i in seq], [0])}}
                cases.append(c)
    return cases
